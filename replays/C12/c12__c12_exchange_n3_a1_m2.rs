// counterexample for harness c12::c12_exchange_n3_a1_m2 (property C12)
// failed checks: [{"id": "kani::rustc_intrinsics::offset::<revm_primitives::alloy_primitives::Uint<256, 4>, *mut revm_primitives::alloy_primitives::Uint<256, 4>, isize>.safety_check.2", "description": "Offset result address must equal original pointer address plus offset", "location": "library/kani/src/lib.rs:57:1 in function kani::rustc_intrinsics::offset::<revm_primitives::alloy_primitives::Uint<256, 4>, *mut revm_primitives::alloy_primitives::Uint<256, 4>, isize>"}]
// native replay: native playback could not be built/run: uplicate) warning: `revm-verif-harness` (lib test) generated 1 warning (1 duplicate)     Finished `test` profile [unoptimized] target(s) in 1m 17s      Running unittests src/lib.rs (/verif/.scratch/playback-target/x86_64-unknown-linux-gnu/debug/build/revm-verif-harness/297c738d163dd8ce/out/revm_verif_harness-297c738d163dd8ce)  running 1 test free(): invalid pointer error: test failed, to rerun pass `--lib`  Caused by:   process didn't exit successfully: `/verif/.scratch/playback-target/x86_64-unknown-linux-gnu/debug/build/revm-verif-harness/297c738d163dd8ce/out/revm_verif_harness-297c738d163dd8ce kani_concrete_playback_c12_exchange_n3_a1_m2_7330085172838595612` (signal: 6, SIGABRT: process abort signal) error: /root/.kani/kani-0.68.0/toolchain/bin/cargo exited with status exit status: 101 
// re-run: /verif/bin/check C12 --replay /verif/replays/C12/c12__c12_exchange_n3_a1_m2.rs
// harness: c12::c12_exchange_n3_a1_m2
#[test]
fn kani_concrete_playback_c12_exchange_n3_a1_m2_7330085172838595612() {
    let concrete_vals: Vec<Vec<u8>> = vec![
        // 0ul
        vec![0, 0, 0, 0, 0, 0, 0, 0],
    ];
    kani::concrete_playback_run(concrete_vals, c12_exchange_n3_a1_m2);
}
