// counterexample for harness c12::c12_push_slice_n1022_l70 (property C12)
// failed checks: [{"id": "c12::body_push_slice.assertion.5", "description": "\"failed push_slice changed the length\"", "location": "src/c12.rs:281:9 in function c12::body_push_slice"}]
// native replay: native run panicked: panicked at src/c12.rs:281:9: failed push_slice changed the length
// re-run: /verif/bin/check C12 --replay /verif/replays/C12/c12__c12_push_slice_n1022_l70.rs
// harness: c12::c12_push_slice_n1022_l70
#[test]
fn kani_concrete_playback_c12_push_slice_n1022_l70_17063448748951939572() {
    let concrete_vals: Vec<Vec<u8>> = vec![
        // 0
        vec![0],
        // 0
        vec![0],
        // 0
        vec![0],
        // 0
        vec![0],
        // 0
        vec![0],
        // 0
        vec![0],
        // 0
        vec![0],
        // 0
        vec![0],
        // 0
        vec![0],
        // 0
        vec![0],
        // 0
        vec![0],
        // 0
        vec![0],
        // 0
        vec![0],
        // 0
        vec![0],
        // 0
        vec![0],
        // 0
        vec![0],
        // 0
        vec![0],
        // 0
        vec![0],
        // 0
        vec![0],
        // 0
        vec![0],
        // 0
        vec![0],
        // 0
        vec![0],
        // 0
        vec![0],
        // 0
        vec![0],
        // 0
        vec![0],
        // 0
        vec![0],
        // 0
        vec![0],
        // 0
        vec![0],
        // 0
        vec![0],
        // 0
        vec![0],
        // 0
        vec![0],
        // 0
        vec![0],
        // 0
        vec![0],
        // 0
        vec![0],
        // 0
        vec![0],
        // 0
        vec![0],
        // 0
        vec![0],
        // 0
        vec![0],
        // 0
        vec![0],
        // 0
        vec![0],
        // 0
        vec![0],
        // 0
        vec![0],
        // 0
        vec![0],
        // 0
        vec![0],
        // 0
        vec![0],
        // 0
        vec![0],
        // 0
        vec![0],
        // 0
        vec![0],
        // 0
        vec![0],
        // 0
        vec![0],
        // 0
        vec![0],
        // 0
        vec![0],
        // 0
        vec![0],
        // 0
        vec![0],
        // 0
        vec![0],
        // 0
        vec![0],
        // 0
        vec![0],
        // 0
        vec![0],
        // 0
        vec![0],
        // 0
        vec![0],
        // 0
        vec![0],
        // 0
        vec![0],
        // 0
        vec![0],
        // 0
        vec![0],
        // 0
        vec![0],
        // 0
        vec![0],
        // 0
        vec![0],
        // 0
        vec![0],
        // 0
        vec![0],
        // 0
        vec![0],
        // 0ul
        vec![0, 0, 0, 0, 0, 0, 0, 0],
        // 0ul
        vec![0, 0, 0, 0, 0, 0, 0, 0],
    ];
    kani::concrete_playback_run(concrete_vals, c12_push_slice_n1022_l70);
}
