// counterexample for harness c12::c12_push_slice_n1023_l33 (property C12)
// failed checks: [{"id": "c12::body_push_slice.assertion.5", "description": "\"failed push_slice changed the length\"", "location": "src/c12.rs:281:9 in function c12::body_push_slice"}]
// native replay: native run panicked: panicked at library/kani/src/concrete_playback.rs:66:5: assertion `left == right` failed: Expected 1 bytes in the following det vals vec
// re-run: /verif/bin/check C12 --replay /verif/replays/C12/c12__c12_push_slice_n1023_l33.rs
// harness: c12::c12_push_slice_n1023_l33
#[test]
fn kani_concrete_playback_c12_push_slice_n1023_l33_5150356091462096762() {
    let concrete_vals: Vec<Vec<u8>> = vec![
        // 0ul
        vec![0, 0, 0, 0, 0, 0, 0, 0],
        // 0ul
        vec![0, 0, 0, 0, 0, 0, 0, 0],
    ];
    kani::concrete_playback_run(concrete_vals, c12_push_slice_n1023_l33);
}
