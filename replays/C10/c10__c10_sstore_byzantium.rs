// counterexample for harness c10::c10_sstore_byzantium (property C10)
// failed checks: [{"id": "<util::NoHost as revm_interpreter::Host>::sstore.assertion.1", "description": "host called: sstore", "location": "src/util.rs:73:9 in function <util::NoHost as revm_interpreter::Host>::sstore"}]
// native replay: native run panicked: panicked at src/util.rs:73:9: host called: sstore
// re-run: /verif/bin/check C10 --replay /verif/replays/C10/c10__c10_sstore_byzantium.rs
// harness: c10::c10_sstore_byzantium
#[test]
fn kani_concrete_playback_c10_sstore_byzantium_9997131040894073078() {
    let concrete_vals: Vec<Vec<u8>> = vec![
        // 0ul
        vec![0, 0, 0, 0, 0, 0, 0, 0],
        // 0ul
        vec![0, 0, 0, 0, 0, 0, 0, 0],
        // 0ul
        vec![0, 0, 0, 0, 0, 0, 0, 0],
        // 0ul
        vec![0, 0, 0, 0, 0, 0, 0, 0],
        // 0ul
        vec![0, 0, 0, 0, 0, 0, 0, 0],
        // 0ul
        vec![0, 0, 0, 0, 0, 0, 0, 0],
        // 0ul
        vec![0, 0, 0, 0, 0, 0, 0, 0],
        // 0ul
        vec![0, 0, 0, 0, 0, 0, 0, 0],
        // 0ul
        vec![0, 0, 0, 0, 0, 0, 0, 0],
        // 0ul
        vec![0, 0, 0, 0, 0, 0, 0, 0],
        // 0ul
        vec![0, 0, 0, 0, 0, 0, 0, 0],
        // 0ul
        vec![0, 0, 0, 0, 0, 0, 0, 0],
        // 0ul
        vec![0, 0, 0, 0, 0, 0, 0, 0],
        // 0ul
        vec![0, 0, 0, 0, 0, 0, 0, 0],
        // 0ul
        vec![0, 0, 0, 0, 0, 0, 0, 0],
        // 0ul
        vec![0, 0, 0, 0, 0, 0, 0, 0],
        // 0ul
        vec![0, 0, 0, 0, 0, 0, 0, 0],
        // 0ul
        vec![0, 0, 0, 0, 0, 0, 0, 0],
        // 0ul
        vec![0, 0, 0, 0, 0, 0, 0, 0],
        // 0ul
        vec![0, 0, 0, 0, 0, 0, 0, 0],
        // 0ul
        vec![0, 0, 0, 0, 0, 0, 0, 0],
        // 0ul
        vec![0, 0, 0, 0, 0, 0, 0, 0],
        // 0ul
        vec![0, 0, 0, 0, 0, 0, 0, 0],
        // 0ul
        vec![0, 0, 0, 0, 0, 0, 0, 0],
        // 0ul
        vec![0, 0, 0, 0, 0, 0, 0, 0],
        // 0ul
        vec![0, 0, 0, 0, 0, 0, 0, 0],
        // 0ul
        vec![0, 0, 0, 0, 0, 0, 0, 0],
        // 0ul
        vec![0, 0, 0, 0, 0, 0, 0, 0],
        // 0ul
        vec![0, 0, 0, 0, 0, 0, 0, 0],
        // 0ul
        vec![0, 0, 0, 0, 0, 0, 0, 0],
        // 0ul
        vec![0, 0, 0, 0, 0, 0, 0, 0],
        // 0ul
        vec![0, 0, 0, 0, 0, 0, 0, 0],
        // 0ul
        vec![0, 0, 0, 0, 0, 0, 0, 0],
    ];
    kani::concrete_playback_run(concrete_vals, c10_sstore_byzantium);
}
