// counterexample for harness c14::c14_sstore_cost (property C34)
// failed checks: [{"id": "c14::c14_sstore_cost.assertion.1", "description": "\"sstore_cost differs from EIP-2200/2929 (incl. EIP-1706 stipend rule)\"", "location": "src/c14.rs:250:5 in function c14::c14_sstore_cost"}]
// native replay: native run panicked: panicked at src/c14.rs:250:5: sstore_cost differs from EIP-2200/2929 (incl. EIP-1706 stipend rule)
// re-run: /verif/bin/check C34 --replay /verif/replays/C34/c14__c14_sstore_cost.rs
// harness: c14::c14_sstore_cost
#[test]
fn kani_concrete_playback_c14_sstore_cost_18208806325136483438() {
    let concrete_vals: Vec<Vec<u8>> = vec![
        // 255
        vec![255],
        // 0ul
        vec![0, 0, 0, 0, 0, 0, 0, 0],
        // 0ul
        vec![0, 0, 0, 0, 0, 0, 0, 0],
        // 0ul
        vec![0, 0, 0, 0, 0, 0, 0, 0],
        // 0ul
        vec![0, 0, 0, 0, 0, 0, 0, 0],
        // 0ul
        vec![0, 0, 0, 0, 0, 0, 0, 0],
        // 0ul
        vec![0, 0, 0, 0, 0, 0, 0, 0],
        // 0ul
        vec![0, 0, 0, 0, 0, 0, 0, 0],
        // 0ul
        vec![0, 0, 0, 0, 0, 0, 0, 0],
        // 0ul
        vec![0, 0, 0, 0, 0, 0, 0, 0],
        // 0ul
        vec![0, 0, 0, 0, 0, 0, 0, 0],
        // 0ul
        vec![0, 0, 0, 0, 0, 0, 0, 0],
        // 0ul
        vec![0, 0, 0, 0, 0, 0, 0, 0],
        // 18446744073709551615ul
        vec![255, 255, 255, 255, 255, 255, 255, 255],
        // 1
        vec![1],
    ];
    kani::concrete_playback_run(concrete_vals, c14_sstore_cost);
}

#[test]
fn kani_concrete_playback_c14_sstore_cost_14153768097575859326() {
    let concrete_vals: Vec<Vec<u8>> = vec![
        // 255
        vec![255],
        // 0ul
        vec![0, 0, 0, 0, 0, 0, 0, 0],
        // 0ul
        vec![0, 0, 0, 0, 0, 0, 0, 0],
        // 0ul
        vec![0, 0, 0, 0, 0, 0, 0, 0],
        // 0ul
        vec![0, 0, 0, 0, 0, 0, 0, 0],
        // 0ul
        vec![0, 0, 0, 0, 0, 0, 0, 0],
        // 0ul
        vec![0, 0, 0, 0, 0, 0, 0, 0],
        // 0ul
        vec![0, 0, 0, 0, 0, 0, 0, 0],
        // 0ul
        vec![0, 0, 0, 0, 0, 0, 0, 0],
        // 0ul
        vec![0, 0, 0, 0, 0, 0, 0, 0],
        // 0ul
        vec![0, 0, 0, 0, 0, 0, 0, 0],
        // 0ul
        vec![0, 0, 0, 0, 0, 0, 0, 0],
        // 0ul
        vec![0, 0, 0, 0, 0, 0, 0, 0],
        // 2047ul
        vec![255, 7, 0, 0, 0, 0, 0, 0],
        // 1
        vec![1],
    ];
    kani::concrete_playback_run(concrete_vals, c14_sstore_cost);
}

#[test]
fn kani_concrete_playback_c14_sstore_cost_14725534288483855186() {
    let concrete_vals: Vec<Vec<u8>> = vec![
        // 255
        vec![255],
        // 0ul
        vec![0, 0, 0, 0, 0, 0, 0, 0],
        // 0ul
        vec![0, 0, 0, 0, 0, 0, 0, 0],
        // 0ul
        vec![0, 0, 0, 0, 0, 0, 0, 0],
        // 0ul
        vec![0, 0, 0, 0, 0, 0, 0, 0],
        // 0ul
        vec![0, 0, 0, 0, 0, 0, 0, 0],
        // 0ul
        vec![0, 0, 0, 0, 0, 0, 0, 0],
        // 0ul
        vec![0, 0, 0, 0, 0, 0, 0, 0],
        // 0ul
        vec![0, 0, 0, 0, 0, 0, 0, 0],
        // 0ul
        vec![0, 0, 0, 0, 0, 0, 0, 0],
        // 0ul
        vec![0, 0, 0, 0, 0, 0, 0, 0],
        // 0ul
        vec![0, 0, 0, 0, 0, 0, 0, 0],
        // 281474976710656ul
        vec![0, 0, 0, 0, 0, 0, 1, 0],
        // 2301ul
        vec![253, 8, 0, 0, 0, 0, 0, 0],
        // 1
        vec![1],
    ];
    kani::concrete_playback_run(concrete_vals, c14_sstore_cost);
}

#[test]
fn kani_concrete_playback_c14_sstore_cost_883375524808556681() {
    let concrete_vals: Vec<Vec<u8>> = vec![
        // 255
        vec![255],
        // 0ul
        vec![0, 0, 0, 0, 0, 0, 0, 0],
        // 1ul
        vec![1, 0, 0, 0, 0, 0, 0, 0],
        // 0ul
        vec![0, 0, 0, 0, 0, 0, 0, 0],
        // 0ul
        vec![0, 0, 0, 0, 0, 0, 0, 0],
        // 0ul
        vec![0, 0, 0, 0, 0, 0, 0, 0],
        // 1ul
        vec![1, 0, 0, 0, 0, 0, 0, 0],
        // 0ul
        vec![0, 0, 0, 0, 0, 0, 0, 0],
        // 0ul
        vec![0, 0, 0, 0, 0, 0, 0, 0],
        // 0ul
        vec![0, 0, 0, 0, 0, 0, 0, 0],
        // 0ul
        vec![0, 0, 0, 0, 0, 0, 0, 0],
        // 0ul
        vec![0, 0, 0, 0, 0, 0, 0, 0],
        // 281474976710656ul
        vec![0, 0, 0, 0, 0, 0, 1, 0],
        // 2301ul
        vec![253, 8, 0, 0, 0, 0, 0, 0],
        // 0
        vec![0],
    ];
    kani::concrete_playback_run(concrete_vals, c14_sstore_cost);
}

#[test]
fn kani_concrete_playback_c14_sstore_cost_600679044093027432() {
    let concrete_vals: Vec<Vec<u8>> = vec![
        // 10
        vec![10],
        // 0ul
        vec![0, 0, 0, 0, 0, 0, 0, 0],
        // 1ul
        vec![1, 0, 0, 0, 0, 0, 0, 0],
        // 0ul
        vec![0, 0, 0, 0, 0, 0, 0, 0],
        // 0ul
        vec![0, 0, 0, 0, 0, 0, 0, 0],
        // 129ul
        vec![129, 0, 0, 0, 0, 0, 0, 0],
        // 1ul
        vec![1, 0, 0, 0, 0, 0, 0, 0],
        // 0ul
        vec![0, 0, 0, 0, 0, 0, 0, 0],
        // 0ul
        vec![0, 0, 0, 0, 0, 0, 0, 0],
        // 249ul
        vec![249, 0, 0, 0, 0, 0, 0, 0],
        // 1ul
        vec![1, 0, 0, 0, 0, 0, 0, 0],
        // 0ul
        vec![0, 0, 0, 0, 0, 0, 0, 0],
        // 0ul
        vec![0, 0, 0, 0, 0, 0, 0, 0],
        // 2301ul
        vec![253, 8, 0, 0, 0, 0, 0, 0],
        // 1
        vec![1],
    ];
    kani::concrete_playback_run(concrete_vals, c14_sstore_cost);
}
