// counterexample for harness c11::c11_cost_base_p32_c64 (property C11)
// failed checks: [{"id": "c11::body_cost_base.assertion.11", "description": "\"expansion-cost base after a child frame is not the parent's own memory size\"", "location": "src/c11.rs:97:5 in function c11::body_cost_base"}]
// native replay: native run panicked: panicked at src/c11.rs:97:5: expansion-cost base after a child frame is not the parent's own memory size
// re-run: /verif/bin/check C11 --replay /verif/replays/C11/c11__c11_cost_base_p32_c64.rs
// harness: c11::c11_cost_base_p32_c64
#[test]
fn kani_concrete_playback_c11_cost_base_p32_c64_2997199151643351589() {
    let concrete_vals: Vec<Vec<u8>> = vec![
    ];
    kani::concrete_playback_run(concrete_vals, c11_cost_base_p32_c64);
}
