// counterexample for harness c27::c27_zero_tail_k1_z33 (property C27)
// failed checks: [{"id": "c27::body_analysed_zero_tail::<1, 34>.assertion.5", "description": "\"zero tail: len() after analysis differs from the input length\"", "location": "src/c27.rs:208:5 in function c27::body_analysed_zero_tail::<1, 34>"}]
// native replay: native run panicked: panicked at src/c27.rs:208:5: zero tail: len() after analysis differs from the input length
// re-run: /verif/bin/check C27 --replay /verif/replays/C27/c27__c27_zero_tail_k1_z33.rs
// harness: c27::c27_zero_tail_k1_z33
#[test]
fn kani_concrete_playback_c27_zero_tail_k1_z33_8600805971832997164() {
    let concrete_vals: Vec<Vec<u8>> = vec![
        // 0
        vec![0],
    ];
    kani::concrete_playback_run(concrete_vals, c27_zero_tail_k1_z33);
}
