// counterexample for harness c03::c03_signextend (property C03)
// failed checks: [{"id": "c03::verify.assertion.12", "description": "\"result differs from the 256-bit reference\"", "location": "src/c03.rs:257:9 in function c03::verify"}]
// native replay: native run panicked: panicked at src/c03.rs:257:9: result differs from the 256-bit reference
// re-run: /verif/bin/check C03 --replay /verif/replays/C03/c03__c03_signextend.rs
// harness: c03::c03_signextend
#[test]
fn kani_concrete_playback_c03_signextend_2293857988404317733() {
    let concrete_vals: Vec<Vec<u8>> = vec![
        // 19ul
        vec![19, 0, 0, 0, 0, 0, 0, 0],
        // 1ul
        vec![1, 0, 0, 0, 0, 0, 0, 0],
        // 0ul
        vec![0, 0, 0, 0, 0, 0, 0, 0],
        // 0ul
        vec![0, 0, 0, 0, 0, 0, 0, 0],
        // 18410715276690587649ul
        vec![1, 0, 0, 0, 0, 0, 128, 255],
        // 0ul
        vec![0, 0, 0, 0, 0, 0, 0, 0],
        // 2147483646ul
        vec![254, 255, 255, 127, 0, 0, 0, 0],
        // 1ul
        vec![1, 0, 0, 0, 0, 0, 0, 0],
        // 37ul
        vec![37, 0, 0, 0, 0, 0, 0, 0],
        // 18446744073709551615ul
        vec![255, 255, 255, 255, 255, 255, 255, 255],
        // 18446744073709551615ul
        vec![255, 255, 255, 255, 255, 255, 255, 255],
        // 18446744073709551615ul
        vec![255, 255, 255, 255, 255, 255, 255, 255],
        // 9223372036854775809ul
        vec![1, 0, 0, 0, 0, 0, 0, 128],
    ];
    kani::concrete_playback_run(concrete_vals, c03_signextend);
}

#[test]
fn kani_concrete_playback_c03_signextend_5061758238487247955() {
    let concrete_vals: Vec<Vec<u8>> = vec![
        // 9223372036854775808ul
        vec![0, 0, 0, 0, 0, 0, 0, 128],
        // 0ul
        vec![0, 0, 0, 0, 0, 0, 0, 0],
        // 0ul
        vec![0, 0, 0, 0, 0, 0, 0, 0],
        // 9223372036854775808ul
        vec![0, 0, 0, 0, 0, 0, 0, 128],
        // 0ul
        vec![0, 0, 0, 0, 0, 0, 0, 0],
        // 0ul
        vec![0, 0, 0, 0, 0, 0, 0, 0],
        // 0ul
        vec![0, 0, 0, 0, 0, 0, 0, 0],
        // 0ul
        vec![0, 0, 0, 0, 0, 0, 0, 0],
        // 0ul
        vec![0, 0, 0, 0, 0, 0, 0, 0],
        // 0ul
        vec![0, 0, 0, 0, 0, 0, 0, 0],
        // 0ul
        vec![0, 0, 0, 0, 0, 0, 0, 0],
        // 0ul
        vec![0, 0, 0, 0, 0, 0, 0, 0],
        // 0ul
        vec![0, 0, 0, 0, 0, 0, 0, 0],
    ];
    kani::concrete_playback_run(concrete_vals, c03_signextend);
}

#[test]
fn kani_concrete_playback_c03_signextend_3235221832339386440() {
    let concrete_vals: Vec<Vec<u8>> = vec![
        // 37ul
        vec![37, 0, 0, 0, 0, 0, 0, 0],
        // 0ul
        vec![0, 0, 0, 0, 0, 0, 0, 0],
        // 0ul
        vec![0, 0, 0, 0, 0, 0, 0, 0],
        // 0ul
        vec![0, 0, 0, 0, 0, 0, 0, 0],
        // 67108862ul
        vec![254, 255, 255, 3, 0, 0, 0, 0],
        // 18446744073709551609ul
        vec![249, 255, 255, 255, 255, 255, 255, 255],
        // 18446744073709551614ul
        vec![254, 255, 255, 255, 255, 255, 255, 255],
        // 18446744073709519358ul
        vec![254, 129, 255, 255, 255, 255, 255, 255],
        // 18446744073709551613ul
        vec![253, 255, 255, 255, 255, 255, 255, 255],
        // 18446744073709551615ul
        vec![255, 255, 255, 255, 255, 255, 255, 255],
        // 18446744073709551615ul
        vec![255, 255, 255, 255, 255, 255, 255, 255],
        // 18446744073709551615ul
        vec![255, 255, 255, 255, 255, 255, 255, 255],
        // 5ul
        vec![5, 0, 0, 0, 0, 0, 0, 0],
    ];
    kani::concrete_playback_run(concrete_vals, c03_signextend);
}

#[test]
fn kani_concrete_playback_c03_signextend_882635901886363872() {
    let concrete_vals: Vec<Vec<u8>> = vec![
        // 1728819306956853336ul
        vec![88, 16, 0, 0, 0, 0, 254, 23],
        // 0ul
        vec![0, 0, 0, 0, 0, 0, 0, 0],
        // 0ul
        vec![0, 0, 0, 0, 0, 0, 0, 0],
        // 0ul
        vec![0, 0, 0, 0, 0, 0, 0, 0],
        // 18446744073709551615ul
        vec![255, 255, 255, 255, 255, 255, 255, 255],
        // 18446744073709551615ul
        vec![255, 255, 255, 255, 255, 255, 255, 255],
        // 18446744073709551615ul
        vec![255, 255, 255, 255, 255, 255, 255, 255],
        // 0ul
        vec![0, 0, 0, 0, 0, 0, 0, 0],
        // 18446744073709551615ul
        vec![255, 255, 255, 255, 255, 255, 255, 255],
        // 18446744073709551615ul
        vec![255, 255, 255, 255, 255, 255, 255, 255],
        // 18446744073709551615ul
        vec![255, 255, 255, 255, 255, 255, 255, 255],
        // 0ul
        vec![0, 0, 0, 0, 0, 0, 0, 0],
        // 32770ul
        vec![2, 128, 0, 0, 0, 0, 0, 0],
    ];
    kani::concrete_playback_run(concrete_vals, c03_signextend);
}
