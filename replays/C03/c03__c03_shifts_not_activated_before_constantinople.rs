// counterexample for harness c03::c03_shifts_not_activated_before_constantinople (property C03)
// failed checks: [{"id": "revm_interpreter::Stack::push.assertion.1", "description": "internal error: entered unreachable code: stringify! (self.data.capacity() == STACK_LIMIT)", "location": "../../repo/crates/interpreter/src/interpreter/stack.rs:204:9 in function revm_interpreter::Stack::push"}]
// native replay: native run panicked: panicked at /repo/crates/interpreter/src/interpreter/stack.rs:204:9: internal error: entered unreachable code: self.data.capacity() == STACK_LIMIT
// re-run: /verif/bin/check C03 --replay /verif/replays/C03/c03__c03_shifts_not_activated_before_constantinople.rs
// harness: c03::c03_shifts_not_activated_before_constantinople
#[test]
fn kani_concrete_playback_c03_shifts_not_activated_before_constantinople_7202788991285141000() {
    let concrete_vals: Vec<Vec<u8>> = vec![
        // 0
        vec![0],
        // 0ul
        vec![0, 0, 0, 0, 0, 0, 0, 0],
        // 0ul
        vec![0, 0, 0, 0, 0, 0, 0, 0],
        // 0ul
        vec![0, 0, 0, 0, 0, 0, 0, 0],
        // 0ul
        vec![0, 0, 0, 0, 0, 0, 0, 0],
        // 0ul
        vec![0, 0, 0, 0, 0, 0, 0, 0],
        // 0ul
        vec![0, 0, 0, 0, 0, 0, 0, 0],
        // 0ul
        vec![0, 0, 0, 0, 0, 0, 0, 0],
        // 0ul
        vec![0, 0, 0, 0, 0, 0, 0, 0],
        // 0ul
        vec![0, 0, 0, 0, 0, 0, 0, 0],
    ];
    kani::concrete_playback_run(concrete_vals, c03_shifts_not_activated_before_constantinople);
}
