// counterexample for harness c03::c03_division_by_zero (property C03)
// failed checks: [{"id": "c03::verify.assertion.12", "description": "\"result differs from the 256-bit reference\"", "location": "src/c03.rs:257:9 in function c03::verify"}]
// native replay: native run panicked: panicked at src/c03.rs:257:9: result differs from the 256-bit reference
// re-run: /verif/bin/check C03 --replay /verif/replays/C03/c03__c03_division_by_zero.rs
// harness: c03::c03_division_by_zero
#[test]
fn kani_concrete_playback_c03_division_by_zero_15583794829341045744() {
    let concrete_vals: Vec<Vec<u8>> = vec![
        // 18446744073709551615ul
        vec![255, 255, 255, 255, 255, 255, 255, 255],
        // 18446744073709551615ul
        vec![255, 255, 255, 255, 255, 255, 255, 255],
        // 18446744073709551615ul
        vec![255, 255, 255, 255, 255, 255, 255, 255],
        // 18446744073709551615ul
        vec![255, 255, 255, 255, 255, 255, 255, 255],
        // 18446744073709551615ul
        vec![255, 255, 255, 255, 255, 255, 255, 255],
        // 18446744073709551615ul
        vec![255, 255, 255, 255, 255, 255, 255, 255],
        // 18446744073709551615ul
        vec![255, 255, 255, 255, 255, 255, 255, 255],
        // 18446744073709551615ul
        vec![255, 255, 255, 255, 255, 255, 255, 255],
        // 1
        vec![1],
        // 18446744073709551615ul
        vec![255, 255, 255, 255, 255, 255, 255, 255],
    ];
    kani::concrete_playback_run(concrete_vals, c03_division_by_zero);
}

#[test]
fn kani_concrete_playback_c03_division_by_zero_12907673949704990798() {
    let concrete_vals: Vec<Vec<u8>> = vec![
        // 0ul
        vec![0, 0, 0, 0, 0, 0, 0, 0],
        // 0ul
        vec![0, 0, 0, 0, 0, 0, 0, 0],
        // 0ul
        vec![0, 0, 0, 0, 0, 0, 0, 0],
        // 0ul
        vec![0, 0, 0, 0, 0, 0, 0, 0],
        // 0ul
        vec![0, 0, 0, 0, 0, 0, 0, 0],
        // 0ul
        vec![0, 0, 0, 0, 0, 0, 0, 0],
        // 0ul
        vec![0, 0, 0, 0, 0, 0, 0, 0],
        // 0ul
        vec![0, 0, 0, 0, 0, 0, 0, 0],
        // 0
        vec![0],
        // 0ul
        vec![0, 0, 0, 0, 0, 0, 0, 0],
    ];
    kani::concrete_playback_run(concrete_vals, c03_division_by_zero);
}

#[test]
fn kani_concrete_playback_c03_division_by_zero_14039589039152843558() {
    let concrete_vals: Vec<Vec<u8>> = vec![
        // 0ul
        vec![0, 0, 0, 0, 0, 0, 0, 0],
        // 0ul
        vec![0, 0, 0, 0, 0, 0, 0, 0],
        // 0ul
        vec![0, 0, 0, 0, 0, 0, 0, 0],
        // 0ul
        vec![0, 0, 0, 0, 0, 0, 0, 0],
        // 18446744073709551615ul
        vec![255, 255, 255, 255, 255, 255, 255, 255],
        // 18446744073709551615ul
        vec![255, 255, 255, 255, 255, 255, 255, 255],
        // 18446744073709551615ul
        vec![255, 255, 255, 255, 255, 255, 255, 255],
        // 18446744073709551615ul
        vec![255, 255, 255, 255, 255, 255, 255, 255],
        // 1
        vec![1],
        // 5ul
        vec![5, 0, 0, 0, 0, 0, 0, 0],
    ];
    kani::concrete_playback_run(concrete_vals, c03_division_by_zero);
}

#[test]
fn kani_concrete_playback_c03_division_by_zero_8951021919649826880() {
    let concrete_vals: Vec<Vec<u8>> = vec![
        // 9187201950435737599ul
        vec![255, 127, 127, 127, 127, 127, 127, 127],
        // 9187201950435737471ul
        vec![127, 127, 127, 127, 127, 127, 127, 127],
        // 9187201950435737471ul
        vec![127, 127, 127, 127, 127, 127, 127, 127],
        // 18410573987290513279ul
        vec![127, 127, 127, 127, 127, 127, 127, 255],
        // 18446744073709551615ul
        vec![255, 255, 255, 255, 255, 255, 255, 255],
        // 18446744073709551615ul
        vec![255, 255, 255, 255, 255, 255, 255, 255],
        // 18446744073709551615ul
        vec![255, 255, 255, 255, 255, 255, 255, 255],
        // 18446744073709551615ul
        vec![255, 255, 255, 255, 255, 255, 255, 255],
        // 3
        vec![3],
        // 18446744073709551615ul
        vec![255, 255, 255, 255, 255, 255, 255, 255],
    ];
    kani::concrete_playback_run(concrete_vals, c03_division_by_zero);
}
