// counterexample for harness c13::c13_sequence_4 (property C13)
// failed checks: [{"id": "c13::step.assertion.9", "description": "assertion failed: agrees(g, m)", "location": "src/c13.rs:215:5 in function c13::step"}]
// native replay: native run panicked: panicked at src/c13.rs:215:5: assertion failed: agrees(g, m)
// re-run: /verif/bin/check C13 --replay /verif/replays/C13/c13__c13_sequence_4.rs
// harness: c13::c13_sequence_4
#[test]
fn kani_concrete_playback_c13_sequence_4_114661160665629302() {
    let concrete_vals: Vec<Vec<u8>> = vec![
        // 4093819005272326130ul
        vec![242, 255, 255, 255, 177, 42, 208, 56],
        // 2
        vec![2],
        // 2ul
        vec![2, 0, 0, 0, 0, 0, 0, 0],
        // -9223372036854775801
        vec![7, 0, 0, 0, 0, 0, 0, 128],
        // 1
        vec![1],
        // 0
        vec![0],
        // 18446650995268141046ul
        vec![246, 63, 144, 124, 88, 171, 255, 255],
        // 2035517080408686591
        vec![255, 255, 255, 255, 255, 155, 63, 28],
        // 0
        vec![0],
    ];
    kani::concrete_playback_run(concrete_vals, c13_sequence_4);
}
