// counterexample for harness c13::c13_sequence_4 (property C13)
// failed checks: [{"id": "c13::step.assertion.9", "description": "assertion failed: agrees(g, m)", "location": "src/c13.rs:215:5 in function c13::step"}]
// native replay: native run of the counterexample passed (does not reproduce)
// re-run: /verif/bin/check C13 --replay /verif/replays/C13/c13__c13_sequence_4.rs
// harness: c13::c13_sequence_4
#[test]
fn kani_concrete_playback_c13_sequence_4_4032423633260483971() {
    let concrete_vals: Vec<Vec<u8>> = vec![
        // 68585242623ul
        vec![255, 191, 255, 247, 15, 0, 0, 0],
        // 1
        vec![1],
        // 0ul
        vec![0, 0, 0, 0, 0, 0, 0, 0],
        // -9223372036854775808
        vec![0, 0, 0, 0, 0, 0, 0, 128],
        // 0
        vec![0],
        // 2
        vec![2],
        // 68585242623ul
        vec![255, 191, 255, 247, 15, 0, 0, 0],
        // -1
        vec![255, 255, 255, 255, 255, 255, 255, 255],
        // 1
        vec![1],
        // 0
        vec![0],
        // 137371844607ul
        vec![255, 255, 255, 251, 31, 0, 0, 0],
        // -1
        vec![255, 255, 255, 255, 255, 255, 255, 255],
        // 1
        vec![1],
        // 3
        vec![3],
        // 68585259007ul
        vec![255, 255, 255, 247, 15, 0, 0, 0],
        // -1
        vec![255, 255, 255, 255, 255, 255, 255, 255],
        // 1
        vec![1],
    ];
    kani::concrete_playback_run(concrete_vals, c13_sequence_4);
}
