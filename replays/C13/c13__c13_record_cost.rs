// counterexample for harness c13::c13_record_cost (property C13)
// failed checks: [{"id": "c13::c13_record_cost.assertion.8", "description": "assertion failed: same(&g, &pre)", "location": "src/c13.rs:61:9 in function c13::c13_record_cost"}]
// native replay: native run panicked: panicked at src/c13.rs:61:9: assertion failed: same(&g, &pre)
// re-run: /verif/bin/check C13 --replay /verif/replays/C13/c13__c13_record_cost.rs
// harness: c13::c13_record_cost
#[test]
fn kani_concrete_playback_c13_record_cost_1134598736195055762() {
    let concrete_vals: Vec<Vec<u8>> = vec![
        // 1
        vec![1],
        // 18446744073709551614ul
        vec![254, 255, 255, 255, 255, 255, 255, 255],
        // 9223372036854775810ul
        vec![2, 0, 0, 0, 0, 0, 0, 128],
        // -1
        vec![255, 255, 255, 255, 255, 255, 255, 255],
        // 9223372036854775806ul
        vec![254, 255, 255, 255, 255, 255, 255, 127],
    ];
    kani::concrete_playback_run(concrete_vals, c13_record_cost);
}
