// counterexample for harness c13::c13_set_final_refund (property C13)
// failed checks: [{"id": "c13::c13_set_final_refund.assertion.3", "description": "assertion failed: g.refunded() as u64 == want", "location": "src/c13.rs:133:5 in function c13::c13_set_final_refund"}]
// native replay: native run panicked: panicked at src/c13.rs:133:5: assertion failed: g.refunded() as u64 == want
// re-run: /verif/bin/check C13 --replay /verif/replays/C13/c13__c13_set_final_refund.rs
// harness: c13::c13_set_final_refund
#[test]
fn kani_concrete_playback_c13_set_final_refund_4097904515645538492() {
    let concrete_vals: Vec<Vec<u8>> = vec![
        // 14771806777775485976ul
        vec![24, 244, 3, 0, 0, 0, 0, 205],
        // 777777ul
        vec![49, 222, 11, 0, 0, 0, 0, 0],
        // 6481988724798249914
        vec![186, 219, 175, 243, 102, 166, 244, 89],
        // 1
        vec![1],
    ];
    kani::concrete_playback_run(concrete_vals, c13_set_final_refund);
}
