// counterexample for harness c13::c13_set_final_refund (property C13)
// failed checks: [{"id": "c13::c13_set_final_refund.assertion.2", "description": "assertion failed: g.refunded() >= 0", "location": "src/c13.rs:132:5 in function c13::c13_set_final_refund"}, {"id": "c13::c13_set_final_refund.assertion.3", "description": "assertion failed: g.refunded() as u64 == want", "location": "src/c13.rs:133:5 in function c13::c13_set_final_refund"}]
// native replay: native run panicked: panicked at src/c13.rs:132:5: assertion failed: g.refunded() >= 0
// re-run: /verif/bin/check C13 --replay /verif/replays/C13/c13__c13_set_final_refund.rs
// harness: c13::c13_set_final_refund
#[test]
fn kani_concrete_playback_c13_set_final_refund_599362020148938233() {
    let concrete_vals: Vec<Vec<u8>> = vec![
        // 18446744073709551614ul
        vec![254, 255, 255, 255, 255, 255, 255, 255],
        // 18446744073709551614ul
        vec![254, 255, 255, 255, 255, 255, 255, 255],
        // 9223372036854775807
        vec![255, 255, 255, 255, 255, 255, 255, 127],
        // 0
        vec![0],
    ];
    kani::concrete_playback_run(concrete_vals, c13_set_final_refund);
}
