// counterexample for harness c09::c09_refund_cap (property C09)
// failed checks: [{"id": "c09::c09_refund_cap.assertion.6", "description": "\"final refund is not min(recorded, spent/5 | spent/2)\"", "location": "src/c09.rs:103:5 in function c09::c09_refund_cap"}, {"id": "revm_interpreter::Gas::set_final_refund.assertion.2", "description": "attempt to multiply with overflow", "location": "../../repo/crates/interpreter/src/gas.rs:117:27 in function revm_interpreter::Gas::set_final_refund"}]
// native replay: native run panicked: panicked at src/c09.rs:103:5: final refund is not min(recorded, spent/5 | spent/2)
// re-run: /verif/bin/check C09 --replay /verif/replays/C09/c09__c09_refund_cap.rs
// harness: c09::c09_refund_cap
#[test]
fn kani_concrete_playback_c09_refund_cap_12958527404770515769() {
    let concrete_vals: Vec<Vec<u8>> = vec![
        // 5548434740920451071ul
        vec![255, 255, 255, 255, 255, 255, 255, 76],
        // 261208778387488767ul
        vec![255, 255, 255, 255, 255, 255, 159, 3],
        // 396316767208604320
        vec![160, 2, 0, 0, 0, 0, 128, 5],
        // 22517998136853022
        vec![30, 2, 0, 0, 0, 0, 80, 0],
        // 0
        vec![0],
    ];
    kani::concrete_playback_run(concrete_vals, c09_refund_cap);
}

#[test]
fn kani_concrete_playback_c09_refund_cap_7738538419411246510() {
    let concrete_vals: Vec<Vec<u8>> = vec![
        // 4352246113983528980ul
        vec![20, 0, 16, 15, 200, 72, 102, 60],
        // 3049922419823509560ul
        vec![56, 128, 20, 26, 72, 128, 83, 42],
        // 76423095414406214
        vec![70, 188, 207, 126, 102, 130, 15, 1],
        // 659693782116510240
        vec![32, 170, 150, 231, 255, 179, 39, 9],
        // 1
        vec![1],
    ];
    kani::concrete_playback_run(concrete_vals, c09_refund_cap);
}

#[test]
fn kani_concrete_playback_c09_refund_cap_14810150923496137581() {
    let concrete_vals: Vec<Vec<u8>> = vec![
        // 8855320380724395790ul
        vec![14, 191, 90, 1, 248, 106, 228, 122],
        // 354684927655657152ul
        vec![192, 190, 25, 0, 16, 24, 236, 4],
        // 864691128455135231
        vec![255, 255, 255, 255, 255, 255, 255, 11],
        // 288230376151711743
        vec![255, 255, 255, 255, 255, 255, 255, 3],
        // 0
        vec![0],
    ];
    kani::concrete_playback_run(concrete_vals, c09_refund_cap);
}

#[test]
fn kani_concrete_playback_c09_refund_cap_15096927624056567569() {
    let concrete_vals: Vec<Vec<u8>> = vec![
        // 12132758342259053050ul
        vec![250, 17, 2, 32, 110, 55, 96, 168],
        // 45128399075037408ul
        vec![224, 80, 38, 52, 10, 84, 160, 0],
        // 4401502625024
        vec![0, 29, 0, 206, 0, 4, 0, 0],
        // 44066603023360
        vec![0, 60, 56, 14, 20, 40, 0, 0],
        // 1
        vec![1],
    ];
    kani::concrete_playback_run(concrete_vals, c09_refund_cap);
}

#[test]
fn kani_concrete_playback_c09_refund_cap_16000504008932176062() {
    let concrete_vals: Vec<Vec<u8>> = vec![
        // 15128416923733016648ul
        vec![72, 64, 29, 209, 9, 239, 242, 209],
        // 9110782046170513408ul
        vec![0, 0, 0, 0, 0, 0, 112, 126],
        // 612927885039543364
        vec![68, 164, 182, 252, 169, 142, 129, 8],
        // 160380585002857520
        vec![48, 244, 246, 213, 74, 201, 57, 2],
        // 1
        vec![1],
    ];
    kani::concrete_playback_run(concrete_vals, c09_refund_cap);
}
