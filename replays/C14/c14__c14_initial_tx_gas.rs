// counterexample for harness c14::c14_initial_tx_gas (property C14)
// failed checks: [{"id": "c14::c14_initial_tx_gas.assertion.26", "description": "\"EIP-7623 floor differs from 21000 + 10*tokens (Prague+, calls and creates alike), 0 before\"", "location": "src/c14.rs:430:5 in function c14::c14_initial_tx_gas"}]
// native replay: native run panicked: panicked at src/c14.rs:430:5: EIP-7623 floor differs from 21000 + 10*tokens (Prague+, calls and creates alike), 0 before
// re-run: /verif/bin/check C14 --replay /verif/replays/C14/c14__c14_initial_tx_gas.rs
// harness: c14::c14_initial_tx_gas
#[test]
fn kani_concrete_playback_c14_initial_tx_gas_18011603274916348313() {
    let concrete_vals: Vec<Vec<u8>> = vec![
        // 19
        vec![19],
        // 1
        vec![1],
        // 1
        vec![1],
        // 1
        vec![1],
        // 0
        vec![0],
        // 0
        vec![0],
        // 1
        vec![1],
        // 0
        vec![0],
        // 0
        vec![0],
        // 3ul
        vec![3, 0, 0, 0, 0, 0, 0, 0],
        // 1
        vec![1],
        // 1ul
        vec![1, 0, 0, 0, 0, 0, 0, 0],
        // 1ul
        vec![1, 0, 0, 0, 0, 0, 0, 0],
        // 0ul
        vec![0, 0, 0, 0, 0, 0, 0, 0],
        // 3415670721ul
        vec![193, 255, 150, 203, 0, 0, 0, 0],
    ];
    kani::concrete_playback_run(concrete_vals, c14_initial_tx_gas);
}

#[test]
fn kani_concrete_playback_c14_initial_tx_gas_12080009718909048271() {
    let concrete_vals: Vec<Vec<u8>> = vec![
        // 11
        vec![11],
        // 1
        vec![1],
        // 0
        vec![0],
        // 1
        vec![1],
        // 1
        vec![1],
        // 1
        vec![1],
        // 1
        vec![1],
        // 1
        vec![1],
        // 1
        vec![1],
        // 2ul
        vec![2, 0, 0, 0, 0, 0, 0, 0],
        // 0
        vec![0],
        // 2ul
        vec![2, 0, 0, 0, 0, 0, 0, 0],
        // 2ul
        vec![2, 0, 0, 0, 0, 0, 0, 0],
        // 1ul
        vec![1, 0, 0, 0, 0, 0, 0, 0],
        // 0ul
        vec![0, 0, 0, 0, 0, 0, 0, 0],
    ];
    kani::concrete_playback_run(concrete_vals, c14_initial_tx_gas);
}

#[test]
fn kani_concrete_playback_c14_initial_tx_gas_7402915137279676666() {
    let concrete_vals: Vec<Vec<u8>> = vec![
        // 1
        vec![1],
        // 1
        vec![1],
        // 0
        vec![0],
        // 1
        vec![1],
        // 1
        vec![1],
        // 1
        vec![1],
        // 0
        vec![0],
        // 0
        vec![0],
        // 0
        vec![0],
        // 1ul
        vec![1, 0, 0, 0, 0, 0, 0, 0],
        // 1
        vec![1],
        // 1ul
        vec![1, 0, 0, 0, 0, 0, 0, 0],
        // 1ul
        vec![1, 0, 0, 0, 0, 0, 0, 0],
        // 2ul
        vec![2, 0, 0, 0, 0, 0, 0, 0],
        // 16777211ul
        vec![251, 255, 255, 0, 0, 0, 0, 0],
    ];
    kani::concrete_playback_run(concrete_vals, c14_initial_tx_gas);
}

#[test]
fn kani_concrete_playback_c14_initial_tx_gas_7614102412968526289() {
    let concrete_vals: Vec<Vec<u8>> = vec![
        // 17
        vec![17],
        // 0
        vec![0],
        // 1
        vec![1],
        // 1
        vec![1],
        // 0
        vec![0],
        // 0
        vec![0],
        // 0
        vec![0],
        // 0
        vec![0],
        // 0
        vec![0],
        // 7ul
        vec![7, 0, 0, 0, 0, 0, 0, 0],
        // 1
        vec![1],
        // 2ul
        vec![2, 0, 0, 0, 0, 0, 0, 0],
        // 1ul
        vec![1, 0, 0, 0, 0, 0, 0, 0],
        // 2ul
        vec![2, 0, 0, 0, 0, 0, 0, 0],
        // 3046ul
        vec![230, 11, 0, 0, 0, 0, 0, 0],
    ];
    kani::concrete_playback_run(concrete_vals, c14_initial_tx_gas);
}
