// counterexample for harness c14::c14_memory_gas (property C14)
// failed checks: [{"id": "c14::c14_memory_gas.assertion.5", "description": "\"memory_gas != 3*w + w*w/512 although the exact value fits in u64\"", "location": "src/c14.rs:111:9 in function c14::c14_memory_gas"}, {"id": "c14::c14_memory_gas.assertion.6", "description": "\"memory_gas returns a payable amount although the exact cost exceeds 2^64\"", "location": "src/c14.rs:114:9 in function c14::c14_memory_gas"}]
// native replay: native run panicked: panicked at src/c14.rs:111:9: memory_gas != 3*w + w*w/512 although the exact value fits in u64
// re-run: /verif/bin/check C14 --replay /verif/replays/C14/c14__c14_memory_gas.rs
// harness: c14::c14_memory_gas
#[test]
fn kani_concrete_playback_c14_memory_gas_6408777838076159645() {
    let concrete_vals: Vec<Vec<u8>> = vec![
        // 4294967296ul
        vec![0, 0, 0, 0, 1, 0, 0, 0],
    ];
    kani::concrete_playback_run(concrete_vals, c14_memory_gas);
}
