// counterexample for harness c14::c14_memory_gas_for_len (property C14)
// failed checks: [{"id": "c14::c14_memory_gas_for_len.assertion.6", "description": "\"memory_gas_for_len\"", "location": "src/c14.rs:127:5 in function c14::c14_memory_gas_for_len"}]
// native replay: native run panicked: panicked at src/c14.rs:127:5: memory_gas_for_len
// re-run: /verif/bin/check C14 --replay /verif/replays/C14/c14__c14_memory_gas_for_len.rs
// harness: c14::c14_memory_gas_for_len
#[test]
fn kani_concrete_playback_c14_memory_gas_for_len_2377279708335800769() {
    let concrete_vals: Vec<Vec<u8>> = vec![
        // 2199023255551ul
        vec![255, 255, 255, 255, 255, 1, 0, 0],
    ];
    kani::concrete_playback_run(concrete_vals, c14_memory_gas_for_len);
}
