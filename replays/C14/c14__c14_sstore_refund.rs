// counterexample for harness c14::c14_sstore_refund (property C14)
// failed checks: [{"id": "c14::c14_sstore_refund.assertion.1", "description": "\"sstore_refund differs from EIP-2200/2929/3529\"", "location": "src/c14.rs:263:5 in function c14::c14_sstore_refund"}]
// native replay: native run panicked: panicked at src/c14.rs:263:5: sstore_refund differs from EIP-2200/2929/3529
// re-run: /verif/bin/check C14 --replay /verif/replays/C14/c14__c14_sstore_refund.rs
// harness: c14::c14_sstore_refund
#[test]
fn kani_concrete_playback_c14_sstore_refund_12852563471602225840() {
    let concrete_vals: Vec<Vec<u8>> = vec![
        // 10
        vec![10],
        // 9228087292889735553ul
        vec![129, 33, 253, 24, 128, 192, 16, 128],
        // 3618783175805249597ul
        vec![61, 40, 8, 17, 32, 128, 56, 50],
        // 9480394511281856705ul
        vec![193, 160, 132, 39, 148, 32, 145, 131],
        // 306245294347919786ul
        vec![170, 33, 190, 255, 120, 0, 64, 4],
        // 9300427469183966974ul
        vec![254, 222, 254, 231, 129, 193, 17, 129],
        // 3674937437674547456ul
        vec![0, 41, 96, 0, 33, 0, 0, 51],
        // 17582089229826105600ul
        vec![0, 161, 1, 41, 0, 33, 0, 244],
        // 18140498779361763072ul
        vec![0, 223, 67, 0, 135, 255, 191, 251],
        // 9228087292889735553ul
        vec![129, 33, 253, 24, 128, 192, 16, 128],
        // 3618783175805249597ul
        vec![61, 40, 8, 17, 32, 128, 56, 50],
        // 9480394511281856705ul
        vec![193, 160, 132, 39, 148, 32, 145, 131],
        // 306245294347919786ul
        vec![170, 33, 190, 255, 120, 0, 64, 4],
    ];
    kani::concrete_playback_run(concrete_vals, c14_sstore_refund);
}

#[test]
fn kani_concrete_playback_c14_sstore_refund_16144260304467109456() {
    let concrete_vals: Vec<Vec<u8>> = vec![
        // 11
        vec![11],
        // 0ul
        vec![0, 0, 0, 0, 0, 0, 0, 0],
        // 0ul
        vec![0, 0, 0, 0, 0, 0, 0, 0],
        // 0ul
        vec![0, 0, 0, 0, 0, 0, 0, 0],
        // 0ul
        vec![0, 0, 0, 0, 0, 0, 0, 0],
        // 72057594021150720ul
        vec![0, 0, 0, 255, 255, 255, 255, 0],
        // 0ul
        vec![0, 0, 0, 0, 0, 0, 0, 0],
        // 0ul
        vec![0, 0, 0, 0, 0, 0, 0, 0],
        // 15996785876420001792ul
        vec![0, 0, 0, 0, 0, 0, 0, 222],
        // 0ul
        vec![0, 0, 0, 0, 0, 0, 0, 0],
        // 0ul
        vec![0, 0, 0, 0, 0, 0, 0, 0],
        // 0ul
        vec![0, 0, 0, 0, 0, 0, 0, 0],
        // 0ul
        vec![0, 0, 0, 0, 0, 0, 0, 0],
    ];
    kani::concrete_playback_run(concrete_vals, c14_sstore_refund);
}

#[test]
fn kani_concrete_playback_c14_sstore_refund_15397693987002170272() {
    let concrete_vals: Vec<Vec<u8>> = vec![
        // 12
        vec![12],
        // 256ul
        vec![0, 1, 0, 0, 0, 0, 0, 0],
        // 448ul
        vec![192, 1, 0, 0, 0, 0, 0, 0],
        // 0ul
        vec![0, 0, 0, 0, 0, 0, 0, 0],
        // 0ul
        vec![0, 0, 0, 0, 0, 0, 0, 0],
        // 0ul
        vec![0, 0, 0, 0, 0, 0, 0, 0],
        // 0ul
        vec![0, 0, 0, 0, 0, 0, 0, 0],
        // 0ul
        vec![0, 0, 0, 0, 0, 0, 0, 0],
        // 0ul
        vec![0, 0, 0, 0, 0, 0, 0, 0],
        // 64832ul
        vec![64, 253, 0, 0, 0, 0, 0, 0],
        // 448ul
        vec![192, 1, 0, 0, 0, 0, 0, 0],
        // 0ul
        vec![0, 0, 0, 0, 0, 0, 0, 0],
        // 0ul
        vec![0, 0, 0, 0, 0, 0, 0, 0],
    ];
    kani::concrete_playback_run(concrete_vals, c14_sstore_refund);
}

#[test]
fn kani_concrete_playback_c14_sstore_refund_6485125029836351162() {
    let concrete_vals: Vec<Vec<u8>> = vec![
        // 12
        vec![12],
        // 1ul
        vec![1, 0, 0, 0, 0, 0, 0, 0],
        // 0ul
        vec![0, 0, 0, 0, 0, 0, 0, 0],
        // 0ul
        vec![0, 0, 0, 0, 0, 0, 0, 0],
        // 0ul
        vec![0, 0, 0, 0, 0, 0, 0, 0],
        // 0ul
        vec![0, 0, 0, 0, 0, 0, 0, 0],
        // 0ul
        vec![0, 0, 0, 0, 0, 0, 0, 0],
        // 0ul
        vec![0, 0, 0, 0, 0, 0, 0, 0],
        // 0ul
        vec![0, 0, 0, 0, 0, 0, 0, 0],
        // 1ul
        vec![1, 0, 0, 0, 0, 0, 0, 0],
        // 0ul
        vec![0, 0, 0, 0, 0, 0, 0, 0],
        // 0ul
        vec![0, 0, 0, 0, 0, 0, 0, 0],
        // 0ul
        vec![0, 0, 0, 0, 0, 0, 0, 0],
    ];
    kani::concrete_playback_run(concrete_vals, c14_sstore_refund);
}
