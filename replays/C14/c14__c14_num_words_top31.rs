// counterexample for harness c14::c14_num_words_top31 (property C14)
// failed checks: [{"id": "c14::c14_num_words_top31.assertion.2", "description": "\"num_words differs from ceil(len/32) for len > 2^64-32\"", "location": "src/c14.rs:55:5 in function c14::c14_num_words_top31"}]
// native replay: native run panicked: panicked at src/c14.rs:55:5: num_words differs from ceil(len/32) for len > 2^64-32
// re-run: /verif/bin/check C14 --replay /verif/replays/C14/c14__c14_num_words_top31.rs
// harness: c14::c14_num_words_top31
#[test]
fn kani_concrete_playback_c14_num_words_top31_9519907798327332391() {
    let concrete_vals: Vec<Vec<u8>> = vec![
        // 18446744073709551615ul
        vec![255, 255, 255, 255, 255, 255, 255, 255],
    ];
    kani::concrete_playback_run(concrete_vals, c14_num_words_top31);
}
