// counterexample for harness c04::c04_jump_2 (property C04)
// failed checks: [{"id": "c04::body_jump::<2>.assertion.9", "description": "\"jump onto a valid JUMPDEST was rejected\"", "location": "src/c04.rs:96:9 in function c04::body_jump::<2>"}]
// native replay: native run panicked: panicked at src/c04.rs:96:9: jump onto a valid JUMPDEST was rejected
// re-run: /verif/bin/check C04 --replay /verif/replays/C04/c04__c04_jump_2.rs
// harness: c04::c04_jump_2
#[test]
fn kani_concrete_playback_c04_jump_2_1254391698057251999() {
    let concrete_vals: Vec<Vec<u8>> = vec![
        // 226
        vec![226],
        // 91
        vec![91],
        // 1ul
        vec![1, 0, 0, 0, 0, 0, 0, 0],
        // 0ul
        vec![0, 0, 0, 0, 0, 0, 0, 0],
        // 0ul
        vec![0, 0, 0, 0, 0, 0, 0, 0],
        // 0ul
        vec![0, 0, 0, 0, 0, 0, 0, 0],
        // 0ul
        vec![0, 0, 0, 0, 0, 0, 0, 0],
        // 0ul
        vec![0, 0, 0, 0, 0, 0, 0, 0],
        // 0ul
        vec![0, 0, 0, 0, 0, 0, 0, 0],
        // 8589934600ul
        vec![8, 0, 0, 0, 2, 0, 0, 0],
        // 1
        vec![1],
        // 9223372036854775811ul
        vec![3, 0, 0, 0, 0, 0, 0, 128],
    ];
    kani::concrete_playback_run(concrete_vals, c04_jump_2);
}

#[test]
fn kani_concrete_playback_c04_jump_2_13957141770591542238() {
    let concrete_vals: Vec<Vec<u8>> = vec![
        // 91
        vec![91],
        // 97
        vec![97],
        // 0ul
        vec![0, 0, 0, 0, 0, 0, 0, 0],
        // 0ul
        vec![0, 0, 0, 0, 0, 0, 0, 0],
        // 0ul
        vec![0, 0, 0, 0, 0, 0, 0, 0],
        // 0ul
        vec![0, 0, 0, 0, 0, 0, 0, 0],
        // 8ul
        vec![8, 0, 0, 0, 0, 0, 0, 0],
        // 0ul
        vec![0, 0, 0, 0, 0, 0, 0, 0],
        // 0ul
        vec![0, 0, 0, 0, 0, 0, 0, 0],
        // 0ul
        vec![0, 0, 0, 0, 0, 0, 0, 0],
        // 1
        vec![1],
        // 9223372036854775811ul
        vec![3, 0, 0, 0, 0, 0, 0, 128],
    ];
    kani::concrete_playback_run(concrete_vals, c04_jump_2);
}

#[test]
fn kani_concrete_playback_c04_jump_2_2135263681102995763() {
    let concrete_vals: Vec<Vec<u8>> = vec![
        // 204
        vec![204],
        // 107
        vec![107],
        // 1ul
        vec![1, 0, 0, 0, 0, 0, 0, 0],
        // 0ul
        vec![0, 0, 0, 0, 0, 0, 0, 0],
        // 0ul
        vec![0, 0, 0, 0, 0, 0, 0, 0],
        // 0ul
        vec![0, 0, 0, 0, 0, 0, 0, 0],
        // 4095ul
        vec![255, 15, 0, 0, 0, 0, 0, 0],
        // 4095ul
        vec![255, 15, 0, 0, 0, 0, 0, 0],
        // 4095ul
        vec![255, 15, 0, 0, 0, 0, 0, 0],
        // 4095ul
        vec![255, 15, 0, 0, 0, 0, 0, 0],
        // 0
        vec![0],
        // 9223372036854775811ul
        vec![3, 0, 0, 0, 0, 0, 0, 128],
    ];
    kani::concrete_playback_run(concrete_vals, c04_jump_2);
}

#[test]
fn kani_concrete_playback_c04_jump_2_2136036085599229069() {
    let concrete_vals: Vec<Vec<u8>> = vec![
        // 91
        vec![91],
        // 91
        vec![91],
        // 0ul
        vec![0, 0, 0, 0, 0, 0, 0, 0],
        // 18446744073709551615ul
        vec![255, 255, 255, 255, 255, 255, 255, 255],
        // 18446744073709551615ul
        vec![255, 255, 255, 255, 255, 255, 255, 255],
        // 18446744073709551615ul
        vec![255, 255, 255, 255, 255, 255, 255, 255],
        // 18446744073709551615ul
        vec![255, 255, 255, 255, 255, 255, 255, 255],
        // 18446744073709551615ul
        vec![255, 255, 255, 255, 255, 255, 255, 255],
        // 18446744073709551615ul
        vec![255, 255, 255, 255, 255, 255, 255, 255],
        // 18446744073709551615ul
        vec![255, 255, 255, 255, 255, 255, 255, 255],
        // 1
        vec![1],
        // 18446744073709551615ul
        vec![255, 255, 255, 255, 255, 255, 255, 255],
    ];
    kani::concrete_playback_run(concrete_vals, c04_jump_2);
}

#[test]
fn kani_concrete_playback_c04_jump_2_5920866387233980470() {
    let concrete_vals: Vec<Vec<u8>> = vec![
        // 62
        vec![62],
        // 4
        vec![4],
        // 1125899906842625ul
        vec![1, 0, 0, 0, 0, 0, 4, 0],
        // 0ul
        vec![0, 0, 0, 0, 0, 0, 0, 0],
        // 0ul
        vec![0, 0, 0, 0, 0, 0, 0, 0],
        // 0ul
        vec![0, 0, 0, 0, 0, 0, 0, 0],
        // 0ul
        vec![0, 0, 0, 0, 0, 0, 0, 0],
        // 0ul
        vec![0, 0, 0, 0, 0, 0, 0, 0],
        // 0ul
        vec![0, 0, 0, 0, 0, 0, 0, 0],
        // 0ul
        vec![0, 0, 0, 0, 0, 0, 0, 0],
        // 1
        vec![1],
        // 9223372036854775811ul
        vec![3, 0, 0, 0, 0, 0, 0, 128],
    ];
    kani::concrete_playback_run(concrete_vals, c04_jump_2);
}
