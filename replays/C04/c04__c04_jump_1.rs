// counterexample for harness c04::c04_jump_1 (property C04)
// failed checks: [{"id": "c04::body_jump::<1>.assertion.11", "description": "\"jump to an invalid destination was accepted\"", "location": "src/c04.rs:99:9 in function c04::body_jump::<1>"}]
// native replay: native run panicked: panicked at src/c04.rs:99:9: jump to an invalid destination was accepted
// re-run: /verif/bin/check C04 --replay /verif/replays/C04/c04__c04_jump_1.rs
// harness: c04::c04_jump_1
#[test]
fn kani_concrete_playback_c04_jump_1_2554200707683381450() {
    let concrete_vals: Vec<Vec<u8>> = vec![
        // 91
        vec![91],
        // 0ul
        vec![0, 0, 0, 0, 0, 0, 0, 0],
        // 0ul
        vec![0, 0, 0, 0, 0, 0, 0, 0],
        // 0ul
        vec![0, 0, 0, 0, 0, 0, 0, 0],
        // 1ul
        vec![1, 0, 0, 0, 0, 0, 0, 0],
        // 16ul
        vec![16, 0, 0, 0, 0, 0, 0, 0],
        // 0ul
        vec![0, 0, 0, 0, 0, 0, 0, 0],
        // 0ul
        vec![0, 0, 0, 0, 0, 0, 0, 0],
        // 0ul
        vec![0, 0, 0, 0, 0, 0, 0, 0],
        // 1
        vec![1],
        // 9223372036854775811ul
        vec![3, 0, 0, 0, 0, 0, 0, 128],
    ];
    kani::concrete_playback_run(concrete_vals, c04_jump_1);
}

#[test]
fn kani_concrete_playback_c04_jump_1_14686393529529512489() {
    let concrete_vals: Vec<Vec<u8>> = vec![
        // 91
        vec![91],
        // 0ul
        vec![0, 0, 0, 0, 0, 0, 0, 0],
        // 0ul
        vec![0, 0, 0, 0, 0, 0, 0, 0],
        // 0ul
        vec![0, 0, 0, 0, 0, 0, 0, 0],
        // 0ul
        vec![0, 0, 0, 0, 0, 0, 0, 0],
        // 18446744073709551615ul
        vec![255, 255, 255, 255, 255, 255, 255, 255],
        // 18446744073709551615ul
        vec![255, 255, 255, 255, 255, 255, 255, 255],
        // 18446744073709551615ul
        vec![255, 255, 255, 255, 255, 255, 255, 255],
        // 18446744073709551615ul
        vec![255, 255, 255, 255, 255, 255, 255, 255],
        // 1
        vec![1],
        // 18446744073709551615ul
        vec![255, 255, 255, 255, 255, 255, 255, 255],
    ];
    kani::concrete_playback_run(concrete_vals, c04_jump_1);
}

#[test]
fn kani_concrete_playback_c04_jump_1_6143768758855919537() {
    let concrete_vals: Vec<Vec<u8>> = vec![
        // 97
        vec![97],
        // 0ul
        vec![0, 0, 0, 0, 0, 0, 0, 0],
        // 0ul
        vec![0, 0, 0, 0, 0, 0, 0, 0],
        // 0ul
        vec![0, 0, 0, 0, 0, 0, 0, 0],
        // 0ul
        vec![0, 0, 0, 0, 0, 0, 0, 0],
        // 65536ul
        vec![0, 0, 1, 0, 0, 0, 0, 0],
        // 216172782113783808ul
        vec![0, 0, 0, 0, 0, 0, 0, 3],
        // 9439544819086000128ul
        vec![0, 0, 0, 7, 0, 0, 0, 131],
        // 18446744073709547523ul
        vec![3, 240, 255, 255, 255, 255, 255, 255],
        // 1
        vec![1],
        // 9223372036854775811ul
        vec![3, 0, 0, 0, 0, 0, 0, 128],
    ];
    kani::concrete_playback_run(concrete_vals, c04_jump_1);
}

#[test]
fn kani_concrete_playback_c04_jump_1_16899192219024565761() {
    let concrete_vals: Vec<Vec<u8>> = vec![
        // 97
        vec![97],
        // 33ul
        vec![33, 0, 0, 0, 0, 0, 0, 0],
        // 0ul
        vec![0, 0, 0, 0, 0, 0, 0, 0],
        // 0ul
        vec![0, 0, 0, 0, 0, 0, 0, 0],
        // 18446744073709547523ul
        vec![3, 240, 255, 255, 255, 255, 255, 255],
        // 65536ul
        vec![0, 0, 1, 0, 0, 0, 0, 0],
        // 216172782113783808ul
        vec![0, 0, 0, 0, 0, 0, 0, 3],
        // 9439544819086000128ul
        vec![0, 0, 0, 7, 0, 0, 0, 131],
        // 18446744073709547523ul
        vec![3, 240, 255, 255, 255, 255, 255, 255],
        // 1
        vec![1],
        // 9223372036854775811ul
        vec![3, 0, 0, 0, 0, 0, 0, 128],
    ];
    kani::concrete_playback_run(concrete_vals, c04_jump_1);
}

#[test]
fn kani_concrete_playback_c04_jump_1_2321105962209132434() {
    let concrete_vals: Vec<Vec<u8>> = vec![
        // 0
        vec![0],
        // 4611686018427387904ul
        vec![0, 0, 0, 0, 0, 0, 0, 64],
        // 0ul
        vec![0, 0, 0, 0, 0, 0, 0, 0],
        // 9223372036854775808ul
        vec![0, 0, 0, 0, 0, 0, 0, 128],
        // 0ul
        vec![0, 0, 0, 0, 0, 0, 0, 0],
        // 0ul
        vec![0, 0, 0, 0, 0, 0, 0, 0],
        // 0ul
        vec![0, 0, 0, 0, 0, 0, 0, 0],
        // 0ul
        vec![0, 0, 0, 0, 0, 0, 0, 0],
        // 0ul
        vec![0, 0, 0, 0, 0, 0, 0, 0],
        // 1
        vec![1],
        // 9223372036854775811ul
        vec![3, 0, 0, 0, 0, 0, 0, 128],
    ];
    kani::concrete_playback_run(concrete_vals, c04_jump_1);
}
