// counterexample for harness c04::c04_table_4 (property C04)
// failed checks: [{"id": "c04::body_table::<4>.assertion.1", "description": "\"jump table differs from: target < len, byte is JUMPDEST, not inside PUSH data\"", "location": "src/c04.rs:44:5 in function c04::body_table::<4>"}]
// native replay: native run panicked: panicked at src/c04.rs:44:5: jump table differs from: target < len, byte is JUMPDEST, not inside PUSH data
// re-run: /verif/bin/check C04 --replay /verif/replays/C04/c04__c04_table_4.rs
// harness: c04::c04_table_4
#[test]
fn kani_concrete_playback_c04_table_4_5570429538513077634() {
    let concrete_vals: Vec<Vec<u8>> = vec![
        // 32
        vec![32],
        // 232
        vec![232],
        // 91
        vec![91],
        // 115
        vec![115],
        // 2ul
        vec![2, 0, 0, 0, 0, 0, 0, 0],
    ];
    kani::concrete_playback_run(concrete_vals, c04_table_4);
}

#[test]
fn kani_concrete_playback_c04_table_4_16720008477715616537() {
    let concrete_vals: Vec<Vec<u8>> = vec![
        // 91
        vec![91],
        // 91
        vec![91],
        // 91
        vec![91],
        // 91
        vec![91],
        // 0ul
        vec![0, 0, 0, 0, 0, 0, 0, 0],
    ];
    kani::concrete_playback_run(concrete_vals, c04_table_4);
}

#[test]
fn kani_concrete_playback_c04_table_4_6680430447930697199() {
    let concrete_vals: Vec<Vec<u8>> = vec![
        // 251
        vec![251],
        // 96
        vec![96],
        // 91
        vec![91],
        // 91
        vec![91],
        // 2ul
        vec![2, 0, 0, 0, 0, 0, 0, 0],
    ];
    kani::concrete_playback_run(concrete_vals, c04_table_4);
}

#[test]
fn kani_concrete_playback_c04_table_4_7839485729375703101() {
    let concrete_vals: Vec<Vec<u8>> = vec![
        // 96
        vec![96],
        // 111
        vec![111],
        // 127
        vec![127],
        // 99
        vec![99],
        // 33ul
        vec![33, 0, 0, 0, 0, 0, 0, 0],
    ];
    kani::concrete_playback_run(concrete_vals, c04_table_4);
}
