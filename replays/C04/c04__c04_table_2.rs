// counterexample for harness c04::c04_table_2 (property C04)
// failed checks: [{"id": "c04::body_table::<2>.assertion.1", "description": "\"jump table differs from: target < len, byte is JUMPDEST, not inside PUSH data\"", "location": "src/c04.rs:44:5 in function c04::body_table::<2>"}]
// native replay: native run panicked: panicked at src/c04.rs:44:5: jump table differs from: target < len, byte is JUMPDEST, not inside PUSH data
// re-run: /verif/bin/check C04 --replay /verif/replays/C04/c04__c04_table_2.rs
// harness: c04::c04_table_2
#[test]
fn kani_concrete_playback_c04_table_2_3871134616609909245() {
    let concrete_vals: Vec<Vec<u8>> = vec![
        // 229
        vec![229],
        // 91
        vec![91],
        // 1ul
        vec![1, 0, 0, 0, 0, 0, 0, 0],
    ];
    kani::concrete_playback_run(concrete_vals, c04_table_2);
}

#[test]
fn kani_concrete_playback_c04_table_2_10194658111548954581() {
    let concrete_vals: Vec<Vec<u8>> = vec![
        // 91
        vec![91],
        // 91
        vec![91],
        // 0ul
        vec![0, 0, 0, 0, 0, 0, 0, 0],
    ];
    kani::concrete_playback_run(concrete_vals, c04_table_2);
}

#[test]
fn kani_concrete_playback_c04_table_2_12502031948350801934() {
    let concrete_vals: Vec<Vec<u8>> = vec![
        // 99
        vec![99],
        // 91
        vec![91],
        // 1ul
        vec![1, 0, 0, 0, 0, 0, 0, 0],
    ];
    kani::concrete_playback_run(concrete_vals, c04_table_2);
}

#[test]
fn kani_concrete_playback_c04_table_2_9509836845014489285() {
    let concrete_vals: Vec<Vec<u8>> = vec![
        // 0
        vec![0],
        // 109
        vec![109],
        // 7ul
        vec![7, 0, 0, 0, 0, 0, 0, 0],
    ];
    kani::concrete_playback_run(concrete_vals, c04_table_2);
}
