// counterexample for harness c04::c04_table_3 (property C04)
// failed checks: [{"id": "c04::body_table::<3>.assertion.1", "description": "\"jump table differs from: target < len, byte is JUMPDEST, not inside PUSH data\"", "location": "src/c04.rs:44:5 in function c04::body_table::<3>"}]
// native replay: native run panicked: panicked at src/c04.rs:44:5: jump table differs from: target < len, byte is JUMPDEST, not inside PUSH data
// re-run: /verif/bin/check C04 --replay /verif/replays/C04/c04__c04_table_3.rs
// harness: c04::c04_table_3
#[test]
fn kani_concrete_playback_c04_table_3_6685635376091441243() {
    let concrete_vals: Vec<Vec<u8>> = vec![
        // 51
        vec![51],
        // 236
        vec![236],
        // 91
        vec![91],
        // 2ul
        vec![2, 0, 0, 0, 0, 0, 0, 0],
    ];
    kani::concrete_playback_run(concrete_vals, c04_table_3);
}

#[test]
fn kani_concrete_playback_c04_table_3_8988793687733859746() {
    let concrete_vals: Vec<Vec<u8>> = vec![
        // 91
        vec![91],
        // 91
        vec![91],
        // 91
        vec![91],
        // 0ul
        vec![0, 0, 0, 0, 0, 0, 0, 0],
    ];
    kani::concrete_playback_run(concrete_vals, c04_table_3);
}

#[test]
fn kani_concrete_playback_c04_table_3_15726820755940604011() {
    let concrete_vals: Vec<Vec<u8>> = vec![
        // 96
        vec![96],
        // 91
        vec![91],
        // 91
        vec![91],
        // 1ul
        vec![1, 0, 0, 0, 0, 0, 0, 0],
    ];
    kani::concrete_playback_run(concrete_vals, c04_table_3);
}

#[test]
fn kani_concrete_playback_c04_table_3_6718822921893442290() {
    let concrete_vals: Vec<Vec<u8>> = vec![
        // 103
        vec![103],
        // 96
        vec![96],
        // 127
        vec![127],
        // 33ul
        vec![33, 0, 0, 0, 0, 0, 0, 0],
    ];
    kani::concrete_playback_run(concrete_vals, c04_table_3);
}
