// counterexample for harness c32::c32_excess_blob_gas_all_u64 (property C32)
// failed checks: [{"id": "revm_primitives::calc_excess_blob_gas.assertion.1", "description": "attempt to subtract with overflow", "location": "../../repo/crates/primitives/src/utilities.rs:26:32 in function revm_primitives::calc_excess_blob_gas"}, {"id": "c32::c32_excess_blob_gas_all_u64.assertion.3", "description": "\"excess blob gas differs from max(0, excess+used-target)\"", "location": "src/c32.rs:20:5 in function c32::c32_excess_blob_gas_all_u64"}]
// native replay: native run panicked: panicked at /repo/crates/primitives/src/utilities.rs:26:32: attempt to subtract with overflow
// re-run: /verif/bin/check C32 --replay /verif/replays/C32/c32__c32_excess_blob_gas_all_u64.rs
// harness: c32::c32_excess_blob_gas_all_u64
#[test]
fn kani_concrete_playback_c32_excess_blob_gas_all_u64_12937166648564712399() {
    let concrete_vals: Vec<Vec<u8>> = vec![
        // 0ul
        vec![0, 0, 0, 0, 0, 0, 0, 0],
        // 0ul
        vec![0, 0, 0, 0, 0, 0, 0, 0],
        // 9223372036854775808ul
        vec![0, 0, 0, 0, 0, 0, 0, 128],
    ];
    kani::concrete_playback_run(concrete_vals, c32_excess_blob_gas_all_u64);
}

#[test]
fn kani_concrete_playback_c32_excess_blob_gas_all_u64_5019716094640296794() {
    let concrete_vals: Vec<Vec<u8>> = vec![
        // 13835058055282163712ul
        vec![0, 0, 0, 0, 0, 0, 0, 192],
        // 0ul
        vec![0, 0, 0, 0, 0, 0, 0, 0],
        // 13835058055282163712ul
        vec![0, 0, 0, 0, 0, 0, 0, 192],
    ];
    kani::concrete_playback_run(concrete_vals, c32_excess_blob_gas_all_u64);
}

#[test]
fn kani_concrete_playback_c32_excess_blob_gas_all_u64_13964838925783752611() {
    let concrete_vals: Vec<Vec<u8>> = vec![
        // 18446744073709551615ul
        vec![255, 255, 255, 255, 255, 255, 255, 255],
        // 18446744073709551614ul
        vec![254, 255, 255, 255, 255, 255, 255, 255],
        // 18446744073709551615ul
        vec![255, 255, 255, 255, 255, 255, 255, 255],
    ];
    kani::concrete_playback_run(concrete_vals, c32_excess_blob_gas_all_u64);
}

#[test]
fn kani_concrete_playback_c32_excess_blob_gas_all_u64_8367220995298645048() {
    let concrete_vals: Vec<Vec<u8>> = vec![
        // 0ul
        vec![0, 0, 0, 0, 0, 0, 0, 0],
        // 9223372036854775808ul
        vec![0, 0, 0, 0, 0, 0, 0, 128],
        // 13835058055282163712ul
        vec![0, 0, 0, 0, 0, 0, 0, 192],
    ];
    kani::concrete_playback_run(concrete_vals, c32_excess_blob_gas_all_u64);
}

#[test]
fn kani_concrete_playback_c32_excess_blob_gas_all_u64_14477646053952148676() {
    let concrete_vals: Vec<Vec<u8>> = vec![
        // 1ul
        vec![1, 0, 0, 0, 0, 0, 0, 0],
        // 0ul
        vec![0, 0, 0, 0, 0, 0, 0, 0],
        // 0ul
        vec![0, 0, 0, 0, 0, 0, 0, 0],
    ];
    kani::concrete_playback_run(concrete_vals, c32_excess_blob_gas_all_u64);
}
