// counterexample for harness c32::c32_block_env_price_follows_last_setting (property C32)
// failed checks: [{"id": "c32::c32_block_env_price_follows_last_setting.assertion.3", "description": "\"stored blob gas price is not the price of the (excess, schedule) last set\"", "location": "src/c32.rs:102:5 in function c32::c32_block_env_price_follows_last_setting"}]
// native replay: native run panicked: panicked at src/c32.rs:98:9: assertion failed: b.get_blob_excess_gas() == Some(x1) &&
// re-run: /verif/bin/check C32 --replay /verif/replays/C32/c32__c32_block_env_price_follows_last_setting.rs
// harness: c32::c32_block_env_price_follows_last_setting
#[test]
fn kani_concrete_playback_c32_block_env_price_follows_last_setting_16692412102606635928() {
    let concrete_vals: Vec<Vec<u8>> = vec![
        // 0ul
        vec![0, 0, 0, 0, 0, 0, 0, 0],
        // 0
        vec![0],
        // 0ul
        vec![0, 0, 0, 0, 0, 0, 0, 0],
        // 1
        vec![1],
        // 0
        vec![0],
    ];
    kani::concrete_playback_run(concrete_vals, c32_block_env_price_follows_last_setting);
}

#[test]
fn kani_concrete_playback_c32_block_env_price_follows_last_setting_2906172610217895237() {
    let concrete_vals: Vec<Vec<u8>> = vec![
        // 0ul
        vec![0, 0, 0, 0, 0, 0, 0, 0],
        // 1
        vec![1],
        // 0ul
        vec![0, 0, 0, 0, 0, 0, 0, 0],
        // 0
        vec![0],
        // 1
        vec![1],
    ];
    kani::concrete_playback_run(concrete_vals, c32_block_env_price_follows_last_setting);
}

#[test]
fn kani_concrete_playback_c32_block_env_price_follows_last_setting_15461417163703603319() {
    let concrete_vals: Vec<Vec<u8>> = vec![
        // 0ul
        vec![0, 0, 0, 0, 0, 0, 0, 0],
        // 0
        vec![0],
        // 1ul
        vec![1, 0, 0, 0, 0, 0, 0, 0],
        // 0
        vec![0],
        // 1
        vec![1],
    ];
    kani::concrete_playback_run(concrete_vals, c32_block_env_price_follows_last_setting);
}
