//! Round-4 replay scenarios for C29: every emitted log is reported once; an end notification carries the inputs its call ran with.
use revm::db::{CacheDB, EmptyDB};
use revm::interpreter::{CallInputs, CallOutcome, CreateInputs, CreateOutcome, Interpreter};
use revm::primitives::{address, AccountInfo, Address, Bytecode, Bytes, Log, SpecId, TxKind, B256, U256};
use revm::{inspector_handle_register, Database, Evm, EvmContext, Inspector};

const CALLER: Address = address!("1000000000000000000000000000000000000001");
const TARGET: Address = address!("2000000000000000000000000000000000000002");

#[derive(Default)]
struct Rewriter {
    logs: usize,
    calls: Vec<CallInputs>,
    creates: Vec<CreateInputs>,
    call_end_bad: usize,
    create_end_bad: usize,
    call_ends: usize,
    create_ends: usize,
}

impl<DB: Database> Inspector<DB> for Rewriter {
    fn log(&mut self, _i: &mut Interpreter, _c: &mut EvmContext<DB>, _l: &Log) {
        self.logs += 1;
    }
    fn call(&mut self, _c: &mut EvmContext<DB>, inputs: &mut CallInputs) -> Option<CallOutcome> {
        // the hook may rewrite the inputs: the call runs with the rewritten ones, and call_end must be handed those
        inputs.input = Bytes::from(vec![0xab; self.calls.len() + 1]);
        self.calls.push(inputs.clone());
        None
    }
    fn call_end(&mut self, _c: &mut EvmContext<DB>, inputs: &CallInputs, outcome: CallOutcome) -> CallOutcome {
        self.call_ends += 1;
        if self.calls.pop().as_ref() != Some(inputs) {
            self.call_end_bad += 1;
        }
        outcome
    }
    fn create(&mut self, _c: &mut EvmContext<DB>, inputs: &mut CreateInputs) -> Option<CreateOutcome> {
        inputs.init_code = Bytes::from_static(&[0x00]);
        self.creates.push(inputs.clone());
        None
    }
    fn create_end(&mut self, _c: &mut EvmContext<DB>, inputs: &CreateInputs, outcome: CreateOutcome) -> CreateOutcome {
        self.create_ends += 1;
        if self.creates.pop().as_ref() != Some(inputs) {
            self.create_end_bad += 1;
        }
        outcome
    }
}

pub fn inspector_logs_inputs() -> String {
    let mut code: Vec<u8> = Vec::new();
    // LOG0..LOG4 with empty data and zero topics
    for n in 0..=4u8 {
        for _ in 0..(n + 2) {
            code.extend_from_slice(&[0x60, 0x00]);
        }
        code.push(0xa0 + n);
    }
    // CALL the identity precompile with empty input; CREATE with empty init code; STOP
    code.extend_from_slice(&[0x60, 0, 0x60, 0, 0x60, 0, 0x60, 0, 0x60, 0, 0x60, 4, 0x61, 0xff, 0xff, 0xf1, 0x50]);
    code.extend_from_slice(&[0x60, 0, 0x60, 0, 0x60, 0, 0xf0, 0x50, 0x00]);
    let bc = Bytecode::new_legacy(Bytes::from(code));
    let mut db = CacheDB::new(EmptyDB::default());
    db.insert_account_info(CALLER, AccountInfo { nonce: 0, balance: U256::from(1_000_000_000u64), code_hash: B256::default(), code: None });
    db.insert_account_info(TARGET, AccountInfo { nonce: 1, balance: U256::ZERO, code_hash: bc.hash_slow(), code: Some(bc) });
    let mut evm = Evm::builder()
        .with_db(db)
        .with_external_context(Rewriter::default())
        .with_spec_id(SpecId::CANCUN)
        .modify_tx_env(|tx| {
            tx.caller = CALLER;
            tx.transact_to = TxKind::Call(TARGET);
            tx.gas_limit = 1_000_000;
        })
        .append_handler_register(inspector_handle_register)
        .build();
    let r = evm.transact().expect("tx runs");
    let emitted = r.result.logs().len();
    let i = &evm.context.external;
    let logs_ok = r.result.is_success() && emitted == 5 && i.logs == emitted;
    let inputs_ok = i.call_ends == 2 && i.create_ends == 1 && i.call_end_bad == 0 && i.create_end_bad == 0;
    format!(
        "[inspector_logs success={} emitted={} reported={}{}] [inspector_inputs call_end={} stale={} create_end={} stale={}{}] ",
        r.result.is_success(), emitted, i.logs, if logs_ok { "" } else { " MISMATCH" },
        i.call_ends, i.call_end_bad, i.create_ends, i.create_end_bad, if inputs_ok { "" } else { " MISMATCH" }
    )
}
