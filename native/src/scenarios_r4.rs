//! Round-4 replay scenarios for C29: every emitted log is reported once; an end notification carries the inputs its call ran with.
use revm::db::{CacheDB, EmptyDB};
use revm::interpreter::{CallInputs, CallOutcome, CreateInputs, CreateOutcome, Interpreter};
use revm::primitives::{address, AccountInfo, Address, Bytecode, Bytes, Log, SpecId, TxKind, B256, U256};
use revm::{inspector_handle_register, Database, Evm, EvmContext, Inspector};

const CALLER: Address = address!("1000000000000000000000000000000000000001");
const TARGET: Address = address!("2000000000000000000000000000000000000002");

#[derive(Default)]
struct Rewriter {
    logs: usize,
    calls: Vec<CallInputs>,
    creates: Vec<CreateInputs>,
    call_end_bad: usize,
    create_end_bad: usize,
    call_ends: usize,
    create_ends: usize,
}

impl<DB: Database> Inspector<DB> for Rewriter {
    fn log(&mut self, _i: &mut Interpreter, _c: &mut EvmContext<DB>, _l: &Log) {
        self.logs += 1;
    }
    fn call(&mut self, _c: &mut EvmContext<DB>, inputs: &mut CallInputs) -> Option<CallOutcome> {
        // the hook may rewrite the inputs: the call runs with the rewritten ones, and call_end must be handed those
        inputs.input = Bytes::from(vec![0xab; self.calls.len() + 1]);
        self.calls.push(inputs.clone());
        None
    }
    fn call_end(&mut self, _c: &mut EvmContext<DB>, inputs: &CallInputs, outcome: CallOutcome) -> CallOutcome {
        self.call_ends += 1;
        if self.calls.pop().as_ref() != Some(inputs) {
            self.call_end_bad += 1;
        }
        outcome
    }
    fn create(&mut self, _c: &mut EvmContext<DB>, inputs: &mut CreateInputs) -> Option<CreateOutcome> {
        inputs.init_code = Bytes::from_static(&[0x00]);
        self.creates.push(inputs.clone());
        None
    }
    fn create_end(&mut self, _c: &mut EvmContext<DB>, inputs: &CreateInputs, outcome: CreateOutcome) -> CreateOutcome {
        self.create_ends += 1;
        if self.creates.pop().as_ref() != Some(inputs) {
            self.create_end_bad += 1;
        }
        outcome
    }
}

pub fn inspector_logs_inputs() -> String {
    let mut code: Vec<u8> = Vec::new();
    // LOG0..LOG4 with empty data and zero topics
    for n in 0..=4u8 {
        for _ in 0..(n + 2) {
            code.extend_from_slice(&[0x60, 0x00]);
        }
        code.push(0xa0 + n);
    }
    // CALL the identity precompile with empty input; CREATE with empty init code; STOP
    code.extend_from_slice(&[0x60, 0, 0x60, 0, 0x60, 0, 0x60, 0, 0x60, 0, 0x60, 4, 0x61, 0xff, 0xff, 0xf1, 0x50]);
    code.extend_from_slice(&[0x60, 0, 0x60, 0, 0x60, 0, 0xf0, 0x50, 0x00]);
    let bc = Bytecode::new_legacy(Bytes::from(code));
    let mut db = CacheDB::new(EmptyDB::default());
    db.insert_account_info(CALLER, AccountInfo { nonce: 0, balance: U256::from(1_000_000_000u64), code_hash: B256::default(), code: None });
    db.insert_account_info(TARGET, AccountInfo { nonce: 1, balance: U256::ZERO, code_hash: bc.hash_slow(), code: Some(bc) });
    let mut evm = Evm::builder()
        .with_db(db)
        .with_external_context(Rewriter::default())
        .with_spec_id(SpecId::CANCUN)
        .modify_tx_env(|tx| {
            tx.caller = CALLER;
            tx.transact_to = TxKind::Call(TARGET);
            tx.gas_limit = 1_000_000;
        })
        .append_handler_register(inspector_handle_register)
        .build();
    let r = evm.transact().expect("tx runs");
    let emitted = r.result.logs().len();
    let i = &evm.context.external;
    let logs_ok = r.result.is_success() && emitted == 5 && i.logs == emitted;
    let inputs_ok = i.call_ends == 2 && i.create_ends == 1 && i.call_end_bad == 0 && i.create_end_bad == 0;
    format!(
        "[inspector_logs success={} emitted={} reported={}{}] [inspector_inputs call_end={} stale={} create_end={} stale={}{}] ",
        r.result.is_success(), emitted, i.logs, if logs_ok { "" } else { " MISMATCH" },
        i.call_ends, i.call_end_bad, i.create_ends, i.create_end_bad, if inputs_ok { "" } else { " MISMATCH" }
    )
}

// ---------------------------------------------------------------- C31: an EVM reused across a spec change behaves like a fresh one of the new spec
fn reuse_run(first: Option<SpecId>, spec: SpecId, to: Address, input: Bytes) -> (u64, bool, bool, SpecId) {
    let sd = address!("2000000000000000000000000000000000000003");
    let mut db = CacheDB::new(EmptyDB::default());
    db.insert_account_info(CALLER, AccountInfo { nonce: 0, balance: U256::from(1_000_000_000u64), code_hash: B256::default(), code: None });
    let stop = Bytecode::new_legacy(Bytes::from_static(&[0x00]));
    db.insert_account_info(TARGET, AccountInfo { nonce: 1, balance: U256::ZERO, code_hash: stop.hash_slow(), code: Some(stop) });
    // PUSH20 <CALLER> SELFDESTRUCT
    let mut c = vec![0x73];
    c.extend_from_slice(CALLER.as_slice());
    c.push(0xff);
    let sdc = Bytecode::new_legacy(Bytes::from(c));
    db.insert_account_info(sd, AccountInfo { nonce: 1, balance: U256::from(7), code_hash: sdc.hash_slow(), code: Some(sdc) });
    let mut evm = Evm::builder()
        .with_db(db)
        .with_spec_id(first.unwrap_or(spec))
        .modify_tx_env(|tx| {
            tx.caller = CALLER;
            tx.transact_to = TxKind::Call(TARGET);
            tx.gas_limit = 1_000_000;
        })
        .build();
    if first.is_some() {
        let _ = evm.transact().expect("first tx runs");
        evm.modify_spec_id(spec);
    }
    evm.context.evm.env.tx.transact_to = TxKind::Call(to);
    evm.context.evm.env.tx.data = input;
    let r = evm.transact().expect("tx runs");
    let destroyed = r.state.get(&sd).map(|a| a.is_selfdestructed()).unwrap_or(false);
    (r.result.gas_used(), r.result.is_success(), destroyed, evm.context.evm.journaled_state.spec)
}

pub fn reuse_spec_change() -> String {
    let sd = address!("2000000000000000000000000000000000000003");
    let modexp = address!("0000000000000000000000000000000000000005");
    let mut input = vec![0u8; 96];
    input[31] = 1;
    input[63] = 1;
    input[95] = 1;
    input.extend_from_slice(&[2, 3, 5]);
    let mut out = String::new();
    // same precompile addresses, different pricing: ISTANBUL -> BERLIN reprices MODEXP
    let reused = reuse_run(Some(SpecId::ISTANBUL), SpecId::BERLIN, modexp, Bytes::from(input.clone()));
    let fresh = reuse_run(None, SpecId::BERLIN, modexp, Bytes::from(input));
    out += &format!("[reuse_precompiles ISTANBUL->BERLIN modexp gas_reused={} gas_fresh={}{}] ", reused.0, fresh.0, if reused.0 == fresh.0 && reused.1 == fresh.1 { "" } else { " MISMATCH" });
    // the journal applies fork rules of its own (EIP-6780): CANCUN -> SHANGHAI
    let reused = reuse_run(Some(SpecId::CANCUN), SpecId::SHANGHAI, sd, Bytes::new());
    let fresh = reuse_run(None, SpecId::SHANGHAI, sd, Bytes::new());
    out += &format!("[reuse_journal_spec CANCUN->SHANGHAI selfdestruct destroyed_reused={} destroyed_fresh={} journal_spec_reused={:?} gas_reused={} gas_fresh={}{}] ",
        reused.2, fresh.2, reused.3, reused.0, fresh.0, if reused.2 == fresh.2 && reused.0 == fresh.0 && reused.3 == SpecId::SHANGHAI { "" } else { " MISMATCH" });
    let reused = reuse_run(Some(SpecId::SHANGHAI), SpecId::CANCUN, sd, Bytes::new());
    let fresh = reuse_run(None, SpecId::CANCUN, sd, Bytes::new());
    out += &format!("[reuse_journal_spec SHANGHAI->CANCUN selfdestruct destroyed_reused={} destroyed_fresh={} journal_spec_reused={:?}{}] ",
        reused.2, fresh.2, reused.3, if reused.2 == fresh.2 && reused.0 == fresh.0 && reused.3 == SpecId::CANCUN { "" } else { " MISMATCH" });
    out
}

// ---------------------------------------------------------------- C20: State::block_hash answers like the database it wraps, whatever was asked (and pruned) before
pub fn block_hash_window() -> String {
    use revm::db::State;
    use revm::{Database, DatabaseRef};
    let mut out = String::new();
    let sequences: [(&str, Vec<u64>); 5] = [
        ("ascending", vec![1, 2, 258, 259, 600]),
        ("older than the window after a newer one", vec![1000, 700, 1000 - 257, 1000 - 256, 1000 - 255]),
        ("same block twice around a prune", vec![10, 300, 10, 300]),
        ("descending", vec![900, 600, 300, 1]),
        ("window edge", vec![256, 0, 257, 1, 513, 257]),
    ];
    for (name, seq) in sequences {
        let mut st = State::builder().build();
        let mut bad = Vec::new();
        for n in &seq {
            let got = st.block_hash(*n).expect("no db error");
            let want = EmptyDB::default().block_hash_ref(*n).unwrap();
            if got != want {
                bad.push(*n);
            }
        }
        let j = |v: &Vec<u64>| v.iter().map(|x| x.to_string()).collect::<Vec<_>>().join(",");
        out += &format!("[block_hash_window {} queries={} wrong_answers={}{}] ", name, j(&seq), j(&bad), if bad.is_empty() { "" } else { " MISMATCH" });
    }
    out
}
