//! Native replay tool: runs the real functions on concrete inputs (debug and release profiles).
//! Used (a) to confirm solver counterexamples before they are reported, (b) to validate the MIR->SMT
//! encoder against the real function on the repository's own unit-test vectors.
use std::panic;

fn main() {
    let a: Vec<String> = std::env::args().collect();
    if a.len() < 2 {
        eprintln!("usage: revm-verif-native <cmd> args..");
        std::process::exit(2);
    }
    panic::set_hook(Box::new(|_| {}));
    let r = panic::catch_unwind(|| run(&a[1..]));
    match r {
        Ok(s) => println!("ok {s}"),
        Err(e) => {
            let msg = e.downcast_ref::<String>().cloned().or_else(|| e.downcast_ref::<&str>().map(|s| s.to_string())).unwrap_or_default();
            println!("panic {msg}")
        }
    }
}

fn u(s: &str) -> u64 {
    s.parse().expect("u64")
}

fn run(a: &[String]) -> String {
    match a[0].as_str() {
        "fake_exponential" => revm_primitives::fake_exponential(u(&a[1]), u(&a[2]), u(&a[3])).to_string(),
        "calc_blob_gasprice" => revm_primitives::calc_blob_gasprice(u(&a[1]), a[2] == "true").to_string(),
        "calc_excess_blob_gas" => revm_primitives::calc_excess_blob_gas(u(&a[1]), u(&a[2]), u(&a[3])).to_string(),
        "frame_depth_all" => scenarios::frame_depth_all(&a[1]),
        "frame_depth" => scenarios::frame_depth(&a[1], &a[2]),
        "depth_limit" => scenarios::depth_limit(),
        "inspector_logs_inputs" => scenarios_r4::inspector_logs_inputs(),
        "reuse_spec_change" => scenarios_r4::reuse_spec_change(),
        "block_hash_window" => scenarios_r4::block_hash_window(),
        "reward_differential" => scenarios::reward_differential(),
        "handler_flag" => scenarios::handler_flag(&a[1], a[2] == "true"),
        "has_storage_layer" => scenarios::has_storage_layer(&a[1]),
        "journal_clear_leak" => scenarios::journal_clear_leak(),
        "floor_gas_used" => scenarios::floor_gas_used(),
        "reward_amount" => scenarios::reward_amount(),
        "reward_paid" => scenarios::reward_paid(&a[1]),
        "selfdestruct_sum" => scenarios::selfdestruct_sum(),
        "reimburse_exact_gas" => scenarios::reimburse_exact_gas(),
        "inspector_balance" => scenarios::inspector_balance(),
        "evm_leak" => scenarios::evm_leak(&a[1]),
        "transfer_sum" => scenarios::transfer_sum(&a[1]),
        "inspector_transparency" => scenarios::inspector_transparency(),
        "gas_inspector_differential" => scenarios::gas_inspector_differential(),
        "journal_roundtrip" => scenarios::journal_roundtrip(),
        "selfdestruct_notify" => scenarios::selfdestruct_notify(),
        "bytecode_accessors" => scenarios::bytecode_accessors(),
        "block_state_kernel" => scenarios::block_state_kernel(),
        "create_guard" => scenarios::create_guard(),
        "create_collision" => scenarios::create_collision(&a[1]),
        "warm_kernel" => scenarios::warm_kernel(),
        "cachedb_read_policy" => scenarios::cachedb_read_policy(),
        "static_value_call" => scenarios::static_value_call(&a[1]),
        "call_flag" => scenarios::call_flag(&a[1], a[2] == "true"),
        "opcode_status" => scenarios::opcode_status(a[1].parse().unwrap(), a[2].parse().unwrap()),
        "precompile_spec" => scenarios::precompile_spec(a[1].parse().unwrap()),
        _ => panic!("unknown command"),
    }
}

mod scenarios;
mod scenarios_r4;
