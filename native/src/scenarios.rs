//! Concrete scenarios on the real revm API, used to confirm candidate paths found by the MIR-CFG search (E3).
use revm::db::{CacheDB, EmptyDB};
use revm::interpreter::{CallInputs, CallScheme, CallValue, CreateInputs};
use revm::primitives::{address, AccountInfo, Address, Bytecode, Bytes, CreateScheme, HashSet, SpecId, B256, U256};
use revm::{EvmContext, FrameOrResult, Handler, JournaledState};

const CALLER: Address = address!("1000000000000000000000000000000000000001");
const TARGET: Address = address!("2000000000000000000000000000000000000002");

fn ctx(spec: SpecId, caller_balance: u64, target_code: Option<Bytecode>, caller_nonce: u64) -> EvmContext<CacheDB<EmptyDB>> {
    let mut db = CacheDB::new(EmptyDB::default());
    db.insert_account_info(CALLER, AccountInfo { nonce: caller_nonce, balance: U256::from(caller_balance), code_hash: B256::default(), code: None });
    if let Some(code) = target_code {
        db.insert_account_info(TARGET, AccountInfo { nonce: 1, balance: U256::ZERO, code_hash: code.hash_slow(), code: Some(code) });
    }
    let mut c = EvmContext::new(db);
    c.inner.journaled_state = JournaledState::new(spec, HashSet::default());
    // the caller is always loaded before a frame is made
    let _ = c.inner.journaled_state.load_account(CALLER, &mut c.inner.db);
    c
}

fn kind(r: &FrameOrResult) -> &'static str {
    match r {
        FrameOrResult::Frame(_) => "frame",
        FrameOrResult::Result(_) => "result",
    }
}

/// Prints journal depth before/after one make_*_frame call that ends on the requested path.
pub fn frame_depth(func: &str, key: &str) -> String {
    match func {
        "make_call_frame" => {
            let legacy = Bytecode::new_legacy(Bytes::from_static(&[0x00]));
            let (mut c, scheme, value) = match key {
                "CallTooDeep" => (ctx(SpecId::OSAKA, 10, None, 0), CallScheme::Call, CallValue::Transfer(U256::ZERO)),
                "InvalidExtDelegateCallTarget" => (ctx(SpecId::OSAKA, 10, Some(legacy), 0), CallScheme::ExtDelegateCall, CallValue::Apparent(U256::ZERO)),
                "Stop" => (ctx(SpecId::OSAKA, 10, None, 0), CallScheme::Call, CallValue::Transfer(U256::ZERO)),
                "OutOfFunds" => (ctx(SpecId::OSAKA, 0, None, 0), CallScheme::Call, CallValue::Transfer(U256::from(1))),
                "frame" => (ctx(SpecId::OSAKA, 10, Some(legacy), 0), CallScheme::Call, CallValue::Transfer(U256::ZERO)),
                _ => panic!("no scenario for {key}"),
            };
            if key == "CallTooDeep" {
                c.inner.journaled_state.depth = 1025;
            }
            let inputs = CallInputs {
                input: Bytes::new(),
                gas_limit: 100_000,
                bytecode_address: TARGET,
                target_address: TARGET,
                caller: CALLER,
                value,
                scheme,
                is_eof: matches!(scheme, CallScheme::ExtDelegateCall),
                is_static: false,
                return_memory_offset: 0..0,
            };
            let before = c.inner.journaled_state.depth;
            let r = c.make_call_frame(&inputs).expect("no db error");
            format!("before={} after={} kind={}", before, c.inner.journaled_state.depth, kind(&r))
        }
        "make_create_frame" => {
            let (mut c, init, value) = match key {
                "CallTooDeep" => (ctx(SpecId::CANCUN, 10, None, 0), vec![0x00], 0u64),
                "CreateInitCodeStartingEF00" => (ctx(SpecId::OSAKA, 10, None, 0), vec![0xef, 0x00, 0x01], 0),
                "OutOfFunds" => (ctx(SpecId::CANCUN, 0, None, 0), vec![0x00], 1),
                "Return" => (ctx(SpecId::CANCUN, 10, None, u64::MAX), vec![0x00], 0),
                "frame" => (ctx(SpecId::CANCUN, 10, None, 0), vec![0x00], 0),
                _ => panic!("no scenario for {key}"),
            };
            if key == "CallTooDeep" {
                c.inner.journaled_state.depth = 1025;
            }
            let spec = c.inner.journaled_state.spec;
            let inputs = CreateInputs { caller: CALLER, scheme: CreateScheme::Create, value: U256::from(value), init_code: Bytes::from(init), gas_limit: 100_000 };
            let before = c.inner.journaled_state.depth;
            let r = c.make_create_frame(spec, &inputs).expect("no db error");
            format!("before={} after={} kind={}", before, c.inner.journaled_state.depth, kind(&r))
        }
        _ => panic!("no scenario for function {func}"),
    }
}

fn noop_register(_h: &mut revm::handler::register::EvmHandler<'_, (), EmptyDB>) {}

/// Builds a mainnet handler with the beneficiary reward switched on/off, reconfigures it, and reports the switch afterwards.
pub fn handler_flag(op: &str, flag: bool) -> String {
    let mut h: Handler<'_, revm::Context<(), EmptyDB>, (), EmptyDB> = Handler::mainnet_with_spec(SpecId::CANCUN, flag);
    let before = h.post_execution.reward_beneficiary.is_some();
    match op {
        "modify_spec_id" => h.modify_spec_id(SpecId::LONDON),
        "pop_handle_register" => {
            h.append_handler_register_plain(noop_register);
            let _ = h.pop_handle_register();
        }
        "create_handle_generic" => {
            h = h.create_handle_generic::<revm::primitives::BerlinSpec>();
        }
        _ => panic!("unknown op"),
    }
    format!("before={} after={}", before, h.post_execution.reward_beneficiary.is_some())
}

// ---------------------------------------------------------------- has_storage through the database layers
use revm::db::State as BlockState;
use revm::primitives::db::{DatabaseComponents, WrapDatabaseRef};
use revm::{Database, DatabaseRef};

/// A source that answers `true` to has_storage for every address (both trait flavours).
#[derive(Default, Clone)]
struct HasStorageSource;
impl DatabaseRef for HasStorageSource {
    type Error = core::convert::Infallible;
    fn basic_ref(&self, _a: Address) -> Result<Option<AccountInfo>, Self::Error> {
        Ok(None)
    }
    fn code_by_hash_ref(&self, _h: B256) -> Result<Bytecode, Self::Error> {
        Ok(Bytecode::default())
    }
    fn has_storage_ref(&self, _a: Address) -> Result<bool, Self::Error> {
        Ok(true)
    }
    fn storage_ref(&self, _a: Address, _i: U256) -> Result<U256, Self::Error> {
        Ok(U256::from(7))
    }
    fn block_hash_ref(&self, _n: u64) -> Result<B256, Self::Error> {
        Ok(B256::ZERO)
    }
}
impl Database for HasStorageSource {
    type Error = core::convert::Infallible;
    fn basic(&mut self, a: Address) -> Result<Option<AccountInfo>, Self::Error> {
        self.basic_ref(a)
    }
    fn code_by_hash(&mut self, h: B256) -> Result<Bytecode, Self::Error> {
        self.code_by_hash_ref(h)
    }
    fn has_storage(&mut self, _a: Address) -> Result<bool, Self::Error> {
        Ok(true)
    }
    fn storage(&mut self, a: Address, i: U256) -> Result<U256, Self::Error> {
        self.storage_ref(a, i)
    }
    fn block_hash(&mut self, n: u64) -> Result<B256, Self::Error> {
        self.block_hash_ref(n)
    }
}
impl revm::primitives::db::State for HasStorageSource {
    type Error = core::convert::Infallible;
    fn basic(&mut self, a: Address) -> Result<Option<AccountInfo>, Self::Error> {
        self.basic_ref(a)
    }
    fn code_by_hash(&mut self, h: B256) -> Result<Bytecode, Self::Error> {
        self.code_by_hash_ref(h)
    }
    fn storage(&mut self, a: Address, i: U256) -> Result<U256, Self::Error> {
        self.storage_ref(a, i)
    }
}
impl revm::primitives::db::StateRef for HasStorageSource {
    type Error = core::convert::Infallible;
    fn basic(&self, a: Address) -> Result<Option<AccountInfo>, Self::Error> {
        self.basic_ref(a)
    }
    fn code_by_hash(&self, h: B256) -> Result<Bytecode, Self::Error> {
        self.code_by_hash_ref(h)
    }
    fn storage(&self, a: Address, i: U256) -> Result<U256, Self::Error> {
        self.storage_ref(a, i)
    }
}
impl revm::primitives::db::BlockHash for HasStorageSource {
    type Error = core::convert::Infallible;
    fn block_hash(&mut self, _n: u64) -> Result<B256, Self::Error> {
        Ok(B256::ZERO)
    }
}
impl revm::primitives::db::BlockHashRef for HasStorageSource {
    type Error = core::convert::Infallible;
    fn block_hash(&self, _n: u64) -> Result<B256, Self::Error> {
        Ok(B256::ZERO)
    }
}

pub fn has_storage_layer(layer: &str) -> String {
    let a = TARGET;
    let ans = match layer {
        "WrapDatabaseRef:Database" => WrapDatabaseRef(HasStorageSource).has_storage(a).unwrap(),
        "DatabaseComponents:Database" => DatabaseComponents { state: HasStorageSource, block_hash: HasStorageSource }.has_storage(a).unwrap(),
        "DatabaseComponents:DatabaseRef" => DatabaseComponents { state: HasStorageSource, block_hash: HasStorageSource }.has_storage_ref(a).unwrap(),
        "CacheDB:Database" => CacheDB::new(HasStorageSource).has_storage(a).unwrap(),
        "CacheDB:DatabaseRef" => CacheDB::new(HasStorageSource).has_storage_ref(a).unwrap(),
        "State:Database" => BlockState::builder().with_database(HasStorageSource).build().has_storage(a).unwrap(),
        _ => panic!("unknown layer"),
    };
    format!("underlying=true answer={ans}")
}

// ---------------------------------------------------------------- opcode / precompile availability per fork
use revm::interpreter::{opcode::make_instruction_table, Contract, DummyHost, Interpreter};
use revm::primitives::{spec_to_generic, Env};

/// Executes opcode `op` of the instruction table of fork `spec` on an empty-stack, zero-gas legacy interpreter.
pub fn opcode_status(op: u8, spec: u8) -> String {
    let spec_id = SpecId::try_from_u8(spec).expect("spec id");
    fn run<SPEC: revm::primitives::Spec>(op: u8) -> String {
        let table = make_instruction_table::<DummyHost, SPEC>();
        let mut host = DummyHost::new(Env::default());
        let mut it = Interpreter::new(Contract::default(), 0, false);
        // enough (zero) operands that no opcode underflows before it reaches its fork gate; zero gas stops it right after
        for _ in 0..8 {
            it.stack.push(U256::ZERO).unwrap();
        }
        (table[op as usize])(&mut it, &mut host);
        format!("{:?}", it.instruction_result)
    }
    spec_to_generic!(spec_id, run::<SPEC>(op))
}

pub fn precompile_spec(spec: u8) -> String {
    let spec_id = SpecId::try_from_u8(spec).expect("spec id");
    format!("{:?}", revm::precompile::PrecompileSpecId::from_spec_id(spec_id))
}

// ---------------------------------------------------------------- static flag handed to child frames
pub fn call_flag(op: &str, parent_static: bool) -> String {
    use revm::interpreter::instructions::contract;
    use revm::interpreter::InterpreterAction;
    use revm::primitives::LatestSpec;
    let mut host = DummyHost::new(Env::default());
    let mut it = Interpreter::new(Contract::default(), 1_000_000, parent_static);
    let eof = matches!(op, "extcall" | "extdelegatecall" | "extstaticcall");
    it.is_eof = eof;
    for _ in 0..8 {
        it.stack.push(U256::ZERO).unwrap();
    }
    match op {
        "call" => contract::call::<DummyHost, LatestSpec>(&mut it, &mut host),
        "call_code" => contract::call_code::<DummyHost, LatestSpec>(&mut it, &mut host),
        "delegate_call" => contract::delegate_call::<DummyHost, LatestSpec>(&mut it, &mut host),
        "static_call" => contract::static_call::<DummyHost, LatestSpec>(&mut it, &mut host),
        "extcall" => contract::extcall::<DummyHost, LatestSpec>(&mut it, &mut host),
        "extdelegatecall" => contract::extdelegatecall::<DummyHost, LatestSpec>(&mut it, &mut host),
        "extstaticcall" => contract::extstaticcall::<DummyHost>(&mut it, &mut host),
        _ => panic!("unknown op"),
    }
    match &it.next_action {
        InterpreterAction::Call { inputs } => format!("child_static={}", inputs.is_static),
        _ => format!("no call scheduled: {:?}", it.instruction_result),
    }
}

// ---------------------------------------------------------------- ether conservation of a failing transfer
pub fn transfer_sum(key: &str) -> String {
    let mut db = CacheDB::new(EmptyDB::default());
    let (from_bal, to_bal, amount) = match key {
        "OverflowPayment" => (U256::from(10), U256::MAX, U256::from(5)),
        "OutOfFunds" => (U256::from(1), U256::from(3), U256::from(5)),
        _ => (U256::from(10), U256::from(3), U256::from(5)),
    };
    db.insert_account_info(CALLER, AccountInfo { nonce: 0, balance: from_bal, code_hash: B256::default(), code: None });
    db.insert_account_info(TARGET, AccountInfo { nonce: 0, balance: to_bal, code_hash: B256::default(), code: None });
    let mut js = JournaledState::new(SpecId::CANCUN, HashSet::default());
    if key == "SelfTransfer" {
        // value sent from an account to itself: nothing is minted, nothing is burnt
        let r = js.transfer(&CALLER, &CALLER, amount, &mut db).expect("no db error");
        let f = js.state.get(&CALLER).unwrap().info.balance;
        return format!("result={} from_before={} from_after={}", r.map(|x| format!("{x:?}")).unwrap_or("ok".into()), from_bal, f);
    }
    let r = js.transfer(&CALLER, &TARGET, amount, &mut db).expect("no db error");
    let f = js.state.get(&CALLER).unwrap().info.balance;
    let t = js.state.get(&TARGET).unwrap().info.balance;
    format!("result={} from_before={} from_after={} to_before={} to_after={}", r.map(|x| format!("{x:?}")).unwrap_or("ok".into()), from_bal, f,
        if to_bal == U256::MAX { "MAX".to_string() } else { to_bal.to_string() }, if t == U256::MAX { "MAX".to_string() } else { t.to_string() })
}

// ---------------------------------------------------------------- nothing leaks out of a rejected transaction
pub fn evm_leak(func: &str) -> String {
    use revm::primitives::TxKind;
    use revm::Evm;
    let mut db = CacheDB::new(EmptyDB::default());
    db.insert_account_info(CALLER, AccountInfo { nonce: 0, balance: U256::from(1_000_000_000u64), code_hash: B256::default(), code: None });
    let mut evm = Evm::builder()
        .with_db(db)
        .with_spec_id(SpecId::CANCUN)
        .modify_tx_env(|tx| {
            tx.caller = CALLER;
            tx.transact_to = TxKind::Call(TARGET);
            tx.gas_limit = 100_000;
            tx.gas_price = U256::from(1);
            tx.nonce = Some(7); // state nonce is 0: rejected by the state check, after the sender was loaded into the journal
        })
        .build();
    let r = match func {
        "transact" => evm.transact().is_err(),
        "transact_preverified" => evm.transact_preverified().is_err(),
        "preverify_transaction" => evm.preverify_transaction().is_err(),
        _ => panic!("unknown function"),
    };
    format!("journal_accounts_after={} rejected={}", evm.context.evm.inner.journaled_state.state.len(), r)
}

// ---------------------------------------------------------------- inspector call/create notifications are balanced
#[derive(Default)]
struct CountingInspector {
    calls: i64,
    call_ends: i64,
    creates: i64,
    create_ends: i64,
    short_circuit_calls: bool,
    short_circuit_creates: bool,
    eofcreates: i64,
    eofcreate_ends: i64,
    depth: i64,
    max_depth_mismatch: bool,
}
impl<DB: Database> revm::Inspector<DB> for CountingInspector {
    fn call(&mut self, _c: &mut EvmContext<DB>, inputs: &mut CallInputs) -> Option<revm::interpreter::CallOutcome> {
        self.calls += 1;
        self.depth += 1;
        if self.short_circuit_calls && self.calls > 1 {
            use revm::interpreter::{CallOutcome, Gas, InstructionResult, InterpreterResult};
            return Some(CallOutcome::new(
                InterpreterResult::new(InstructionResult::Stop, Bytes::new(), Gas::new(inputs.gas_limit)),
                inputs.return_memory_offset.clone(),
            ));
        }
        None
    }
    fn call_end(&mut self, _c: &mut EvmContext<DB>, _i: &CallInputs, o: revm::interpreter::CallOutcome) -> revm::interpreter::CallOutcome {
        self.call_ends += 1;
        self.depth -= 1;
        if self.depth < 0 {
            self.max_depth_mismatch = true;
        }
        o
    }
    fn create(&mut self, _c: &mut EvmContext<DB>, i: &mut CreateInputs) -> Option<revm::interpreter::CreateOutcome> {
        self.creates += 1;
        if self.short_circuit_creates {
            use revm::interpreter::{CreateOutcome, Gas, InstructionResult, InterpreterResult};
            return Some(CreateOutcome::new(InterpreterResult::new(InstructionResult::Revert, Bytes::new(), Gas::new(i.gas_limit)), None));
        }
        None
    }
    fn eofcreate(&mut self, _c: &mut EvmContext<DB>, _i: &mut revm::interpreter::EOFCreateInputs) -> Option<revm::interpreter::CreateOutcome> {
        self.eofcreates += 1;
        None
    }
    fn eofcreate_end(&mut self, _c: &mut EvmContext<DB>, _i: &revm::interpreter::EOFCreateInputs, o: revm::interpreter::CreateOutcome) -> revm::interpreter::CreateOutcome {
        self.eofcreate_ends += 1;
        o
    }
    fn create_end(&mut self, _c: &mut EvmContext<DB>, _i: &CreateInputs, o: revm::interpreter::CreateOutcome) -> revm::interpreter::CreateOutcome {
        self.create_ends += 1;
        o
    }
}

/// Runs (a) a call into code that itself calls a precompile, an empty account and creates a contract, (b) the same with the
/// inspector short-circuiting inner calls, and reports the notification counts.
pub fn inspector_balance() -> String {
    use revm::primitives::TxKind;
    use revm::{inspector_handle_register, Evm};
    // PUSH1 0 x5 PUSH1 4 GAS CALL POP (call identity precompile); PUSH1 0 x5 PUSH2 0x9999 GAS CALL POP (empty account);
    // PUSH1 0 PUSH1 0 PUSH1 0 CREATE POP; PUSH1 0 PUSH1 0 PUSH1 1 CREATE POP (refused: value 1, balance 0); STOP
    let code: Vec<u8> = vec![
        0x60, 0, 0x60, 0, 0x60, 0, 0x60, 0, 0x60, 0, 0x60, 4, 0x5a, 0xf1, 0x50, //
        0x60, 0, 0x60, 0, 0x60, 0, 0x60, 0, 0x60, 0, 0x61, 0x99, 0x99, 0x5a, 0xf1, 0x50, //
        0x60, 0, 0x60, 0, 0x60, 0, 0xf0, 0x50, //
        0x60, 0, 0x60, 0, 0x60, 1, 0xf0, 0x50, 0x00, // CREATE with value 1 from a contract that owns nothing: refused before a frame exists
    ];
    let mut out = String::new();
    let mut bad = false;
    for (short, short_create, eof_tx) in [(false, false, false), (true, false, false), (false, true, false), (false, false, true)] {
        let mut db = CacheDB::new(EmptyDB::default());
        db.insert_account_info(CALLER, AccountInfo { nonce: 0, balance: U256::from(1_000_000_000u64), code_hash: B256::default(), code: None });
        let bc = Bytecode::new_legacy(Bytes::from(code.clone()));
        db.insert_account_info(TARGET, AccountInfo { nonce: 1, balance: U256::ZERO, code_hash: bc.hash_slow(), code: Some(bc) });
        let insp = CountingInspector { short_circuit_calls: short, short_circuit_creates: short_create, ..Default::default() };
        let mut evm = Evm::builder()
            .with_db(db)
            .with_external_context(insp)
            .with_spec_id(if eof_tx { SpecId::OSAKA } else { SpecId::CANCUN })
            .modify_tx_env(|tx| {
                tx.caller = CALLER;
                tx.gas_limit = 1_000_000;
                tx.gas_price = U256::from(1);
                if eof_tx {
                    // a create transaction whose init code starts with the EOF magic but is not a valid container:
                    // rejected before a frame exists, and must still be reported as eofcreate / eofcreate_end
                    tx.transact_to = TxKind::Create;
                    tx.data = Bytes::from_static(&[0xEF, 0x00, 0x01, 0x02, 0x03]);
                } else {
                    tx.transact_to = TxKind::Call(TARGET);
                }
            })
            .append_handler_register(inspector_handle_register)
            .build();
        let ok = evm.transact().is_ok();
        let i = &evm.context.external;
        if i.calls != i.call_ends || i.creates != i.create_ends || i.eofcreates != i.eofcreate_ends || i.max_depth_mismatch || i.depth != 0 || !ok {
            bad = true;
        }
        out += &format!("[calls_answered={} creates_answered={} eof_create_tx={} ok={} call={}/{} create={}/{} eofcreate={}/{}] ",
            short, short_create, eof_tx, ok, i.calls, i.call_ends, i.creates, i.create_ends, i.eofcreates, i.eofcreate_ends);
    }
    format!("{}{}", if bad { "UNBALANCED " } else { "balanced " }, out)
}

// ---------------------------------------------------------------- is the beneficiary paid after a reconfiguration with rewards off?
pub fn reward_paid(op: &str) -> String {
    if op == "all" {
        // every reconfiguration of a handler built with rewards off that the tool knows; the beneficiary must stay unpaid after each
        let mut out = String::new();
        for o in ["none", "modify_spec_id", "pop_handle_register", "create_handle_generic", "evm_modify_spec_id", "builder_with_spec_id", "builder_modify_build",
                  "builder_append_register", "builder_append_then_spec_id"] {
            let (got, gas) = reward_paid_one(o);
            out += &format!("[reward_paid {} coinbase_received={} gas_used={}{}] ", o, got, gas, if got.is_zero() { "" } else { " MISMATCH" });
        }
        return out;
    }
    let (got, gas) = reward_paid_one(op);
    format!("coinbase_received={} gas_used={}", got, gas)
}

fn reward_paid_one(op: &str) -> (U256, u64) {
    use revm::primitives::TxKind;
    use revm::Evm;
    fn noop(_h: &mut revm::handler::register::EvmHandler<'_, (), CacheDB<EmptyDB>>) {}
    let coinbase = address!("c000000000000000000000000000000000000001");
    let mut db = CacheDB::new(EmptyDB::default());
    db.insert_account_info(CALLER, AccountInfo { nonce: 0, balance: U256::from(1_000_000_000u64), code_hash: B256::default(), code: None });
    let handler: Handler<'_, revm::Context<(), CacheDB<EmptyDB>>, (), CacheDB<EmptyDB>> = Handler::mainnet_with_spec(SpecId::CANCUN, false);
    let mut evm = Evm::builder()
        .with_db(db)
        .with_handler(handler)
        .modify_tx_env(|tx| {
            tx.caller = CALLER;
            tx.transact_to = TxKind::Call(TARGET);
            tx.gas_limit = 100_000;
            tx.gas_price = U256::from(10);
        })
        .modify_block_env(|b| {
            b.coinbase = coinbase;
            b.basefee = U256::ZERO;
        })
        .build();
    match op {
        "none" => {}
        "modify_spec_id" => evm.handler.modify_spec_id(SpecId::SHANGHAI),
        "pop_handle_register" => {
            evm.handler.append_handler_register_plain(noop);
            let _ = evm.handler.pop_handle_register();
        }
        "create_handle_generic" => {
            evm.handler = evm.handler.create_handle_generic::<revm::primitives::ShanghaiSpec>();
        }
        "evm_modify_spec_id" => evm.modify_spec_id(SpecId::SHANGHAI),
        "builder_with_spec_id" => evm = evm.modify().with_spec_id(SpecId::SHANGHAI).build(),
        "builder_modify_build" => evm = evm.modify().modify_tx_env(|tx| tx.nonce = None).build(),
        "builder_append_register" => evm = evm.modify().append_handler_register(noop).build(),
        "builder_append_then_spec_id" => evm = evm.modify().append_handler_register(noop).with_spec_id(SpecId::SHANGHAI).build(),
        _ => panic!("unknown op"),
    }
    let r = evm.transact().expect("tx runs");
    let got = r.state.get(&coinbase).map(|a| a.info.balance).unwrap_or(U256::ZERO);
    (got, r.result.gas_used())
}

/// The same transaction (it reads the beneficiary's balance) with rewards on and off, per fork: everything but the beneficiary's balance must agree.
pub fn reward_differential() -> String {
    use revm::primitives::TxKind;
    use revm::Evm;
    let coinbase = address!("c000000000000000000000000000000000000001");
    let mut out = String::new();
    for spec in [SpecId::BERLIN, SpecId::LONDON, SpecId::SHANGHAI, SpecId::CANCUN, SpecId::PRAGUE] {
        let mut res = Vec::new();
        for flag in [true, false] {
            let mut db = CacheDB::new(EmptyDB::default());
            db.insert_account_info(CALLER, AccountInfo { nonce: 0, balance: U256::from(1_000_000_000u64), code_hash: B256::default(), code: None });
            // COINBASE BALANCE POP, COINBASE EXTCODESIZE POP, PUSH0-free: PUSH1 1 PUSH1 0 SSTORE, STOP
            let code = Bytecode::new_legacy(Bytes::from_static(&[0x41, 0x31, 0x50, 0x41, 0x3b, 0x50, 0x60, 0x01, 0x60, 0x00, 0x55, 0x00]));
            db.insert_account_info(TARGET, AccountInfo { nonce: 1, balance: U256::ZERO, code_hash: code.hash_slow(), code: Some(code) });
            let handler: Handler<'_, revm::Context<(), CacheDB<EmptyDB>>, (), CacheDB<EmptyDB>> = Handler::mainnet_with_spec(spec, flag);
            let mut evm = Evm::builder()
                .with_db(db)
                .with_handler(handler)
                .modify_tx_env(|tx| {
                    tx.caller = CALLER;
                    tx.transact_to = TxKind::Call(TARGET);
                    tx.gas_limit = 200_000;
                    tx.gas_price = U256::from(10);
                })
                .modify_block_env(|b| {
                    b.coinbase = coinbase;
                    b.basefee = U256::from(1);
                })
                .build();
            let r = evm.transact().expect("tx runs");
            let mut accounts: Vec<String> = r.state.iter().filter(|(a, _)| **a != coinbase).map(|(a, acc)| {
                let mut st: Vec<String> = acc.storage.iter().map(|(k, v)| format!("{k}={}", v.present_value)).collect();
                st.sort();
                format!("{a}:bal={} nonce={} storage={}", acc.info.balance, acc.info.nonce, st.join(","))
            }).collect();
            accounts.sort();
            res.push((r.result.gas_used(), format!("{:?}", r.result.is_success()), accounts.join(";"), r.state.get(&coinbase).map(|a| a.info.balance).unwrap_or(U256::ZERO)));
        }
        let same = res[0].0 == res[1].0 && res[0].1 == res[1].1 && res[0].2 == res[1].2;
        let unpaid = res[1].3.is_zero();
        out += &format!("[reward_differential {:?} gas_on={} gas_off={} beneficiary_on={} beneficiary_off={}{}] ", spec, res[0].0, res[1].0, res[0].3, res[1].3,
            if same && unpaid { "" } else { " MISMATCH" });
    }
    out
}

// ---------------------------------------------------------------- selfdestruct twice with value in between conserves ether
pub fn selfdestruct_sum() -> String {
    let other = address!("3000000000000000000000000000000000000003");
    let mut db = CacheDB::new(EmptyDB::default());
    db.insert_account_info(CALLER, AccountInfo { nonce: 0, balance: U256::from(100), code_hash: B256::default(), code: None });
    db.insert_account_info(TARGET, AccountInfo { nonce: 1, balance: U256::from(7), code_hash: B256::default(), code: None });
    db.insert_account_info(other, AccountInfo { nonce: 0, balance: U256::from(1), code_hash: B256::default(), code: None });
    let mut js = JournaledState::new(SpecId::SHANGHAI, HashSet::default());
    for a in [CALLER, TARGET, other] {
        let _ = js.load_account(a, &mut db);
    }
    let total = |js: &JournaledState| [CALLER, TARGET, other].iter().fold(U256::ZERO, |s, a| s + js.state.get(a).unwrap().info.balance);
    let before = total(&js);
    js.selfdestruct(TARGET, other, &mut db).expect("no db error");
    js.transfer(&CALLER, &TARGET, U256::from(4), &mut db).expect("no db error");
    js.selfdestruct(TARGET, other, &mut db).expect("no db error");
    format!("total_before={} total_after={}", before, total(&js))
}

// ---------------------------------------------------------------- exact gas limit with a refund: the refunded gas is paid back
pub fn reimburse_exact_gas() -> String {
    use revm::handler::mainnet::reimburse_caller;
    use revm::interpreter::Gas;
    use revm::primitives::CancunSpec;
    let mut db = CacheDB::new(EmptyDB::default());
    db.insert_account_info(CALLER, AccountInfo { nonce: 0, balance: U256::from(1000), code_hash: B256::default(), code: None });
    let mut ctx: revm::Context<(), CacheDB<EmptyDB>> = revm::Context::new(EvmContext::new(db), ());
    ctx.evm.inner.env.tx.caller = CALLER;
    ctx.evm.inner.env.tx.gas_price = U256::from(10);
    let mut g = Gas::new(50_000);
    let _ = g.record_cost(50_000); // everything spent ...
    g.record_refund(4_800); // ... but a refund was earned
    reimburse_caller::<CancunSpec, (), CacheDB<EmptyDB>>(&mut ctx, &g).expect("no db error");
    // a caller that was never loaded received nothing: its balance is still the one in the database
    let bal = ctx.evm.inner.journaled_state.state.get(&CALLER).map(|a| a.info.balance).unwrap_or(U256::from(1000));
    let want = U256::from(1000 + 10 * 4_800);
    format!("caller_balance={} expected={} lost={}", bal, want, want.saturating_sub(bal))
}

// ---------------------------------------------------------------- every return site of the frame functions
/// Runs every scenario of `func` and reports each as `name:before->after:kind`; the caller looks for an unbalanced one.
pub fn frame_depth_all(func: &str) -> String {
    let names: &[&str] = match func {
        "make_call_frame" => &["CallTooDeep", "InvalidExtDelegateCallTarget", "Stop", "OutOfFunds", "frame", "PrecompileOk", "PrecompileFail", "PrecompileFailValue"],
        "make_create_frame" => &["CallTooDeep", "CreateInitCodeStartingEF00", "OutOfFunds", "Return", "frame"],
        "call_return" => &["ok", "revert", "halt"],
        "create_return" => &["ok", "revert", "halt", "frontier_deposit_oog", "homestead_deposit_oog", "size_limit", "starts_with_ef"],
        _ => &[],
    };
    let mut out = String::new();
    for n in names {
        let r = std::panic::catch_unwind(|| match func {
            "make_call_frame" if n.starts_with("Precompile") => precompile_call_depth(n),
            "make_call_frame" | "make_create_frame" => frame_depth(func, n),
            _ => return_depth(func, n),
        });
        out += &format!("[{} {}] ", n, r.unwrap_or_else(|_| "panicked".into()));
    }
    out
}

fn precompile_call_depth(key: &str) -> String {
    use revm::precompile::PrecompileSpecId;
    use revm::ContextPrecompiles;
    let mut c = ctx(SpecId::CANCUN, 10, None, 0);
    c.set_precompiles(ContextPrecompiles::new(PrecompileSpecId::CANCUN));
    let sha = address!("0000000000000000000000000000000000000002");
    let (gas, value) = match key {
        "PrecompileOk" => (100_000u64, CallValue::Transfer(U256::ZERO)),
        "PrecompileFail" => (0, CallValue::Transfer(U256::ZERO)),
        _ => (0, CallValue::Transfer(U256::from(1))),
    };
    let inputs = CallInputs {
        input: Bytes::new(), gas_limit: gas, bytecode_address: sha, target_address: sha, caller: CALLER, value,
        scheme: CallScheme::Call, is_eof: false, is_static: false, return_memory_offset: 0..0,
    };
    let before = c.inner.journaled_state.depth;
    let r = c.make_call_frame(&inputs).expect("no db error");
    format!("before={} after={} kind={}", before, c.inner.journaled_state.depth, kind(&r))
}

fn return_depth(func: &str, key: &str) -> String {
    use revm::interpreter::{Gas, InstructionResult, InterpreterResult};
    use revm::primitives::{FrontierSpec, HomesteadSpec, LondonSpec, SpuriousDragonSpec};
    let mut c = ctx(SpecId::CANCUN, 10, None, 0);
    let _ = c.inner.journaled_state.load_account(TARGET, &mut c.inner.db);
    let cp = c.inner.journaled_state.checkpoint();
    let before = c.inner.journaled_state.depth;
    let mk = |res: InstructionResult, out: Vec<u8>, gas_left: u64| {
        let mut g = Gas::new(100_000_000);
        let _ = g.record_cost(100_000_000 - gas_left);
        InterpreterResult::new(res, Bytes::from(out), g)
    };
    match func {
        "call_return" => {
            let r = match key {
                "ok" => mk(InstructionResult::Stop, vec![], 1000),
                "revert" => mk(InstructionResult::Revert, vec![], 1000),
                _ => mk(InstructionResult::OutOfGas, vec![], 0),
            };
            c.inner.call_return(&r, cp);
        }
        _ => {
            let (mut r, which) = match key {
                "ok" => (mk(InstructionResult::Return, vec![0x00; 4], 100_000), 0),
                "revert" => (mk(InstructionResult::Revert, vec![], 1000), 0),
                "halt" => (mk(InstructionResult::OutOfGas, vec![], 0), 0),
                "frontier_deposit_oog" => (mk(InstructionResult::Return, vec![0x00; 10], 0), 1),
                "homestead_deposit_oog" => (mk(InstructionResult::Return, vec![0x00; 10], 0), 2),
                "size_limit" => (mk(InstructionResult::Return, vec![0x00; 0x6001], 10_000_000), 3),
                _ => (mk(InstructionResult::Return, vec![0xEF, 0x00], 100_000), 4),
            };
            match which {
                1 => c.inner.create_return::<FrontierSpec>(&mut r, TARGET, cp),
                2 => c.inner.create_return::<HomesteadSpec>(&mut r, TARGET, cp),
                3 => c.inner.create_return::<SpuriousDragonSpec>(&mut r, TARGET, cp),
                _ => c.inner.create_return::<LondonSpec>(&mut r, TARGET, cp),
            }
        }
    }
    format!("before={} after={} kind=return", before, c.inner.journaled_state.depth)
}


// ---------------------------------------------------------------- JournaledState::clear leaves nothing behind
pub fn journal_clear_leak() -> String {
    let mut db = CacheDB::new(EmptyDB::default());
    db.insert_account_info(CALLER, AccountInfo { nonce: 0, balance: U256::from(10), code_hash: B256::default(), code: None });
    let mut warm = HashSet::default();
    warm.insert(TARGET);
    let mut js = JournaledState::new(SpecId::CANCUN, warm);
    let _ = js.load_account(CALLER, &mut db);
    js.tstore(CALLER, U256::from(1), U256::from(2));
    js.depth = 3;
    js.clear();
    let leaked = js.state.len() + js.transient_storage.len() + js.logs.len() + js.warm_preloaded_addresses.len() + js.depth
        + js.journal.iter().map(|j| j.len()).sum::<usize>();
    format!("leaked={} (state={} transient={} warm={} depth={})", leaked, js.state.len(), js.transient_storage.len(), js.warm_preloaded_addresses.len(), js.depth)
}

// ---------------------------------------------------------------- EIP-7623: gas used is at least the calldata floor, also when a refund was earned
pub fn floor_gas_used() -> String {
    use revm::primitives::TxKind;
    use revm::Evm;
    // PUSH1 0 PUSH1 1 SSTORE STOP on a slot holding 1: clears it (refund 4800)
    let code = Bytecode::new_legacy(Bytes::from_static(&[0x60, 0x00, 0x60, 0x01, 0x55, 0x00]));
    let mut db = CacheDB::new(EmptyDB::default());
    db.insert_account_info(CALLER, AccountInfo { nonce: 0, balance: U256::from(1_000_000_000u64), code_hash: B256::default(), code: None });
    db.insert_account_info(TARGET, AccountInfo { nonce: 1, balance: U256::ZERO, code_hash: code.hash_slow(), code: Some(code) });
    db.insert_account_storage(TARGET, U256::from(1), U256::from(1)).unwrap();
    let data = vec![0xffu8; 100];
    let floor = 21_000 + 10 * 4 * 100u64;
    let mut evm = Evm::builder()
        .with_db(db)
        .with_spec_id(SpecId::PRAGUE)
        .modify_tx_env(|tx| {
            tx.caller = CALLER;
            tx.transact_to = TxKind::Call(TARGET);
            tx.gas_limit = 100_000;
            tx.gas_price = U256::from(1);
            tx.data = Bytes::from(data);
        })
        .build();
    let r = evm.transact().expect("tx runs");
    format!("gas_used={} floor={}", r.result.gas_used(), floor)
}

// ---------------------------------------------------------------- the beneficiary receives (effective price - base fee) x gas used
pub fn reward_amount() -> String {
    use revm::primitives::TxKind;
    use revm::Evm;
    let coinbase = address!("c000000000000000000000000000000000000001");
    let mut db = CacheDB::new(EmptyDB::default());
    db.insert_account_info(CALLER, AccountInfo { nonce: 0, balance: U256::from(1_000_000_000u64), code_hash: B256::default(), code: None });
    let mut evm = Evm::builder()
        .with_db(db)
        .with_spec_id(SpecId::CANCUN)
        .modify_tx_env(|tx| {
            tx.caller = CALLER;
            tx.transact_to = TxKind::Call(TARGET);
            tx.gas_limit = 100_000;
            tx.gas_price = U256::from(10); // fee cap
            tx.gas_priority_fee = Some(U256::from(5)); // tip, clipped by the cap: effective = min(10, 7 + 5) = 10
        })
        .modify_block_env(|b| {
            b.coinbase = coinbase;
            b.basefee = U256::from(7);
        })
        .build();
    let r = evm.transact().expect("tx runs");
    let got = r.state.get(&coinbase).map(|a| a.info.balance).unwrap_or(U256::ZERO);
    format!("coinbase_received={} expected={}", got, (10 - 7) * r.result.gas_used())
}

// ---------------------------------------------------------------- value-bearing CALL / EXTCALL in a static frame, values in every limb
pub fn static_value_call(op: &str) -> String {
    use revm::interpreter::instructions::contract;
    use revm::interpreter::InstructionResult;
    use revm::primitives::LatestSpec;
    let mut out = String::new();
    for (name, v) in [("1", U256::from(1)), ("2^64", U256::from(1) << 64), ("2^128", U256::from(1) << 128), ("2^192", U256::from(1) << 192), ("2^255", U256::from(1) << 255)] {
        let mut host = DummyHost::new(Env::default());
        let mut it = Interpreter::new(Contract::default(), 1_000_000, true);
        it.is_eof = op == "extcall";
        for _ in 0..6 {
            it.stack.push(U256::ZERO).unwrap();
        }
        match op {
            // CALL pops gas, to, value, ...: value is the third word from the top
            "call" => {
                it.stack.push(v).unwrap();
                it.stack.push(U256::from(0x1234)).unwrap();
                it.stack.push(U256::from(50_000)).unwrap();
                contract::call::<DummyHost, LatestSpec>(&mut it, &mut host)
            }
            // EXTCALL pops target, input offset, input size, value
            _ => {
                it.stack.push(v).unwrap();
                it.stack.push(U256::ZERO).unwrap();
                it.stack.push(U256::ZERO).unwrap();
                it.stack.push(U256::from(0x1234)).unwrap();
                contract::extcall::<DummyHost, LatestSpec>(&mut it, &mut host)
            }
        }
        let ok = it.instruction_result == InstructionResult::CallNotAllowedInsideStatic;
        out += &format!("[value={} {}] ", name, if ok { "rejected".to_string() } else { format!("ACCEPTED({:?})", it.instruction_result) });
    }
    out
}

// ---------------------------------------------------------------- CacheDB reads against the data it wraps
/// Inner database: account ADDR exists with slot 1 = 7 and block 5 -> hash 0x55..; account OTHER does not exist but (oddly) has slot 1 = 9.
#[derive(Default, Clone)]
pub struct InnerRef;
impl revm::DatabaseRef for InnerRef {
    type Error = core::convert::Infallible;
    fn basic_ref(&self, a: Address) -> Result<Option<AccountInfo>, Self::Error> {
        Ok(if a == CALLER { Some(AccountInfo { nonce: 1, balance: U256::from(5), code_hash: revm::primitives::KECCAK_EMPTY, code: None }) } else { None })
    }
    fn code_by_hash_ref(&self, h: B256) -> Result<Bytecode, Self::Error> {
        Ok(if h == B256::repeat_byte(0xc0) { Bytecode::new_legacy(Bytes::from_static(&[0x60, 0x01, 0x00])) } else { Bytecode::default() })
    }
    fn storage_ref(&self, a: Address, i: U256) -> Result<U256, Self::Error> {
        Ok(if i == U256::from(1) { if a == CALLER { U256::from(7) } else { U256::from(9) } } else { U256::ZERO })
    }
    fn block_hash_ref(&self, n: u64) -> Result<B256, Self::Error> {
        Ok(B256::repeat_byte(n as u8))
    }
}

pub fn cachedb_read_policy() -> String {
    use revm::db::{AccountState, DbAccount};
    use revm::{Database, DatabaseRef};
    let mut out = String::new();
    let one = U256::from(1);
    let states = [("NotExisting", AccountState::NotExisting, 0u64), ("Touched", AccountState::Touched, 7), ("StorageCleared", AccountState::StorageCleared, 0), ("None", AccountState::None, 7)];
    for (sn, st, want) in states {
        for cached_slot in [false, true] {
            let mut db = CacheDB::new(InnerRef);
            let mut acc = DbAccount { info: AccountInfo::default(), account_state: st.clone(), storage: Default::default() };
            if cached_slot {
                acc.storage.insert(one, U256::from(3));
            }
            db.accounts.insert(CALLER, acc);
            let want = if cached_slot { 3 } else { want };
            let r = db.storage_ref(CALLER, one).unwrap();
            out += &format!("[storage_ref state={} cached_slot={} got={} want={}{}] ", sn, cached_slot, r, want, if r == U256::from(want) { "" } else { " MISMATCH" });
            let m = db.storage(CALLER, one).unwrap();
            let again = db.storage(CALLER, one).unwrap();
            out += &format!("[storage state={} cached_slot={} got={} again={} want={}{}] ", sn, cached_slot, m, again, want, if m == U256::from(want) && again == m { "" } else { " MISMATCH" });
        }
    }
    // account not cached: existing inner account reads through, a non-existing one answers zero (Database) / reads through (DatabaseRef)
    let mut db = CacheDB::new(InnerRef);
    let r = db.storage_ref(CALLER, one).unwrap();
    out += &format!("[storage_ref uncached existing got={} want=7{}] ", r, if r == U256::from(7) { "" } else { " MISMATCH" });
    let m = db.storage(CALLER, one).unwrap();
    let again = db.storage(CALLER, one).unwrap();
    out += &format!("[storage uncached existing got={} again={} want=7{}] ", m, again, if m == U256::from(7) && again == m { "" } else { " MISMATCH" });
    let other = Address::repeat_byte(0x77);
    let m = db.storage(other, one).unwrap();
    out += &format!("[storage uncached missing got={} want=0{}] ", m, if m == U256::ZERO { "" } else { " MISMATCH" });
    // account info: a cached account answers itself (absent iff NotExisting), an uncached one is the wrapped database's
    {
        let infox = AccountInfo { nonce: 9, balance: U256::from(42), code_hash: revm::primitives::KECCAK_EMPTY, code: None };
        for (sn, st, want_some) in [("NotExisting", AccountState::NotExisting, false), ("Touched", AccountState::Touched, true), ("StorageCleared", AccountState::StorageCleared, true), ("None", AccountState::None, true)] {
            let mut db = CacheDB::new(InnerRef);
            db.accounts.insert(CALLER, DbAccount { info: infox.clone(), account_state: st, storage: Default::default() });
            let r = db.basic_ref(CALLER).unwrap();
            let m = db.basic(CALLER).unwrap();
            let ok = r == m && r.is_some() == want_some && (r.is_none() || r == Some(infox.clone()));
            out += &format!("[basic_ref state={} some={}{}] [info state={} some={}{}] ", sn, r.is_some(), if ok { "" } else { " MISMATCH" }, sn, r.is_some(), if ok { "" } else { " MISMATCH" });
        }
        let db = CacheDB::new(InnerRef);
        let r = db.basic_ref(CALLER).unwrap();
        let z = db.basic_ref(Address::repeat_byte(0x77)).unwrap();
        let ok = matches!(&r, Some(i) if i.nonce == 1 && i.balance == U256::from(5)) && z.is_none();
        out += &format!("[basic_ref uncached existing={} missing={}{}] ", r.is_some(), z.is_some(), if ok { "" } else { " MISMATCH" });
    }
    // contract code: read through, repeated read, cached entry wins
    {
        let h = B256::repeat_byte(0xc0);
        let want = Bytecode::new_legacy(Bytes::from_static(&[0x60, 0x01, 0x00]));
        let mut db = CacheDB::new(InnerRef);
        let c1 = db.code_by_hash_ref(h).unwrap();
        let c2 = db.code_by_hash(h).unwrap();
        let c3 = db.code_by_hash(h).unwrap();
        let c4 = db.code_by_hash_ref(h).unwrap();
        let okc = c1 == want && c2 == want && c3 == want && c4 == want;
        out += &format!("[code_by_hash inner {}] [code_by_hash_ref inner {}] ", if okc { "ok" } else { "MISMATCH" }, if okc { "ok" } else { "MISMATCH" });
        let other = Bytecode::new_legacy(Bytes::from_static(&[0x5b]));
        db.contracts.insert(B256::repeat_byte(0xc1), other.clone());
        let d1 = db.code_by_hash_ref(B256::repeat_byte(0xc1)).unwrap();
        let d2 = db.code_by_hash(B256::repeat_byte(0xc1)).unwrap();
        let okd = d1 == other && d2 == other;
        out += &format!("[code_by_hash cached {}] [code_by_hash_ref cached {}] ", if okd { "ok" } else { "MISMATCH" }, if okd { "ok" } else { "MISMATCH" });
    }
    // block hashes: first read, repeated read, read through a shared reference after caching
    let mut db = CacheDB::new(InnerRef);
    let h1 = db.block_hash_ref(5).unwrap();
    let h2 = db.block_hash(5).unwrap();
    let h3 = db.block_hash(5).unwrap();
    let h4 = db.block_hash_ref(5).unwrap();
    let okh = h1 == B256::repeat_byte(5) && h2 == h1 && h3 == h1 && h4 == h1;
    out += &format!("[block_hash 5 {}] [block_hash_ref 5 {}] ", if okh { "ok" } else { "MISMATCH" }, if okh { "ok" } else { "MISMATCH" });
    db.block_hashes.insert(U256::from(6), B256::repeat_byte(0xAA));
    let c1 = db.block_hash_ref(6).unwrap();
    let c2 = db.block_hash(6).unwrap();
    let okc = c1 == B256::repeat_byte(0xAA) && c2 == c1;
    out += &format!("[block_hash cached {}] [block_hash_ref cached {}] ", if okc { "ok" } else { "MISMATCH" }, if okc { "ok" } else { "MISMATCH" });
    out
}

// ---------------------------------------------------------------- cold / warm reporting of load_account, sload and transaction-level pre-warming
pub fn warm_kernel() -> String {
    use revm::primitives::{Env, TxKind};
    use revm::Evm;
    let mut out = String::new();
    let pre = address!("0000000000000000000000000000000000000004");
    let mut warm = HashSet::default();
    warm.insert(pre);
    // ---- load_account
    let mut db = CacheDB::new(EmptyDB::default());
    db.insert_account_info(CALLER, AccountInfo { nonce: 1, balance: U256::from(5), code_hash: B256::default(), code: None });
    db.insert_account_storage(CALLER, U256::from(1), U256::from(7)).unwrap();
    let mut js = JournaledState::new(SpecId::CANCUN, warm.clone());
    let j0 = js.journal.last().unwrap().len();
    let c1 = js.load_account(CALLER, &mut db).unwrap().is_cold;
    let j1 = js.journal.last().unwrap().len();
    let c2 = js.load_account(CALLER, &mut db).unwrap().is_cold;
    let j2 = js.journal.last().unwrap().len();
    let ok = c1 && !c2 && j1 == j0 + 1 && j2 == j1 && matches!(js.journal.last().unwrap()[j0], revm::JournalEntry::AccountWarmed { address } if address == CALLER);
    out += &format!("[load_account first={} second={} journal={}->{}->{}{}] ", c1, c2, j0, j1, j2, if ok { "" } else { " MISMATCH" });
    let p1 = js.load_account(pre, &mut db).unwrap().is_cold;
    let j3 = js.journal.last().unwrap().len();
    out += &format!("[load_account preloaded first={} journal={}{}] ", p1, j3, if !p1 && j3 == j2 { "" } else { " MISMATCH" });
    let missing = address!("00000000000000000000000000000000000000aa");
    let m1 = js.load_account(missing, &mut db).unwrap().is_cold;
    let m2 = js.load_account(missing, &mut db).unwrap().is_cold;
    out += &format!("[load_account missing first={} second={}{}] ", m1, m2, if m1 && !m2 { "" } else { " MISMATCH" });
    // a cold mark set by a revert is reported and cleared once
    js.state.get_mut(&CALLER).unwrap().mark_cold();
    let r1 = js.load_account(CALLER, &mut db).unwrap().is_cold;
    let r2 = js.load_account(CALLER, &mut db).unwrap().is_cold;
    out += &format!("[load_account re-cooled first={} second={}{}] ", r1, r2, if r1 && !r2 { "" } else { " MISMATCH" });
    // ---- sload
    let j0 = js.journal.last().unwrap().len();
    let s1 = js.sload(CALLER, U256::from(1), &mut db).unwrap();
    let j1 = js.journal.last().unwrap().len();
    let s2 = js.sload(CALLER, U256::from(1), &mut db).unwrap();
    let j2 = js.journal.last().unwrap().len();
    let ok = s1.is_cold && !s2.is_cold && s1.data == U256::from(7) && s2.data == U256::from(7) && j1 == j0 + 1 && j2 == j1
        && matches!(js.journal.last().unwrap()[j0], revm::JournalEntry::StorageWarmed { address, key } if address == CALLER && key == U256::from(1));
    out += &format!("[sload first=({},{}) second=({},{}) journal={}->{}->{}{}] ", s1.data, s1.is_cold, s2.data, s2.is_cold, j0, j1, j2, if ok { "" } else { " MISMATCH" });
    // changed present value is what a repeated read returns
    js.state.get_mut(&CALLER).unwrap().storage.get_mut(&U256::from(1)).unwrap().present_value = U256::from(9);
    let s3 = js.sload(CALLER, U256::from(1), &mut db).unwrap();
    out += &format!("[sload present value got={}{}] ", s3.data, if s3.data == U256::from(9) && !s3.is_cold { "" } else { " MISMATCH" });
    js.state.get_mut(&CALLER).unwrap().storage.get_mut(&U256::from(1)).unwrap().mark_cold();
    let jr0 = js.journal.last().unwrap().len();
    let s4 = js.sload(CALLER, U256::from(1), &mut db).unwrap();
    let jr1 = js.journal.last().unwrap().len();
    let s5 = js.sload(CALLER, U256::from(1), &mut db).unwrap();
    out += &format!("[sload re-cooled first={} second={} journal={}->{}{}] ", s4.is_cold, s5.is_cold, jr0, jr1, if s4.is_cold && !s5.is_cold && jr1 == jr0 + 1 { "" } else { " MISMATCH" });
    // an account created in this transaction reads zero without asking the database
    js.state.get_mut(&CALLER).unwrap().mark_created();
    let jc0 = js.journal.last().unwrap().len();
    let s6 = js.sload(CALLER, U256::from(2), &mut db).unwrap();
    db.insert_account_storage(CALLER, U256::from(3), U256::from(8)).unwrap();
    let s7 = js.sload(CALLER, U256::from(3), &mut db).unwrap();
    let jc1 = js.journal.last().unwrap().len();
    let s8 = js.sload(CALLER, U256::from(3), &mut db).unwrap();
    let okc = s6.data.is_zero() && s6.is_cold && s7.data.is_zero() && s7.is_cold && !s8.is_cold && jc1 == jc0 + 2;
    out += &format!("[sload created slot2=({},{}) slot3=({},{}) again={} journal={}->{}{}] ", s6.data, s6.is_cold, s7.data, s7.is_cold, s8.is_cold, jc0, jc1, if okc { "" } else { " MISMATCH" });
    // ---- initial_account_load: every listed key ends up loaded (warm), whether or not the account was already in the state
    {
        let mut db = CacheDB::new(EmptyDB::default());
        db.insert_account_info(CALLER, AccountInfo { nonce: 1, balance: U256::from(5), code_hash: B256::default(), code: None });
        db.insert_account_storage(CALLER, U256::from(1), U256::from(7)).unwrap();
        db.insert_account_storage(CALLER, U256::from(2), U256::from(8)).unwrap();
        let mut js = JournaledState::new(SpecId::CANCUN, HashSet::default());
        let _ = js.initial_account_load(CALLER, [U256::from(1)], &mut db).unwrap();
        let _ = js.initial_account_load(CALLER, [U256::from(2)], &mut db).unwrap(); // second access-list item for the same address
        let a = js.sload(CALLER, U256::from(1), &mut db).unwrap();
        let b = js.sload(CALLER, U256::from(2), &mut db).unwrap();
        out += &format!("[initial_account_load same address twice key1=({},{}) key2=({},{}){}] ", a.data, a.is_cold, b.data, b.is_cold,
            if !a.is_cold && !b.is_cold && a.data == U256::from(7) && b.data == U256::from(8) { "" } else { " MISMATCH" });
        let mut js = JournaledState::new(SpecId::CANCUN, HashSet::default());
        let _ = js.load_account(CALLER, &mut db).unwrap(); // e.g. the sender, loaded during validation
        let _ = js.initial_account_load(CALLER, [U256::from(1)], &mut db).unwrap();
        let a = js.sload(CALLER, U256::from(1), &mut db).unwrap();
        out += &format!("[initial_account_load already loaded account key1=({},{}){}] ", a.data, a.is_cold, if !a.is_cold && a.data == U256::from(7) { "" } else { " MISMATCH" });
        // a slot that is already present keeps its (possibly written) value
        js.state.get_mut(&CALLER).unwrap().storage.get_mut(&U256::from(1)).unwrap().present_value = U256::from(9);
        let _ = js.initial_account_load(CALLER, [U256::from(1)], &mut db).unwrap();
        let a = js.sload(CALLER, U256::from(1), &mut db).unwrap();
        out += &format!("[initial_account_load present slot kept got={}{}] ", a.data, if a.data == U256::from(9) { "" } else { " MISMATCH" });
        let missing = address!("00000000000000000000000000000000000000ab");
        let acc_status = { let acc = js.initial_account_load(missing, [U256::from(3)], &mut db).unwrap(); acc.is_loaded_as_not_existing() };
        let c = js.sload(missing, U256::from(3), &mut db).unwrap();
        out += &format!("[initial_account_load missing account not_existing={} key3=({},{}){}] ", acc_status, c.data, c.is_cold, if acc_status && !c.is_cold && c.data.is_zero() { "" } else { " MISMATCH" });
    }
    // ---- load_accounts: what is pre-warmed per fork
    for (spec, want_cb, want_bh) in [(SpecId::LONDON, false, false), (SpecId::MERGE, false, false), (SpecId::SHANGHAI, true, false), (SpecId::CANCUN, true, false), (SpecId::PRAGUE, true, true)] {
        let mut db = CacheDB::new(EmptyDB::default());
        db.insert_account_info(CALLER, AccountInfo { nonce: 0, balance: U256::from(1_000_000_000u64), code_hash: B256::default(), code: None });
        let coinbase = address!("00000000000000000000000000000000000000cb");
        let mut evm = Evm::builder().with_db(db).with_spec_id(spec).modify_env(|e: &mut Box<Env>| {
            e.block.coinbase = coinbase;
            e.tx.caller = CALLER;
            e.tx.transact_to = TxKind::Call(TARGET);
            e.tx.gas_limit = 100_000;
        }).build();
        let h = evm.handler.pre_execution().load_accounts.clone();
        let r = h(&mut evm.context);
        let set = &evm.context.evm.journaled_state.warm_preloaded_addresses;
        let (cb, bh) = (set.contains(&coinbase), set.contains(&revm::primitives::BLOCKHASH_STORAGE_ADDRESS));
        let others = set.len() - cb as usize - bh as usize;
        out += &format!("[load_accounts {:?} ok={} coinbase={} blockhash={} others={}{}] ", spec, r.is_ok(), cb, bh, others, if cb == want_cb && bh == want_bh && others == 0 && r.is_ok() { "" } else { " MISMATCH" });
    }
    out
}

// ---------------------------------------------------------------- create onto an address whose storage is non-empty (EIP-7610)
/// Database whose every address has storage; the target's account info is chosen per scenario.
#[derive(Clone)]
pub struct StorageEverywhere(pub Option<AccountInfo>, pub Address);
impl Database for StorageEverywhere {
    type Error = core::convert::Infallible;
    fn basic(&mut self, a: Address) -> Result<Option<AccountInfo>, Self::Error> {
        if a == CALLER {
            return Ok(Some(AccountInfo { nonce: 0, balance: U256::from(1_000_000u64), code_hash: revm::primitives::KECCAK_EMPTY, code: None }));
        }
        Ok(if a == self.1 { self.0.clone() } else { None })
    }
    fn code_by_hash(&mut self, _h: B256) -> Result<Bytecode, Self::Error> {
        Ok(Bytecode::default())
    }
    fn has_storage(&mut self, _a: Address) -> Result<bool, Self::Error> {
        Ok(true)
    }
    fn storage(&mut self, _a: Address, _i: U256) -> Result<U256, Self::Error> {
        Ok(U256::from(7))
    }
    fn block_hash(&mut self, _n: u64) -> Result<B256, Self::Error> {
        Ok(B256::ZERO)
    }
}

/// Runs the create path `func` onto a target that has storage (database says so) in three account shapes; every one must collide.
pub fn create_collision(func: &str) -> String {
    use revm::interpreter::{EOFCreateInputs, EOFCreateKind, InstructionResult};
    use revm::primitives::Eof;
    let mut out = String::new();
    let shapes: [(&str, Option<AccountInfo>); 3] = [
        ("absent", None),
        ("empty", Some(AccountInfo { nonce: 0, balance: U256::ZERO, code_hash: revm::primitives::KECCAK_EMPTY, code: None })),
        ("funded", Some(AccountInfo { nonce: 0, balance: U256::from(5), code_hash: revm::primitives::KECCAK_EMPTY, code: None })),
    ];
    for (name, info) in shapes {
        let created = if func == "make_create_frame" { CALLER.create(0) } else { address!("00000000000000000000000000000000000000ee") };
        let mut c = EvmContext::new(StorageEverywhere(info, created));
        c.inner.journaled_state = JournaledState::new(SpecId::OSAKA, HashSet::default());
        let _ = c.inner.journaled_state.load_account(CALLER, &mut c.inner.db);
        if name == "funded" {
            // this shape is tried with the target already warm (access list, an earlier BALANCE, a retried CREATE2)
            let _ = c.inner.journaled_state.load_account(created, &mut c.inner.db);
        }
        let r = if func == "make_create_frame" {
            let inputs = CreateInputs { caller: CALLER, scheme: CreateScheme::Create, value: U256::ZERO, init_code: Bytes::from_static(&[0x00]), gas_limit: 100_000 };
            c.make_create_frame(SpecId::OSAKA, &inputs).expect("no db error")
        } else {
            let inputs = EOFCreateInputs { caller: CALLER, value: U256::ZERO, gas_limit: 100_000, kind: EOFCreateKind::Opcode { initcode: Eof::default(), input: Bytes::new(), created_address: created } };
            c.make_eofcreate_frame(SpecId::OSAKA, &inputs).expect("no db error")
        };
        let res = match &r {
            FrameOrResult::Result(fr) => format!("{:?}", fr.interpreter_result().result),
            FrameOrResult::Frame(_) => "frame".to_string(),
        };
        let ok = res == format!("{:?}", InstructionResult::CreateCollision);
        out += &format!("[{} target={} outcome={}{}] ", func, name, res, if ok { "" } else { " MISMATCH" });
    }
    out
}

// ---------------------------------------------------------------- the depth limit: a frame requested at journal depth 1024 is entered, at 1025 it is refused
pub fn depth_limit() -> String {
    use revm::interpreter::{EOFCreateInputs, EOFCreateKind, InstructionResult};
    use revm::primitives::Eof;
    let mut out = String::new();
    for func in ["make_call_frame", "make_create_frame", "make_eofcreate_frame"] {
        for at in [1023usize, 1024, 1025, 1026] {
            let legacy = Bytecode::new_legacy(Bytes::from_static(&[0x00]));
            let mut c = ctx(SpecId::OSAKA, 10, Some(legacy), 0);
            c.inner.journaled_state.depth = at;
            let r = match func {
                "make_call_frame" => {
                    let inputs = CallInputs { input: Bytes::new(), gas_limit: 100_000, bytecode_address: TARGET, target_address: TARGET, caller: CALLER,
                        value: CallValue::Transfer(U256::ZERO), scheme: CallScheme::Call, is_eof: false, is_static: false, return_memory_offset: 0..0 };
                    c.make_call_frame(&inputs).expect("no db error")
                }
                "make_create_frame" => {
                    let inputs = CreateInputs { caller: CALLER, scheme: CreateScheme::Create, value: U256::ZERO, init_code: Bytes::from_static(&[0x00]), gas_limit: 100_000 };
                    c.make_create_frame(SpecId::CANCUN, &inputs).expect("no db error")
                }
                _ => {
                    let created = address!("00000000000000000000000000000000000000ee");
                    let inputs = EOFCreateInputs { caller: CALLER, value: U256::ZERO, gas_limit: 100_000, kind: EOFCreateKind::Opcode { initcode: Eof::default(), input: Bytes::new(), created_address: created } };
                    c.make_eofcreate_frame(SpecId::OSAKA, &inputs).expect("no db error")
                }
            };
            let res = match &r {
                FrameOrResult::Result(fr) => format!("{:?}", fr.interpreter_result().result),
                FrameOrResult::Frame(_) => "frame".to_string(),
            };
            let ok = if at <= 1024 { res == "frame" } else { res == format!("{:?}", InstructionResult::CallTooDeep) };
            out += &format!("[depth_limit {} requested at depth {} outcome={}{}] ", func, at, res, if ok { "" } else { " MISMATCH" });
        }
    }
    out
}

// ---------------------------------------------------------------- the guard of create_account_checkpoint, all eight input combinations
pub fn create_guard() -> String {
    use revm::interpreter::InstructionResult;
    let mut out = String::new();
    let target = address!("00000000000000000000000000000000000000ee");
    for bits in 0u8..8 {
        let (code, nonce, storage) = (bits & 1 != 0, bits & 2 != 0, bits & 4 != 0);
        let mut db = CacheDB::new(EmptyDB::default());
        db.insert_account_info(CALLER, AccountInfo { nonce: 0, balance: U256::from(100), code_hash: revm::primitives::KECCAK_EMPTY, code: None });
        let code_bc = Bytecode::new_legacy(Bytes::from_static(&[0x00]));
        db.insert_account_info(target, AccountInfo { nonce: if nonce { 1 } else { 0 }, balance: U256::from(3),
            code_hash: if code { code_bc.hash_slow() } else { revm::primitives::KECCAK_EMPTY }, code: if code { Some(code_bc) } else { None } });
        let mut js = JournaledState::new(SpecId::CANCUN, HashSet::default());
        let _ = js.load_account(CALLER, &mut db);
        let _ = js.load_account(target, &mut db);
        let depth0 = js.depth();
        let j0: usize = js.journal.iter().map(|v| v.len()).sum();
        let r = js.create_account_checkpoint(CALLER, target, storage, U256::from(5), SpecId::CANCUN);
        let want_collision = code || nonce || storage;
        let t = js.state.get(&target).unwrap();
        let c = js.state.get(&CALLER).unwrap();
        let ok = if want_collision {
            let j1: usize = js.journal.iter().map(|v| v.len()).sum();
            r == Err(InstructionResult::CreateCollision) && js.depth() == depth0 && j1 == j0 && t.info.balance == U256::from(3) && c.info.balance == U256::from(100)
                && !t.is_created() && t.info.nonce == (if nonce { 1 } else { 0 })
        } else {
            r.is_ok() && js.depth() == depth0 + 1 && t.is_created() && t.info.balance == U256::from(8) && c.info.balance == U256::from(95) && t.info.nonce == 1
        };
        out += &format!("[create_guard code={} nonce={} storage={} result={:?} depth={}->{} target_balance={} caller_balance={}{}] ", code, nonce, storage,
            r.as_ref().map(|_| "checkpoint").map_err(|e| format!("{e:?}")), depth0, js.depth(), t.info.balance, c.info.balance, if ok { "" } else { " MISMATCH" });
    }
    // a contract that self-destructed earlier in the transaction keeps code and nonce until the transaction ends: a creation onto it collides
    {
        let mut db = CacheDB::new(EmptyDB::default());
        db.insert_account_info(CALLER, AccountInfo { nonce: 0, balance: U256::from(100), code_hash: revm::primitives::KECCAK_EMPTY, code: None });
        let code_bc = Bytecode::new_legacy(Bytes::from_static(&[0x00]));
        db.insert_account_info(target, AccountInfo { nonce: 1, balance: U256::from(3), code_hash: code_bc.hash_slow(), code: Some(code_bc) });
        let mut js = JournaledState::new(SpecId::SHANGHAI, HashSet::default());
        let _ = js.load_account(CALLER, &mut db);
        let _ = js.load_account(target, &mut db);
        let _ = js.selfdestruct(target, CALLER, &mut db).unwrap();
        let r = js.create_account_checkpoint(CALLER, target, false, U256::ZERO, SpecId::SHANGHAI);
        out += &format!("[create_guard self-destructed target with code result={:?}{}] ", r.as_ref().map(|_| "checkpoint").map_err(|e| format!("{e:?}")), if r == Err(InstructionResult::CreateCollision) { "" } else { " MISMATCH" });
    }
    // the endowment overflows the target's balance: the creation fails with OverflowPayment and nothing stays changed
    {
        let mut db = CacheDB::new(EmptyDB::default());
        db.insert_account_info(CALLER, AccountInfo { nonce: 0, balance: U256::from(100), code_hash: revm::primitives::KECCAK_EMPTY, code: None });
        db.insert_account_info(target, AccountInfo { nonce: 0, balance: U256::MAX - U256::from(5), code_hash: revm::primitives::KECCAK_EMPTY, code: None });
        let mut js = JournaledState::new(SpecId::CANCUN, HashSet::default());
        let _ = js.load_account(CALLER, &mut db);
        let _ = js.load_account(target, &mut db);
        let depth0 = js.depth();
        let r = js.create_account_checkpoint(CALLER, target, false, U256::from(10), SpecId::CANCUN);
        let (c, t) = (js.state.get(&CALLER).unwrap().info.balance, js.state.get(&target).unwrap());
        let ok = r == Err(InstructionResult::OverflowPayment) && c == U256::from(100) && t.info.balance == U256::MAX - U256::from(5) && !t.is_created() && js.depth() == depth0;
        out += &format!("[create_guard endowment overflow result={:?} caller_balance={} depth={}->{}{}] ", r.as_ref().map(|_| "checkpoint").map_err(|e| format!("{e:?}")), c, depth0, js.depth(), if ok { "" } else { " MISMATCH" });
    }
    out
}

// ---------------------------------------------------------------- block-state database: per-account commit step and reads
pub fn block_state_kernel() -> String {
    use revm::db::states::{AccountStatus as St, CacheAccount, PlainAccount, StorageSlot};
    use revm::primitives::{Account, AccountStatus as Flags, EvmStorageSlot, HashMap, KECCAK_EMPTY};
    use revm::DatabaseCommit;
    let mut out = String::new();
    let x = AccountInfo { nonce: 3, balance: U256::from(10), code_hash: KECCAK_EMPTY, code: None };
    let y = AccountInfo { nonce: 4, balance: U256::from(20), code_hash: KECCAK_EMPTY, code: None };
    let empty = AccountInfo::default();
    let mut written: HashMap<U256, StorageSlot> = HashMap::default();
    written.insert(U256::from(1), StorageSlot::new_changed(U256::ZERO, U256::from(5)));
    let mut old_storage: HashMap<U256, U256> = HashMap::default();
    old_storage.insert(U256::from(2), U256::from(7));
    let loaded = || CacheAccount { account: Some(PlainAccount { info: x.clone(), storage: old_storage.clone() }), status: St::Loaded };
    let absent = || CacheAccount { account: None, status: St::LoadedNotExisting };
    let loaded_empty = || CacheAccount { account: Some(PlainAccount { info: empty.clone(), storage: HashMap::default() }), status: St::LoadedEmptyEIP161 };
    let tag = |ok: bool| if ok { "" } else { " MISMATCH" };

    // ---- CacheAccount::selfdestruct
    let mut a = loaded();
    let t = a.selfdestruct();
    let ok = a.account.is_none() && a.status == St::Destroyed && matches!(&t, Some(t) if t.info.is_none() && t.previous_info == Some(x.clone()) && t.previous_status == St::Loaded && t.status == St::Destroyed && t.storage_was_destroyed && t.storage.is_empty());
    out += &format!("[CacheAccount::selfdestruct from Loaded status={:?} account={}{}] ", a.status, a.account.is_some(), tag(ok));
    let mut a = absent();
    let t = a.selfdestruct();
    out += &format!("[CacheAccount::selfdestruct from LoadedNotExisting status={:?} transition={}{}] ", a.status, t.is_some(), tag(t.is_none() && a.account.is_none() && a.status == St::LoadedNotExisting));

    // ---- CacheAccount::touch_empty_eip161
    let mut a = loaded_empty();
    let t = a.touch_empty_eip161();
    let ok = a.account.is_none() && a.status == St::Destroyed && matches!(&t, Some(t) if t.info.is_none() && t.previous_info == Some(empty.clone()) && t.previous_status == St::LoadedEmptyEIP161 && t.status == St::Destroyed && t.storage_was_destroyed);
    out += &format!("[CacheAccount::touch_empty_eip161 from LoadedEmptyEIP161 status={:?} account={}{}] ", a.status, a.account.is_some(), tag(ok));
    for (name, st0) in [("LoadedNotExisting", St::LoadedNotExisting), ("Destroyed", St::Destroyed), ("DestroyedAgain", St::DestroyedAgain)] {
        let mut a = CacheAccount { account: None, status: st0 };
        let t = a.touch_empty_eip161();
        out += &format!("[CacheAccount::touch_empty_eip161 from {} transition={}{}] ", name, t.is_some(), tag(t.is_none() && a.account.is_none()));
    }
    let mut a = CacheAccount { account: Some(PlainAccount { info: empty.clone(), storage: HashMap::default() }), status: St::DestroyedChanged };
    let t = a.touch_empty_eip161();
    out += &format!("[CacheAccount::touch_empty_eip161 from DestroyedChanged transition={} account={} status={:?}{}] ", t.is_some(), a.account.is_some(), a.status,
        tag(matches!(&t, Some(t) if t.previous_status == St::DestroyedChanged && t.storage_was_destroyed) && a.account.is_none() && a.status == St::DestroyedAgain));
    let mut a = CacheAccount { account: Some(PlainAccount { info: empty.clone(), storage: HashMap::default() }), status: St::InMemoryChange };
    let t = a.touch_empty_eip161();
    out += &format!("[CacheAccount::touch_empty_eip161 from InMemoryChange transition={}{}] ", t.is_some(), tag(matches!(&t, Some(t) if t.previous_status == St::InMemoryChange && t.previous_info == Some(empty.clone())) && a.account.is_none() && a.status == St::Destroyed));

    // ---- CacheAccount::newly_created
    let mut a = absent();
    let t = a.newly_created(y.clone(), written.clone());
    let ok = a.status == St::InMemoryChange && matches!(&a.account, Some(p) if p.info == y && p.storage.len() == 1 && p.storage.get(&U256::from(1)) == Some(&U256::from(5)))
        && t.info == Some(y.clone()) && t.previous_info.is_none() && t.previous_status == St::LoadedNotExisting && t.status == St::InMemoryChange && !t.storage_was_destroyed && t.storage == written;
    out += &format!("[CacheAccount::newly_created from LoadedNotExisting status={:?}{}] ", a.status, tag(ok));
    let mut a = CacheAccount { account: None, status: St::Destroyed };
    let t = a.newly_created(y.clone(), written.clone());
    out += &format!("[CacheAccount::newly_created from Destroyed status={:?}{}] ", a.status, tag(a.status == St::DestroyedChanged && t.previous_status == St::Destroyed && t.previous_info.is_none() && a.account.as_ref().map(|p| p.info.clone()) == Some(y.clone())));
    let mut a = loaded();
    let t = a.newly_created(y.clone(), written.clone());
    out += &format!("[CacheAccount::newly_created from Loaded status={:?}{}] ", a.status, tag(t.previous_info == Some(x.clone()) && t.previous_status == St::Loaded && matches!(&a.account, Some(p) if p.info == y && p.storage.len() == 1)));

    // ---- CacheAccount::touch_create_pre_eip161
    let mut a = loaded_empty();
    let t = a.touch_create_pre_eip161(written.clone());
    out += &format!("[CacheAccount::touch_create_pre_eip161 from LoadedEmptyEIP161 transition={} account={} status={:?}{}] ", t.is_some(), a.account.is_some(), a.status, tag(t.is_none() && a.account.is_some() && a.status == St::LoadedEmptyEIP161));
    let mut a = CacheAccount { account: Some(PlainAccount { info: empty.clone(), storage: HashMap::default() }), status: St::DestroyedChanged };
    let t = a.touch_create_pre_eip161(written.clone());
    out += &format!("[CacheAccount::touch_create_pre_eip161 from DestroyedChanged(empty) transition={} account={}{}] ", t.is_some(), a.account.is_some(), tag(t.is_none() && a.account.is_some() && a.status == St::DestroyedChanged));
    let mut a = absent();
    let t = a.touch_create_pre_eip161(written.clone());
    let ok = a.status == St::InMemoryChange && matches!(&a.account, Some(p) if p.info == empty && p.storage.get(&U256::from(1)) == Some(&U256::from(5)))
        && matches!(&t, Some(t) if t.info == Some(empty.clone()) && t.previous_info.is_none() && t.previous_status == St::LoadedNotExisting && t.status == St::InMemoryChange && !t.storage_was_destroyed && t.storage == written);
    out += &format!("[CacheAccount::touch_create_pre_eip161 from LoadedNotExisting status={:?}{}] ", a.status, tag(ok));

    // ---- CacheAccount::change
    let mut a = loaded();
    let t = a.change(y.clone(), written.clone());
    let ok = a.status == St::Changed && matches!(&a.account, Some(p) if p.info == y && p.storage.len() == 2 && p.storage.get(&U256::from(2)) == Some(&U256::from(7)) && p.storage.get(&U256::from(1)) == Some(&U256::from(5)))
        && t.info == Some(y.clone()) && t.previous_info == Some(x.clone()) && t.previous_status == St::Loaded && t.status == St::Changed && !t.storage_was_destroyed && t.storage == written;
    out += &format!("[CacheAccount::change from Loaded status={:?}{}] ", a.status, tag(ok));
    let mut a = absent();
    let t = a.change(y.clone(), written.clone());
    out += &format!("[CacheAccount::change from LoadedNotExisting status={:?}{}] ", a.status, tag(a.status == St::InMemoryChange && t.previous_info.is_none() && t.previous_status == St::LoadedNotExisting && t.info == Some(y.clone()) && matches!(&a.account, Some(p) if p.info == y && p.storage.len() == 1)));
    let mut a = CacheAccount { account: Some(PlainAccount { info: AccountInfo { nonce: 0, balance: U256::from(1), code_hash: KECCAK_EMPTY, code: None }, storage: HashMap::default() }), status: St::Loaded };
    let _ = a.change(y.clone(), HashMap::default());
    out += &format!("[CacheAccount::change from Loaded(no nonce, no code) status={:?}{}] ", a.status, tag(a.status == St::InMemoryChange));

    // ---- apply_account_state through State::commit
    let target = address!("00000000000000000000000000000000000000d1");
    let mk = |clear: bool, info: Option<AccountInfo>| {
        let mut db = CacheDB::new(EmptyDB::default());
        if let Some(i) = info {
            db.insert_account_info(target, i);
            db.insert_account_storage(target, U256::from(9), U256::from(99)).unwrap();
        }
        let b = BlockState::builder().with_database(db);
        let mut s = if clear { b.build() } else { b.without_state_clear().build() };
        let _ = s.load_cache_account(target).unwrap();
        s
    };
    let evm_acc = |info: AccountInfo, flags: Flags| {
        let mut st: HashMap<U256, EvmStorageSlot> = HashMap::default();
        st.insert(U256::from(1), EvmStorageSlot { original_value: U256::from(5), present_value: U256::from(5), is_cold: false }); // unchanged: must not be written
        st.insert(U256::from(2), EvmStorageSlot { original_value: U256::ZERO, present_value: U256::from(8), is_cold: false });
        let mut m: HashMap<Address, Account> = HashMap::default();
        m.insert(target, Account { info, storage: st, status: flags });
        m
    };
    let mut s = mk(true, Some(x.clone()));
    s.commit(evm_acc(y.clone(), Flags::Loaded));
    let c = s.cache.accounts.get(&target).unwrap();
    out += &format!("[apply_account_state untouched status={:?}{}] ", c.status, tag(c.status == St::Loaded && c.account_info() == Some(x.clone())));
    let mut s = mk(true, Some(x.clone()));
    s.commit(evm_acc(y.clone(), Flags::Touched | Flags::SelfDestructed | Flags::Created));
    let c = s.cache.accounts.get(&target).unwrap();
    out += &format!("[apply_account_state selfdestructed+created status={:?}{}] ", c.status, tag(c.status == St::Destroyed && c.account.is_none()));
    let mut s = mk(true, None);
    s.commit(evm_acc(y.clone(), Flags::Touched | Flags::Created));
    let c = s.cache.accounts.get(&target).unwrap();
    let okst = matches!(&c.account, Some(p) if p.info == y && p.storage.len() == 1 && p.storage.get(&U256::from(2)) == Some(&U256::from(8)));
    out += &format!("[apply_account_state created status={:?} slots={}{}] ", c.status, c.account.as_ref().map(|p| p.storage.len()).unwrap_or(0), tag(c.status == St::InMemoryChange && okst));
    let mut s = mk(true, Some(empty.clone()));
    s.commit(evm_acc(empty.clone(), Flags::Touched));
    let c = s.cache.accounts.get(&target).unwrap();
    out += &format!("[apply_account_state empty, state clear status={:?} account={}{}] ", c.status, c.account.is_some(), tag(c.status == St::Destroyed && c.account.is_none()));
    let mut s = mk(false, None);
    s.commit(evm_acc(empty.clone(), Flags::Touched));
    let c = s.cache.accounts.get(&target).unwrap();
    out += &format!("[apply_account_state empty, before state clear status={:?} account={}{}] ", c.status, c.account.is_some(), tag(c.status == St::InMemoryChange && c.account.is_some()));
    let mut s = mk(false, Some(empty.clone()));
    s.commit(evm_acc(empty.clone(), Flags::Touched));
    let b1 = s.basic(target).unwrap();
    out += &format!("[apply_account_state empty existing, before state clear basic={}{}] ", b1.is_some(), tag(b1.is_some()));
    let mut s = mk(true, Some(x.clone()));
    s.commit(evm_acc(y.clone(), Flags::Touched));
    let c = s.cache.accounts.get(&target).unwrap();
    let okst = matches!(&c.account, Some(p) if p.info == y && p.storage.len() == 1 && p.storage.get(&U256::from(2)) == Some(&U256::from(8)));
    out += &format!("[apply_account_state changed status={:?}{}] ", c.status, tag(c.status == St::Changed && okst));

    // ---- State::storage
    let v1 = s.storage(target, U256::from(9)).unwrap(); // Changed: storage not known -> database
    let v2 = s.storage(target, U256::from(9)).unwrap();
    let v3 = s.storage(target, U256::from(2)).unwrap(); // cached slot
    out += &format!("[State::storage changed account db_slot={} again={} cached={}{}] ", v1, v2, v3, tag(v1 == U256::from(99) && v2 == v1 && v3 == U256::from(8)));
    let mut s = mk(true, Some(x.clone()));
    s.commit(evm_acc(y.clone(), Flags::Touched | Flags::Created));
    let v = s.storage(target, U256::from(9)).unwrap(); // created in memory: the database's old slot must not be read
    out += &format!("[State::storage created account stale_db_slot={}{}] ", v, tag(v.is_zero()));
    let mut s = mk(true, Some(x.clone()));
    s.commit(evm_acc(y.clone(), Flags::Touched | Flags::SelfDestructed));
    s.commit(evm_acc(y.clone(), Flags::Touched)); // balance sent to the destroyed address afterwards
    let v = s.storage(target, U256::from(9)).unwrap();
    out += &format!("[State::storage destroyed then changed stale_db_slot={}{}] ", v, tag(v.is_zero()));
    let mut s = mk(true, Some(x.clone()));
    let v = s.storage(target, U256::from(9)).unwrap();
    out += &format!("[State::storage loaded account db_slot={}{}] ", v, tag(v == U256::from(99)));

    // ---- the in-memory account of an earlier transaction is touched again while still empty (before state clearing): its storage stays
    {
        let mut s = mk(false, None);
        s.commit(evm_acc(empty.clone(), Flags::Touched | Flags::Created)); // constructor wrote slot 2, left no code / nonce / balance
        let before = s.storage(target, U256::from(2)).unwrap();
        let mut m: HashMap<Address, Account> = HashMap::default();
        m.insert(target, Account { info: empty.clone(), storage: HashMap::default(), status: Flags::Touched });
        s.commit(m); // e.g. a zero-value call to it in a later transaction
        let after = s.storage(target, U256::from(2)).unwrap();
        let st = s.cache.accounts.get(&target).unwrap().status;
        out += &format!("[CacheAccount::touch_create_pre_eip161 from InMemoryChange(empty, with storage) slot2 before={} after={} status={:?}{}] ", before, after, st, tag(before == U256::from(8) && after == before));
    }

    // ---- CacheDB::commit
    {
        let fresh = || {
            let mut inner = CacheDB::new(EmptyDB::default());
            inner.insert_account_info(target, x.clone());
            inner.insert_account_storage(target, U256::from(9), U256::from(99)).unwrap();
            CacheDB::new(inner)
        };
        let one = |info: AccountInfo, flags: Flags, slots: &[(u64, u64)]| {
            let mut st: HashMap<U256, EvmStorageSlot> = HashMap::default();
            for (k, v) in slots {
                st.insert(U256::from(*k), EvmStorageSlot { original_value: U256::ZERO, present_value: U256::from(*v), is_cold: false });
            }
            let mut m: HashMap<Address, Account> = HashMap::default();
            m.insert(target, Account { info, storage: st, status: flags });
            m
        };
        let mut db = fresh();
        db.commit(one(y.clone(), Flags::Loaded, &[(1, 5)]));
        let b = db.basic(target).unwrap();
        let v = db.storage(target, U256::from(1)).unwrap();
        out += &format!("[CacheDB::commit untouched info_kept={} slot1={}{}] ", b == Some(x.clone()), v, tag(b == Some(x.clone()) && v.is_zero()));
        let mut db = fresh();
        db.commit(one(y.clone(), Flags::Touched, &[(1, 5)]));
        let b = db.basic(target).unwrap();
        let (v1, v9) = (db.storage(target, U256::from(1)).unwrap(), db.storage(target, U256::from(9)).unwrap());
        out += &format!("[CacheDB::commit changed slot1={} db_slot9={}{}] ", v1, v9, tag(b == Some(y.clone()) && v1 == U256::from(5) && v9 == U256::from(99)));
        let mut db = fresh();
        db.commit(one(y.clone(), Flags::Touched | Flags::Created, &[(1, 5)]));
        let (v1, v9) = (db.storage(target, U256::from(1)).unwrap(), db.storage(target, U256::from(9)).unwrap());
        out += &format!("[CacheDB::commit created slot1={} stale_db_slot9={}{}] ", v1, v9, tag(v1 == U256::from(5) && v9.is_zero()));
        let mut db = fresh();
        db.commit(one(y.clone(), Flags::Touched | Flags::SelfDestructed, &[]));
        let b = db.basic(target).unwrap();
        let v9 = db.storage(target, U256::from(9)).unwrap();
        out += &format!("[CacheDB::commit selfdestructed exists={} stale_db_slot9={}{}] ", b.is_some(), v9, tag(b.is_none() && v9.is_zero()));
        db.commit(one(y.clone(), Flags::Touched, &[])); // ether sent to the destroyed address in a later transaction
        let b = db.basic(target).unwrap();
        let v9 = db.storage(target, U256::from(9)).unwrap();
        out += &format!("[CacheDB::commit selfdestructed then touched exists={} stale_db_slot9={}{}] ", b.is_some(), v9, tag(b == Some(y.clone()) && v9.is_zero()));
        let mut db = fresh();
        db.commit(one(y.clone(), Flags::Touched | Flags::Created, &[(1, 5)]));
        db.commit(one(y.clone(), Flags::Touched, &[(2, 6)]));
        let (v1, v2, v9) = (db.storage(target, U256::from(1)).unwrap(), db.storage(target, U256::from(2)).unwrap(), db.storage(target, U256::from(9)).unwrap());
        out += &format!("[CacheDB::commit created then changed slot1={} slot2={} stale_db_slot9={}{}] ", v1, v2, v9, tag(v1 == U256::from(5) && v2 == U256::from(6) && v9.is_zero()));
        // an empty account that did not exist is touched before state clearing: it exists afterwards
        let z = address!("00000000000000000000000000000000000000d2");
        let mut db = fresh();
        let _ = db.basic(z).unwrap();
        let mut m: HashMap<Address, Account> = HashMap::default();
        m.insert(z, Account { info: empty.clone(), storage: HashMap::default(), status: Flags::Touched | Flags::LoadedAsNotExisting });
        db.commit(m);
        let b = db.basic(z).unwrap();
        out += &format!("[CacheDB::commit touched empty account that did not exist exists={}{}] ", b.is_some(), tag(b.is_some()));
        // an existing account gets code without being created (EIP-7702 delegation, a state override): the code is answered by hash afterwards
        for (label, flags) in [("touched", Flags::Touched), ("created", Flags::Touched | Flags::Created)] {
            let code = Bytecode::new_legacy(Bytes::from_static(&[0x60, 0x2a, 0x00]));
            let h = code.hash_slow();
            let with_code = AccountInfo { nonce: 4, balance: U256::from(20), code_hash: h, code: Some(code.clone()) };
            let mut db = fresh();
            db.commit(one(with_code, flags, &[]));
            let by_hash = db.code_by_hash(h).map(|c| c.original_bytes()).unwrap_or_default();
            let by_ref = revm::DatabaseRef::code_by_hash_ref(&db, h).map(|c| c.original_bytes()).unwrap_or_default();
            let hash_seen = db.basic(target).unwrap().map(|i| i.code_hash);
            let ok = by_hash == code.original_bytes() && by_ref == code.original_bytes() && hash_seen == Some(h);
            out += &format!("[CacheDB::commit {} account with new code code_by_hash_len={} code_by_hash_ref_len={} hash_matches={}{}] ", label, by_hash.len(), by_ref.len(), hash_seen == Some(h), tag(ok));
        }
    }

    // ---- State::code_by_hash: read through, cached afterwards (a later change of the database does not show)
    {
        let code = Bytecode::new_legacy(Bytes::from_static(&[0x60, 0x01, 0x00]));
        let h = code.hash_slow();
        let mut db = CacheDB::new(EmptyDB::default());
        db.contracts.insert(h, code.clone());
        let mut s = BlockState::builder().with_database(db).build();
        let c1 = s.code_by_hash(h).unwrap();
        s.database.contracts.insert(h, Bytecode::new_legacy(Bytes::from_static(&[0x5b])));
        let c2 = s.code_by_hash(h).unwrap();
        out += &format!("[State::code_by_hash read through and cached{}] ", tag(c1 == code && c2 == code));
    }

    // ---- load_cache_account
    for (name, info, want) in [("absent", None, St::LoadedNotExisting), ("empty", Some(empty.clone()), St::LoadedEmptyEIP161), ("existing", Some(x.clone()), St::Loaded)] {
        let s = mk(true, info.clone());
        let c = s.cache.accounts.get(&target).unwrap();
        out += &format!("[load_cache_account {} status={:?}{}] ", name, c.status, tag(c.status == want && c.account_info() == info.filter(|_| true)));
    }
    let mut s = mk(true, Some(x.clone()));
    s.database.insert_account_info(target, y.clone()); // the cached answer must win over a later database change
    let c = s.load_cache_account(target).unwrap();
    out += &format!("[load_cache_account cached reuse{}] ", tag(c.account_info() == Some(x.clone())));
    out
}

// ---------------------------------------------------------------- Bytecode accessors agree with each other for every variant
pub fn bytecode_accessors() -> String {
    use revm::interpreter::analysis::to_analysed;
    use revm::primitives::{keccak256, Eof, KECCAK_EMPTY};
    let mut out = String::new();
    let mut check = |name: &str, bc: &Bytecode, want: &[u8]| {
        let ok_slice = bc.original_byte_slice() == want;
        let ok_bytes = bc.original_bytes().as_ref() == want;
        let ok_len = bc.len() == want.len() && bc.is_empty() == want.is_empty();
        let ok_hash = bc.hash_slow() == if want.is_empty() { KECCAK_EMPTY } else { keccak256(want) };
        out += &format!("[bytecode {} len={} want_len={} slice={} bytes={} hash={}{}] ", name, bc.len(), want.len(), ok_slice, ok_bytes, ok_hash,
            if ok_slice && ok_bytes && ok_len && ok_hash { "" } else { " MISMATCH" });
    };
    let code: Vec<u8> = vec![0x60, 0x01, 0x5b, 0x7f, 0x00];
    check("legacy raw", &Bytecode::new_legacy(Bytes::from(code.clone())), &code);
    check("legacy analysed", &to_analysed(Bytecode::new_legacy(Bytes::from(code.clone()))), &code);
    check("legacy raw empty", &Bytecode::new_legacy(Bytes::new()), &[]);
    check("legacy analysed empty", &to_analysed(Bytecode::new_legacy(Bytes::new())), &[]);
    let mut zeros = vec![0x5b];
    zeros.extend(std::iter::repeat(0u8).take(40)); // ends like the analysis padding
    check("legacy analysed zero tail", &to_analysed(Bytecode::new_legacy(Bytes::from(zeros.clone()))), &zeros);
    let a = address!("00000000000000000000000000000000000000a1");
    let d = Bytecode::new_eip7702(a);
    let mut raw = vec![0xef, 0x01, 0x00];
    raw.extend_from_slice(a.as_slice());
    check("eip7702", &d, &raw);
    let eof = Eof::default();
    let full = eof.raw().to_vec();
    check("eof default", &Bytecode::Eof(std::sync::Arc::new(eof)), &full);
    // header declares 4 data bytes, 1 is present: accepted by decode (data may be filled later), the stored bytes are what was given
    let trunc: Vec<u8> = vec![0xef, 0x00, 0x01, 0x01, 0x00, 0x04, 0x02, 0x00, 0x01, 0x00, 0x01, 0x04, 0x00, 0x04, 0x00, 0x00, 0x80, 0x00, 0x00, 0x00, 0xaa];
    match Eof::decode(Bytes::from(trunc.clone())) {
        Ok(e) => check("eof truncated data", &Bytecode::Eof(std::sync::Arc::new(e)), &trunc),
        Err(e) => out += &format!("[bytecode eof truncated data not accepted by decode: {e:?}] "),
    }
    out
}

// ---------------------------------------------------------------- SELFDESTRUCT notifications seen by an inspector
#[derive(Default)]
pub struct SdInspector {
    pub notes: Vec<(Address, Address, U256)>,
}
impl<DB: revm::Database> revm::Inspector<DB> for SdInspector {
    fn selfdestruct(&mut self, contract: Address, target: Address, value: U256) {
        self.notes.push((contract, target, value));
    }
}

/// Runs `code` at TARGET (balance 1000, called by CALLER) under `spec` with an inspector and returns the notifications.
fn sd_run(spec: SpecId, code: Vec<u8>) -> (Vec<(Address, Address, U256)>, bool) {
    use revm::primitives::TxKind;
    use revm::{inspector_handle_register, Evm};
    let bc = Bytecode::new_legacy(Bytes::from(code));
    let mut db = CacheDB::new(EmptyDB::default());
    db.insert_account_info(CALLER, AccountInfo { nonce: 0, balance: U256::from(1_000_000_000u64), code_hash: B256::default(), code: None });
    db.insert_account_info(TARGET, AccountInfo { nonce: 1, balance: U256::from(1000), code_hash: bc.hash_slow(), code: Some(bc) });
    let mut evm = Evm::builder()
        .with_db(db)
        .with_external_context(SdInspector::default())
        .with_spec_id(spec)
        .modify_tx_env(|tx| {
            tx.caller = CALLER;
            tx.transact_to = TxKind::Call(TARGET);
            tx.gas_limit = 500_000;
        })
        .append_handler_register(inspector_handle_register)
        .build();
    let r = evm.transact();
    let ok = matches!(&r, Ok(rs) if rs.result.is_success());
    (evm.context.external.notes.clone(), ok)
}

pub fn selfdestruct_notify() -> String {
    let mut out = String::new();
    let eoa = address!("00000000000000000000000000000000000000e0");
    let ben = address!("00000000000000000000000000000000000000be");
    // PUSH1 0 x4, PUSH1 7 (value), PUSH20 eoa, GAS, CALL, POP
    let mut value_call: Vec<u8> = vec![0x60, 0, 0x60, 0, 0x60, 0, 0x60, 0, 0x60, 7, 0x73];
    value_call.extend_from_slice(eoa.as_slice());
    value_call.extend_from_slice(&[0x5a, 0xf1, 0x50]);
    let push20 = |a: Address| {
        let mut v = vec![0x73];
        v.extend_from_slice(a.as_slice());
        v
    };
    let show = |n: &Vec<(Address, Address, U256)>| n.iter().map(|(c, t, v)| format!("({},{},{})", &format!("{c:?}")[38..], &format!("{t:?}")[38..], v)).collect::<Vec<_>>().join(";");
    // (a) a value transfer by CALL, then a SELFDESTRUCT that fails (empty stack): nothing may be reported
    let mut code = value_call.clone();
    code.push(0xff);
    let (n, ok) = sd_run(SpecId::CANCUN, code);
    out += &format!("[selfdestruct-wrapper failed selfdestruct after a value call tx_ok={} notes={} {}{}] ", ok, n.len(), show(&n), if n.is_empty() { "" } else { " MISMATCH" });
    // (b) ordinary SELFDESTRUCT to another address (Cancun, contract not created in this transaction: balance moves, account stays)
    let mut code = push20(ben);
    code.push(0xff);
    let (n, ok) = sd_run(SpecId::CANCUN, code);
    out += &format!("[selfdestruct-wrapper to beneficiary (Cancun) tx_ok={} notes={} {}{}] ", ok, n.len(), show(&n), if n == vec![(TARGET, ben, U256::from(1000))] { "" } else { " MISMATCH" });
    let mut code = push20(ben);
    code.push(0xff);
    let (n, ok) = sd_run(SpecId::SHANGHAI, code);
    out += &format!("[selfdestruct-wrapper to beneficiary (Shanghai) tx_ok={} notes={} {}{}] ", ok, n.len(), show(&n), if n == vec![(TARGET, ben, U256::from(1000))] { "" } else { " MISMATCH" });
    // (c) Cancun, beneficiary = the contract itself, after a value call: the self-destruct completes without moving anything
    let mut code = value_call.clone();
    code.extend(push20(TARGET));
    code.push(0xff);
    let (n, ok) = sd_run(SpecId::CANCUN, code);
    out += &format!("[selfdestruct-wrapper to itself after a value call (Cancun) tx_ok={} notes={} {}{}] ", ok, n.len(), show(&n), if n == vec![(TARGET, TARGET, U256::ZERO)] { "" } else { " MISMATCH" });
    // (d) before Cancun, beneficiary = the contract itself: the balance is burnt
    let mut code = push20(TARGET);
    code.push(0xff);
    let (n, ok) = sd_run(SpecId::SHANGHAI, code);
    out += &format!("[selfdestruct-wrapper to itself (Shanghai) tx_ok={} notes={} {}{}] ", ok, n.len(), show(&n), if n == vec![(TARGET, TARGET, U256::from(1000))] { "" } else { " MISMATCH" });
    // (f) the beneficiary word carries garbage above bit 160: the EVM pays the low 20 bytes, the notification must name that address
    let mut code: Vec<u8> = vec![0x7f];
    code.extend_from_slice(&[0xff; 12]);
    code.extend_from_slice(ben.as_slice());
    code.push(0xff);
    let (n, ok) = sd_run(SpecId::CANCUN, code);
    out += &format!("[selfdestruct-wrapper dirty upper bits in the beneficiary word tx_ok={} notes={} {}{}] ", ok, n.len(), show(&n), if n == vec![(TARGET, ben, U256::from(1000))] { "" } else { " MISMATCH" });
    // (g) Cancun: a contract created in this transaction destroys itself towards itself: it is destroyed and its balance burnt
    {
        use revm::primitives::TxKind;
        use revm::{inspector_handle_register, Evm};
        for spec in [SpecId::CANCUN, SpecId::PRAGUE] {
            let mut db = CacheDB::new(EmptyDB::default());
            db.insert_account_info(CALLER, AccountInfo { nonce: 0, balance: U256::from(1_000_000_000u64), code_hash: B256::default(), code: None });
            let mut evm = Evm::builder().with_db(db).with_external_context(SdInspector::default()).with_spec_id(spec)
                .modify_tx_env(|tx| { tx.caller = CALLER; tx.transact_to = TxKind::Create; tx.value = U256::from(1000); tx.data = Bytes::from_static(&[0x30, 0xff]); tx.gas_limit = 500_000; })
                .append_handler_register(inspector_handle_register).build();
            let r = evm.transact();
            let created = CALLER.create(0);
            let n = evm.context.external.notes.clone();
            out += &format!("[selfdestruct-wrapper created contract destroys itself ({:?}) tx_ok={} notes={} {}{}] ", spec, r.is_ok(), n.len(), show(&n), if n == vec![(created, created, U256::from(1000))] { "" } else { " MISMATCH" });
        }
    }
    // (e) no SELFDESTRUCT at all, only the value call
    let (n, ok) = sd_run(SpecId::CANCUN, value_call.clone());
    out += &format!("[selfdestruct-wrapper no selfdestruct tx_ok={} notes={}{}] ", ok, n.len(), if n.is_empty() { "" } else { " MISMATCH" });
    out
}

// ---------------------------------------------------------------- an inspector that only observes does not change execution (differential on a few programs)
pub fn inspector_transparency() -> String {
    use revm::primitives::TxKind;
    use revm::{inspector_handle_register, Evm};
    // program 1: calls (precompile, empty account), a create, storage writes, a log, a loop with a backward jump and PUSH immediates
    let prog1: Vec<u8> = vec![
        0x60, 0, 0x60, 0, 0x60, 0, 0x60, 0, 0x60, 0, 0x60, 4, 0x5a, 0xf1, 0x50, // CALL identity
        0x60, 0, 0x60, 0, 0x60, 0, 0x60, 0, 0x60, 3, 0x61, 0x99, 0x99, 0x5a, 0xf1, 0x50, // CALL 0x9999 with value 3
        0x60, 0, 0x60, 0, 0x60, 0, 0xf0, 0x50, // CREATE (empty init code)
        0x61, 0x12, 0x34, 0x60, 1, 0x55, // SSTORE(1, 0x1234)
        0x60, 0x2a, 0x60, 0, 0x52, 0x60, 0x20, 0x60, 0, 0xa0, // MSTORE; LOG0
        0x60, 3, // counter = 3
        0x5b, 0x60, 1, 0x90, 0x03, 0x80, 0x60, 0x39, 0x57, // JUMPDEST; PUSH1 1; SWAP1; SUB; DUP1; PUSH1 <dest>; JUMPI
        0x50, 0x60, 0x20, 0x60, 0, 0xf3, // POP; RETURN(0, 32)
    ];
    // program 2: reverts after a storage write
    let prog2: Vec<u8> = vec![0x60, 7, 0x60, 2, 0x55, 0x60, 0, 0x60, 0, 0xfd];
    // program 3: runs out of gas in a loop
    let prog3: Vec<u8> = vec![0x5b, 0x60, 0, 0x56];
    let run = |code: &Vec<u8>, with_inspector: bool, gas: u64| -> String {
        let mut db = CacheDB::new(EmptyDB::default());
        db.insert_account_info(CALLER, AccountInfo { nonce: 0, balance: U256::from(1_000_000_000u64), code_hash: B256::default(), code: None });
        let bc = Bytecode::new_legacy(Bytes::from(code.clone()));
        db.insert_account_info(TARGET, AccountInfo { nonce: 1, balance: U256::from(100), code_hash: bc.hash_slow(), code: Some(bc) });
        let describe = |r: Result<revm::primitives::ResultAndState, String>| match r {
            Ok(rs) => {
                let mut st: Vec<String> = rs.state.iter().map(|(a, acc)| {
                    let mut slots: Vec<String> = acc.storage.iter().map(|(k, v)| format!("{k}={}", v.present_value)).collect();
                    slots.sort();
                    format!("{a:?}:{}:{}:{:?}:{}", acc.info.balance, acc.info.nonce, acc.status, slots.join(","))
                }).collect();
                st.sort();
                format!("{:?} | {}", rs.result, st.join(" ; "))
            }
            Err(e) => format!("error {e}"),
        };
        if with_inspector {
            let mut evm = Evm::builder().with_db(db).with_external_context(CountingInspector::default()).with_spec_id(SpecId::CANCUN)
                .modify_tx_env(|tx| { tx.caller = CALLER; tx.transact_to = TxKind::Call(TARGET); tx.gas_limit = gas; tx.gas_price = U256::from(1); })
                .append_handler_register(inspector_handle_register).build();
            describe(evm.transact().map_err(|e| format!("{e:?}")))
        } else {
            let mut evm = Evm::builder().with_db(db).with_spec_id(SpecId::CANCUN)
                .modify_tx_env(|tx| { tx.caller = CALLER; tx.transact_to = TxKind::Call(TARGET); tx.gas_limit = gas; tx.gas_price = U256::from(1); })
                .build();
            describe(evm.transact().map_err(|e| format!("{e:?}")))
        }
    };
    let mut same = true;
    let mut summary = String::new();
    for (name, code, gas) in [("calls-create-storage-log-loop", &prog1, 1_000_000u64), ("revert", &prog2, 100_000), ("out-of-gas", &prog3, 30_000)] {
        let (a, b) = (run(code, false, gas), run(code, true, gas));
        if a != b {
            same = false;
            summary += &format!("{name}: without `{}` with `{}`; ", &a[..a.len().min(160)], &b[..b.len().min(160)]);
        } else {
            summary += &format!("{name}: same ({}); ", &a[..a.len().min(40)]);
        }
    }
    let mut out = String::new();
    for w in ["inspector_instruction", "call-wrapper", "create-wrapper", "eofcreate-wrapper", "call_end-wrapper", "create_end-wrapper", "eofcreate_end-wrapper", "last_frame_return-wrapper"] {
        out += &format!("[{} differential: {}{}] ", w, summary.replace('[', "(").replace(']', ")"), if same { "" } else { " MISMATCH" });
    }
    out
}

// ---------------------------------------------------------------- the shipped gas inspector does not change execution (differential incl. refused sub-calls)
pub fn gas_inspector_differential() -> String {
    use revm::inspectors::GasInspector;
    use revm::primitives::TxKind;
    use revm::{inspector_handle_register, Evm};
    // refused CALL (value 1 from a contract with balance 0), refused CREATE (value 1), an ordinary call, a failing call (invalid opcode in the callee)
    let refused_call: Vec<u8> = vec![0x60, 0, 0x60, 0, 0x60, 0, 0x60, 0, 0x60, 1, 0x60, 0xee, 0x61, 0xff, 0xff, 0xf1, 0x50, 0x00];
    let refused_create: Vec<u8> = vec![0x60, 0, 0x60, 0, 0x60, 1, 0xf0, 0x50, 0x00];
    let plain_call: Vec<u8> = vec![0x60, 0, 0x60, 0, 0x60, 0, 0x60, 0, 0x60, 0, 0x60, 4, 0x61, 0xff, 0xff, 0xf1, 0x50, 0x00];
    let failing_call: Vec<u8> = vec![0x60, 0, 0x60, 0, 0x60, 0, 0x60, 0, 0x60, 0, 0x60, 0xfe, 0x61, 0xff, 0xff, 0xf1, 0x50, 0x00];
    let run = |code: &Vec<u8>, with: bool, spec: SpecId| -> String {
        let mut db = CacheDB::new(EmptyDB::default());
        db.insert_account_info(CALLER, AccountInfo { nonce: 0, balance: U256::from(1_000_000_000u64), code_hash: B256::default(), code: None });
        let bc = Bytecode::new_legacy(Bytes::from(code.clone()));
        db.insert_account_info(TARGET, AccountInfo { nonce: 1, balance: U256::ZERO, code_hash: bc.hash_slow(), code: Some(bc) });
        let bad = Bytecode::new_legacy(Bytes::from_static(&[0xfe]));
        db.insert_account_info(address!("00000000000000000000000000000000000000fe"), AccountInfo { nonce: 1, balance: U256::ZERO, code_hash: bad.hash_slow(), code: Some(bad) });
        if with {
            let mut evm = Evm::builder().with_db(db).with_external_context(GasInspector::default()).with_spec_id(spec)
                .modify_tx_env(|tx| { tx.caller = CALLER; tx.transact_to = TxKind::Call(TARGET); tx.gas_limit = 300_000; })
                .append_handler_register(inspector_handle_register).build();
            format!("{:?}", evm.transact().map(|r| r.result).map_err(|e| format!("{e:?}")))
        } else {
            let mut evm = Evm::builder().with_db(db).with_spec_id(spec)
                .modify_tx_env(|tx| { tx.caller = CALLER; tx.transact_to = TxKind::Call(TARGET); tx.gas_limit = 300_000; })
                .build();
            format!("{:?}", evm.transact().map(|r| r.result).map_err(|e| format!("{e:?}")))
        }
    };
    let mut same = true;
    let mut summary = String::new();
    for (name, code) in [("refused call", &refused_call), ("refused create", &refused_create), ("plain call", &plain_call), ("failing call", &failing_call)] {
        for spec in [SpecId::BYZANTIUM, SpecId::CANCUN] {
            let (a, b) = (run(code, false, spec), run(code, true, spec));
            if a != b {
                same = false;
                summary += &format!("{name} {spec:?}: without `{}` with `{}`; ", &a[..a.len().min(90)], &b[..b.len().min(90)]);
            }
        }
    }
    if same {
        summary = "8 runs identical".to_string();
    }
    let mut out = String::new();
    for h in ["initialize_interp", "step", "step_end", "call_end", "create_end"] {
        out += &format!("[GasInspector::{} differential: {}{}] ", h, summary.replace('[', "(").replace(']', ")"), if same { "" } else { " MISMATCH" });
    }
    out
}

// ---------------------------------------------------------------- operation, then checkpoint_revert: the journaled state is what it was at the checkpoint
pub fn journal_roundtrip() -> String {
    use revm::primitives::{Log, LogData};
    let a = CALLER;
    let b = TARGET;
    let fresh = address!("00000000000000000000000000000000000000f7");
    let mut out = String::new();
    let base = |spec: SpecId| -> (JournaledState, CacheDB<EmptyDB>) {
        let mut db = CacheDB::new(EmptyDB::default());
        db.insert_account_info(a, AccountInfo { nonce: 3, balance: U256::from(1000), code_hash: revm::primitives::KECCAK_EMPTY, code: None });
        db.insert_account_info(b, AccountInfo { nonce: 1, balance: U256::from(50), code_hash: revm::primitives::KECCAK_EMPTY, code: None });
        db.insert_account_storage(a, U256::from(1), U256::from(11)).unwrap();
        let mut js = JournaledState::new(spec, HashSet::default());
        // everything the operations touch is loaded (warm) before the checkpoint, so that only the operation itself is journalled
        let _ = js.load_account(a, &mut db).unwrap();
        let _ = js.load_account(b, &mut db).unwrap();
        let _ = js.load_account(fresh, &mut db).unwrap();
        let _ = js.sload(a, U256::from(1), &mut db).unwrap();
        let _ = js.sload(a, U256::from(2), &mut db).unwrap();
        let _ = js.sload(fresh, U256::from(4), &mut db).unwrap();
        js.tstore(a, U256::from(9), U256::from(90));
        (js, db)
    };
    let mut case = |name: &str, spec: SpecId, op: &dyn Fn(&mut JournaledState, &mut CacheDB<EmptyDB>)| {
        let (mut js, mut db) = base(spec);
        let before = js.clone();
        let cp = js.checkpoint();
        op(&mut js, &mut db);
        let changed = js.state != before.state || js.transient_storage != before.transient_storage || js.logs != before.logs;
        js.checkpoint_revert(cp);
        let same = js == before;
        out += &format!("[roundtrip {} op_changed_something={} restored={}{}] ", name, changed, same, if same && changed { "" } else { " MISMATCH" });
    };
    case("transfer", SpecId::CANCUN, &|js, db| { let _ = js.transfer(&a, &b, U256::from(5), db).unwrap(); });
    case("inc_nonce", SpecId::CANCUN, &|js, _| { let _ = js.inc_nonce(a); });
    case("set_code", SpecId::CANCUN, &|js, _| js.set_code(a, Bytecode::new_legacy(Bytes::from_static(&[0x60, 0x01, 0x00]))));
    case("sstore existing slot", SpecId::CANCUN, &|js, db| { let _ = js.sstore(a, U256::from(1), U256::from(77), db).unwrap(); });
    case("sstore empty slot", SpecId::CANCUN, &|js, db| { let _ = js.sstore(a, U256::from(2), U256::from(78), db).unwrap(); });
    case("sstore twice", SpecId::CANCUN, &|js, db| { let _ = js.sstore(a, U256::from(1), U256::from(77), db).unwrap(); let _ = js.sstore(a, U256::from(1), U256::from(79), db).unwrap(); });
    case("tstore new key", SpecId::CANCUN, &|js, _| js.tstore(a, U256::from(8), U256::from(80)));
    case("tstore overwrite", SpecId::CANCUN, &|js, _| js.tstore(a, U256::from(9), U256::from(91)));
    case("tstore to zero", SpecId::CANCUN, &|js, _| js.tstore(a, U256::from(9), U256::ZERO));
    case("log", SpecId::CANCUN, &|js, _| js.log(Log { address: a, data: LogData::new_unchecked(vec![], Bytes::from_static(&[1, 2, 3])) }));
    case("touch", SpecId::CANCUN, &|js, _| js.touch(&b));
    case("selfdestruct to other (Shanghai)", SpecId::SHANGHAI, &|js, db| { let _ = js.selfdestruct(a, b, db).unwrap(); });
    case("selfdestruct to self (Shanghai)", SpecId::SHANGHAI, &|js, db| { let _ = js.selfdestruct(a, a, db).unwrap(); });
    case("selfdestruct to other (Cancun, not created)", SpecId::CANCUN, &|js, db| { let _ = js.selfdestruct(a, b, db).unwrap(); });
    case("selfdestruct twice (Shanghai)", SpecId::SHANGHAI, &|js, db| { let _ = js.selfdestruct(a, b, db).unwrap(); let _ = js.selfdestruct(a, b, db).unwrap(); });
    case("create account", SpecId::CANCUN, &|js, _| { let _ = js.create_account_checkpoint(a, fresh, false, U256::from(7), SpecId::CANCUN).unwrap(); js.checkpoint_commit(); });
    case("create account then write storage", SpecId::CANCUN, &|js, db| {
        let _ = js.create_account_checkpoint(a, fresh, false, U256::from(7), SpecId::CANCUN).unwrap();
        let _ = js.sstore(fresh, U256::from(4), U256::from(44), db).unwrap();
        js.checkpoint_commit();
    });
    case("inner checkpoint committed, outer reverted", SpecId::CANCUN, &|js, db| {
        let _ = js.transfer(&a, &b, U256::from(5), db).unwrap();
        let _inner = js.checkpoint();
        let _ = js.inc_nonce(b);
        let _ = js.sstore(a, U256::from(1), U256::from(5), db).unwrap();
        js.checkpoint_commit();
        js.tstore(b, U256::from(1), U256::from(2));
    });
    case("inner checkpoint reverted, outer reverted", SpecId::CANCUN, &|js, db| {
        let _ = js.inc_nonce(a);
        let inner = js.checkpoint();
        let _ = js.transfer(&b, &a, U256::from(1), db).unwrap();
        js.checkpoint_revert(inner);
        let _ = js.inc_nonce(a);
    });
    case("same slot written in the outer and in a committed inner frame, outer reverted", SpecId::CANCUN, &|js, db| {
        let _ = js.sstore(a, U256::from(1), U256::from(21), db).unwrap();
        js.tstore(a, U256::from(9), U256::from(91));
        let _inner = js.checkpoint();
        let _ = js.sstore(a, U256::from(1), U256::from(22), db).unwrap();
        js.tstore(a, U256::from(9), U256::from(92));
        js.checkpoint_commit();
    });
    // an inner revert alone must keep what the outer frame did before it
    {
        let (mut js, mut db) = base(SpecId::CANCUN);
        let _ = js.inc_nonce(a);
        let mid = js.clone();
        let inner = js.checkpoint();
        let _ = js.transfer(&a, &b, U256::from(5), &mut db).unwrap();
        let _ = js.sstore(a, U256::from(1), U256::from(3), &mut db).unwrap();
        js.checkpoint_revert(inner);
        out += &format!("[roundtrip inner revert keeps the outer frame's changes restored={}{}] ", js == mid, if js == mid { "" } else { " MISMATCH" });
        // a commit keeps everything
        let c = js.checkpoint();
        let _ = js.inc_nonce(b);
        let n = js.state.get(&b).unwrap().info.nonce;
        js.checkpoint_commit();
        let kept = js.state.get(&b).unwrap().info.nonce == n && js.depth() == mid.depth();
        let _ = c;
        out += &format!("[roundtrip commit keeps the changes kept={}{}] ", kept, if kept { "" } else { " MISMATCH" });
    }
    // cold loads inside a reverted frame are forgotten: the next access is cold again
    {
        let mut db = CacheDB::new(EmptyDB::default());
        db.insert_account_info(a, AccountInfo { nonce: 3, balance: U256::from(1000), code_hash: revm::primitives::KECCAK_EMPTY, code: None });
        db.insert_account_storage(a, U256::from(1), U256::from(11)).unwrap();
        let mut js = JournaledState::new(SpecId::CANCUN, HashSet::default());
        let cp = js.checkpoint();
        let c1 = js.load_account(a, &mut db).unwrap().is_cold;
        let s1 = js.sload(a, U256::from(1), &mut db).unwrap().is_cold;
        js.checkpoint_revert(cp);
        let c2 = js.load_account(a, &mut db).unwrap().is_cold;
        let s2 = js.sload(a, U256::from(1), &mut db).unwrap().is_cold;
        let ok = c1 && s1 && c2 && s2;
        out += &format!("[roundtrip cold loads forgotten account={}->{} slot={}->{}{}] ", c1, c2, s1, s2, if ok { "" } else { " MISMATCH" });
    }
    // a slot that was warm before a creation at its address is still warm after the creation is reverted (e.g. an access-list key)
    {
        let (mut js, mut db) = base(SpecId::CANCUN);
        let warm_before = !js.state.get(&fresh).unwrap().storage.get(&U256::from(4)).unwrap().is_cold;
        let cp = js.create_account_checkpoint(a, fresh, false, U256::from(7), SpecId::CANCUN).unwrap();
        js.checkpoint_revert(cp);
        let again = js.sload(fresh, U256::from(4), &mut db).unwrap().is_cold;
        out += &format!("[roundtrip warm slot survives a reverted creation warm_before={} cold_after={}{}] ", warm_before, again, if warm_before && !again { "" } else { " MISMATCH" });
    }
    // a write over a slot that was already dirty at the checkpoint goes back to the dirty value, not to the original one
    {
        let (mut js, mut db) = base(SpecId::CANCUN);
        let _ = js.sstore(a, U256::from(1), U256::from(77), &mut db).unwrap();
        let before = js.clone();
        let cp = js.checkpoint();
        let _ = js.sstore(a, U256::from(1), U256::from(79), &mut db).unwrap();
        js.checkpoint_revert(cp);
        let v = js.state.get(&a).unwrap().storage.get(&U256::from(1)).unwrap().present_value;
        out += &format!("[roundtrip sstore over a dirty slot value={} restored={}{}] ", v, js == before, if js == before { "" } else { " MISMATCH" });
    }
    // the forward side of two operations: a nonce bump and a code change mark the account touched (state clearing relies on it)
    {
        let (mut js, _db) = base(SpecId::CANCUN);
        let t0 = js.state.get(&b).unwrap().is_touched();
        let _ = js.inc_nonce(b);
        let t1 = js.state.get(&b).unwrap().is_touched();
        out += &format!("[roundtrip inc_nonce touches the account before={} after={}{}] ", t0, t1, if !t0 && t1 { "" } else { " MISMATCH" });
        let (mut js, _db) = base(SpecId::CANCUN);
        js.set_code(b, Bytecode::new_legacy(Bytes::from_static(&[0x00])));
        let t1 = js.state.get(&b).unwrap().is_touched();
        out += &format!("[roundtrip set_code touches the account after={}{}] ", t1, if t1 { "" } else { " MISMATCH" });
    }
    out
}
