//! Shared helpers: loop-free equality and symbolic constructors.
use revm_primitives::{Address, B256, U256};

/// Symbolic 256-bit word built from four symbolic limbs.
#[cfg(kani)]
pub fn any_u256() -> U256 {
    let l: [u64; 4] = kani::any();
    U256::from_limbs(l)
}

/// Loop-free equality on words (`==` on `Uint` compiles to a limb loop / memcmp).
#[inline(always)]
pub fn ueq(a: &U256, b: &U256) -> bool {
    let a = a.as_limbs();
    let b = b.as_limbs();
    (a[0] == b[0]) & (a[1] == b[1]) & (a[2] == b[2]) & (a[3] == b[3])
}

#[inline(always)]
pub fn limbs(a: &U256) -> [u64; 4] {
    let l = a.as_limbs();
    [l[0], l[1], l[2], l[3]]
}

#[inline(always)]
pub fn is_zero(a: &U256) -> bool {
    let a = a.as_limbs();
    (a[0] | a[1] | a[2] | a[3]) == 0
}

/// Cheap harness used by the driver as the filter of the primary (dependency) build.
#[cfg(kani)]
#[kani::proof]
fn build_probe() {
    let x: u8 = kani::any();
    assert!(x as u16 <= 255);
}

// ---------------------------------------------------------------------------------------------
// A host on which every call is a failure: the pure opcodes (arithmetic, stack, memory, control)
// must never touch it, and state-changing opcodes in static mode must never reach it.
use revm_interpreter::{AccountLoad, Host, SStoreResult, SelfDestructResult, StateLoad};
use revm_primitives::{Bytes, Env, Log};

pub struct NoHost;

impl Host for NoHost {
    fn env(&self) -> &Env {
        panic!("host called: env")
    }
    fn env_mut(&mut self) -> &mut Env {
        panic!("host called: env_mut")
    }
    fn load_account_delegated(&mut self, _a: Address) -> Option<AccountLoad> {
        panic!("host called: load_account_delegated")
    }
    fn block_hash(&mut self, _n: u64) -> Option<B256> {
        panic!("host called: block_hash")
    }
    fn balance(&mut self, _a: Address) -> Option<StateLoad<U256>> {
        panic!("host called: balance")
    }
    fn code(&mut self, _a: Address) -> Option<StateLoad<Bytes>> {
        panic!("host called: code")
    }
    fn code_hash(&mut self, _a: Address) -> Option<StateLoad<B256>> {
        panic!("host called: code_hash")
    }
    fn sload(&mut self, _a: Address, _i: U256) -> Option<StateLoad<U256>> {
        panic!("host called: sload")
    }
    fn sstore(&mut self, _a: Address, _i: U256, _v: U256) -> Option<StateLoad<SStoreResult>> {
        panic!("host called: sstore")
    }
    fn tload(&mut self, _a: Address, _i: U256) -> U256 {
        panic!("host called: tload")
    }
    fn tstore(&mut self, _a: Address, _i: U256, _v: U256) {
        panic!("host called: tstore")
    }
    fn log(&mut self, _l: Log) {
        panic!("host called: log")
    }
    fn selfdestruct(&mut self, _a: Address, _t: Address) -> Option<StateLoad<SelfDestructResult>> {
        panic!("host called: selfdestruct")
    }
}
