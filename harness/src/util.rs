//! Shared helpers: loop-free equality and symbolic constructors.
use revm_primitives::{Address, B256, U256};

/// Symbolic 256-bit word built from four symbolic limbs.
#[cfg(kani)]
pub fn any_u256() -> U256 {
    let l: [u64; 4] = kani::any();
    U256::from_limbs(l)
}

/// Loop-free equality on words (`==` on `Uint` compiles to a limb loop / memcmp).
#[inline(always)]
pub fn ueq(a: &U256, b: &U256) -> bool {
    let a = a.as_limbs();
    let b = b.as_limbs();
    (a[0] == b[0]) & (a[1] == b[1]) & (a[2] == b[2]) & (a[3] == b[3])
}

#[inline(always)]
pub fn limbs(a: &U256) -> [u64; 4] {
    let l = a.as_limbs();
    [l[0], l[1], l[2], l[3]]
}

#[inline(always)]
pub fn is_zero(a: &U256) -> bool {
    let a = a.as_limbs();
    (a[0] | a[1] | a[2] | a[3]) == 0
}

/// Cheap harness used by the driver as the filter of the primary (dependency) build.
#[cfg(kani)]
#[kani::proof]
fn build_probe() {
    let x: u8 = kani::any();
    assert!(x as u16 <= 255);
}
