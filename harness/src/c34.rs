//! C34 — the bit-level half of the warming kernel (crates/primitives/src/state.rs).
//! `JournaledState::load_account` / `sload` (decided by the MIR provenance-flow job) report what `mark_warm` returns; these harnesses
//! decide what `mark_warm` / `mark_cold` do for every status byte and every slot: cold is reported exactly once, only the cold mark
//! changes, and freshly loaded accounts and slots start warm (their first access is reported cold by the loader itself).
#![cfg(kani)]
use crate::util::any_u256;
use revm::primitives::{Account, AccountInfo, AccountStatus, EvmStorageSlot};

pub fn stub_random_state() -> std::hash::RandomState {
    // the (empty) storage map is never hashed into; std's constructor reaches getrandom, which Kani cannot model
    unsafe { core::mem::transmute::<[u64; 2], std::hash::RandomState>([0, 0]) }
}

const COLD: u8 = 0b0010000;

#[kani::proof]
#[kani::unwind(6)]
#[kani::stub(std::hash::RandomState::new, stub_random_state)]
fn c34_account_mark_warm_cold() {
    let bits: u8 = kani::any();
    let mut a = Account::new_not_existing();
    a.status = AccountStatus::from_bits_retain(bits);
    let was_cold = bits & COLD != 0;
    let first = a.mark_warm();
    assert!(first == was_cold, "mark_warm must report exactly whether the account was cold");
    assert!(a.status.bits() == bits & !COLD, "mark_warm must clear the cold mark and nothing else");
    let second = a.mark_warm();
    assert!(!second, "a second mark_warm must report warm");
    assert!(a.status.bits() == bits & !COLD, "a second mark_warm must change nothing");
    a.mark_cold();
    assert!(a.status.bits() == (bits & !COLD) | COLD, "mark_cold must set the cold mark and nothing else");
    assert!(a.mark_warm(), "after mark_cold the next mark_warm must report cold");
    kani::cover!(was_cold && bits != COLD, "cold account with other flags reachable");
    kani::cover!(!was_cold && bits != 0, "warm account with other flags reachable");
    core::mem::forget(a);
}

#[kani::proof]
#[kani::unwind(6)]
#[kani::stub(std::hash::RandomState::new, stub_random_state)]
fn c34_loaded_accounts_start_warm() {
    let a = Account::new_not_existing();
    assert!(a.status.bits() & COLD == 0, "an account loaded as not existing must not carry the cold mark");
    let info = AccountInfo { balance: any_u256(), nonce: kani::any(), code_hash: revm::primitives::KECCAK_EMPTY, code: None };
    let b: Account = info.into();
    assert!(b.status.bits() & COLD == 0, "an account loaded from the database must not carry the cold mark");
    assert!(AccountStatus::Cold.bits() == COLD, "the cold mark is bit 4");
    assert!(AccountStatus::default().bits() & COLD == 0, "the default status is warm");
    kani::cover!(true, "reached");
    core::mem::forget(a);
    core::mem::forget(b);
}

#[kani::proof]
#[kani::unwind(34)] // `==` on 256-bit words is a 32-byte memcmp loop
fn c34_slot_mark_warm_cold() {
    let (orig, pres) = (any_u256(), any_u256());
    let cold: bool = kani::any();
    let mut s = EvmStorageSlot { original_value: orig, present_value: pres, is_cold: cold };
    let first = s.mark_warm();
    assert!(first == cold, "slot mark_warm must report exactly whether the slot was cold");
    assert!(!s.is_cold && s.original_value == orig && s.present_value == pres, "slot mark_warm must clear the cold mark and keep the values");
    assert!(!s.mark_warm(), "a second slot mark_warm must report warm");
    s.mark_cold();
    assert!(s.is_cold && s.original_value == orig && s.present_value == pres, "slot mark_cold must set the cold mark and keep the values");
    let n = EvmStorageSlot::new(orig);
    assert!(!n.is_cold && n.original_value == orig && n.present_value == orig, "a freshly loaded slot is warm and unchanged");
    let c = EvmStorageSlot::new_changed(orig, pres);
    assert!(!c.is_cold && c.original_value == orig && c.present_value == pres, "a freshly written slot is warm and keeps both values");
    kani::cover!(cold, "cold slot reachable");
    kani::cover!(!cold, "warm slot reachable");
}

/// Vacuity twin.
#[kani::proof]
#[kani::unwind(6)]
#[kani::stub(std::hash::RandomState::new, stub_random_state)]
fn c34_twin_must_fail() {
    let bits: u8 = kani::any();
    let mut a = Account::new_not_existing();
    a.status = AccountStatus::from_bits_retain(bits);
    let _ = a.mark_warm();
    core::mem::forget(a);
    assert!(false);
}
