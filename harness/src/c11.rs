//! C11 — Each call frame sees its own zero-initialised memory.
//! Units: revm_interpreter::SharedMemory (new_context / free_context / resize / set* / set_data / copy),
//! revm_interpreter::interpreter::resize_memory, Interpreter::insert_call_outcome.
//! Context lengths are concrete per harness (a symbolic length becomes a symbolic-length memset/memcpy);
//! all byte contents, offsets inside the window and gas values are symbolic. Every byte of a context is checked
//! through a symbolic witness index.
#![cfg(kani)]
use crate::util::*;
use revm_interpreter::interpreter::resize_memory;
use revm_interpreter::{CallOutcome, Gas, InstructionResult, Interpreter, InterpreterResult, SharedMemory};
use revm_primitives::{Bytes, U256};

const CAP: usize = 512;

/// Memory with one (root) context of `p` bytes holding the symbolic bytes `init[..p]`.
fn mem_with_parent(p: usize, init: &[u8; 96]) -> SharedMemory {
    let mut m = SharedMemory::with_capacity(CAP);
    m.new_context();
    m.resize(p);
    if p > 0 {
        m.set(0, &init[..p]);
    }
    m
}

fn mg(words: u64) -> u64 {
    3 * words + words * words / 512
}

// ------------------------------------------------------------------ child contexts
fn body_child_context(p: usize, c: usize) {
    let init: [u8; 96] = kani::any();
    let junk: u8 = kani::any();
    let k: usize = kani::any(); // witness index
    let mut m = mem_with_parent(p, &init);
    assert!(m.len() == p);
    // --- child frame starts empty
    m.new_context();
    assert!(m.len() == 0 && m.is_empty(), "a new context must start with empty memory");
    m.resize(c);
    assert!(m.len() == c);
    if c > 0 {
        kani::assume(k < 96);
        if k < c {
            assert!(m.get_byte(k) == 0, "fresh child memory must be zero");
        }
        // the child dirties its memory at an arbitrary position with an arbitrary byte
        // (first and last byte of the child's memory)
        // (first and last byte, concrete positions: a symbolic-position write is a symbolic-offset memcpy)
        m.set_byte(0, junk);
        m.set_byte(c - 1, junk);
        assert!(m.get_byte(0) == junk && m.get_byte(c - 1) == junk);
    }
    // --- child returns: parent is byte-for-byte what it was, same size
    m.free_context();
    assert!(m.len() == p, "parent memory size changed across a child frame");
    if p > 0 {
        kani::assume(k < 96);
        if k < p {
            assert!(m.get_byte(k) == init[k], "parent memory changed across a child frame");
        }
    }
    // (that a later frame growing over the returned child's bytes reads zeros rests on `Vec::resize(_, 0)` writing every
    // new element — std semantics, exercised from a fresh allocation in c11_resize_*; a resize *after* free_context does not
    // close in CBMC because the restored length is read back from the heap and stops being a constant)
    kani::cover!(junk != 0);
    core::mem::forget(m);
}

macro_rules! inst2 {
    ($body:ident, $unwind:literal: $($name:ident = ($a:literal, $b:literal)),* $(,)?) => {
        $(
            #[kani::proof]
            #[kani::unwind($unwind)]
            fn $name() {
                $body($a, $b);
            }
        )*
    };
}
inst2!(body_child_context, 100: c11_child_p0_c32 = (0, 32), c11_child_p32_c64 = (32, 64), c11_child_p64_c0 = (64, 0), c11_child_p96_c96 = (96, 96));

// ------------------------------------------------------------------ expansion-cost base follows the current frame
/// The amount already paid for (`current_expansion_cost`) is that of the *current* frame's size: the child's inside the
/// child, the parent's own again after the child returned — whatever the child's memory use was.
fn body_cost_base(p: usize, c: usize) {
    let mut m = SharedMemory::with_capacity(CAP);
    m.new_context();
    m.resize(p);
    assert!(m.current_expansion_cost() == mg((p as u64 + 31) / 32));
    m.new_context();
    assert!(m.current_expansion_cost() == 0, "a fresh frame has paid for no memory yet");
    m.resize(c);
    assert!(m.current_expansion_cost() == mg((c as u64 + 31) / 32), "child's expansion-cost base is not its own size");
    m.free_context();
    assert!(m.len() == p);
    assert!(m.current_expansion_cost() == mg((p as u64 + 31) / 32), "expansion-cost base after a child frame is not the parent's own memory size");
    kani::cover!(m.len() == p);
    core::mem::forget(m);
}
inst2!(body_cost_base, 100: c11_cost_base_p32_c64 = (32, 64), c11_cost_base_p0_c96 = (0, 96), c11_cost_base_p64_c0 = (64, 0));

// ------------------------------------------------------------------ resize: grows, zero fill, keeps old bytes
fn body_resize(a: usize, b: usize) {
    let init: [u8; 96] = kani::any();
    let k: usize = kani::any();
    kani::assume(k < 96);
    let mut m = mem_with_parent(a, &init);
    m.resize(b);
    assert!(m.len() == b);
    if k < a {
        assert!(m.get_byte(k) == init[k], "resize changed an existing byte");
    } else if k < b {
        assert!(m.get_byte(k) == 0, "resize did not zero-fill the new bytes");
    }
    kani::cover!(k + 1 == 96);
    core::mem::forget(m);
}
inst2!(body_resize, 100: c11_resize_0_32 = (0, 32), c11_resize_32_96 = (32, 96), c11_resize_64_64 = (64, 64));

// ------------------------------------------------------------------ resize_memory: quadratic charge, failure changes nothing
/// `cur`/`new_size` concrete; `after_child`: the parent grows after a child frame that itself used memory came and went.
fn body_resize_memory(cur: usize, new_size: usize, after_child: bool) {
    let init: [u8; 96] = kani::any();
    let gas0: u64 = kani::any();
    let k: usize = kani::any();
    kani::assume(k < 96);
    let mut m = mem_with_parent(cur, &init);
    if after_child {
        // stale bytes of an earlier frame above the current length (see body_stale)
        m.resize(cur + 64);
        m.resize(cur);
    }
    let mut gas = Gas::new(gas0);
    let ok = resize_memory(&mut m, &mut gas, new_size);
    let cur_words = (cur as u64 + 31) / 32;
    let new_words = (new_size as u64 + 31) / 32;
    let cost = mg(new_words) - mg(cur_words);
    assert!(ok == (gas0 >= cost), "memory expansion must succeed exactly when the quadratic cost is affordable");
    if ok {
        assert!(gas.remaining() == gas0 - cost, "memory expansion must charge memory_gas(new) - memory_gas(old)");
        assert!(m.len() == new_words as usize * 32, "memory size must be the word-aligned new size");
        if k < cur {
            assert!(m.get_byte(k) == init[k], "expansion changed existing memory");
        } else if k < m.len() {
            assert!(m.get_byte(k) == 0, "expansion did not zero-fill");
        }
    } else {
        assert!(gas.remaining() == gas0, "failed expansion must not charge");
        assert!(m.len() == cur, "failed expansion must not resize");
        if k < cur {
            assert!(m.get_byte(k) == init[k]);
        }
    }
    kani::cover!(ok);
    kani::cover!(!ok);
    kani::cover!(gas0 == cost);
    core::mem::forget(m);
}
macro_rules! inst3 {
    ($body:ident, $unwind:literal: $($name:ident = ($a:literal, $b:literal, $c:literal)),* $(,)?) => {
        $(
            #[kani::proof]
            #[kani::unwind($unwind)]
            fn $name() {
                $body($a, $b, $c);
            }
        )*
    };
}
inst3!(body_resize_memory, 100:
    c11_expand_0_to_1 = (0, 1, false),
    c11_expand_0_to_33 = (0, 33, false),
    c11_expand_32_to_64 = (32, 64, false),
    c11_expand_32_to_96_after_child = (32, 96, true),
    c11_expand_0_to_32_after_child = (0, 32, true),
);

/// Unaffordable sizes: for every new_size above 2^32 bytes and every gas below 2^40 the expansion fails and nothing changes.
#[kani::proof]
#[kani::unwind(100)]
fn c11_expand_huge_fails() {
    let init: [u8; 96] = kani::any();
    let gas0: u64 = kani::any();
    let new_size: usize = kani::any();
    kani::assume(new_size > 1 << 32 && gas0 < 1 << 40);
    let mut m = mem_with_parent(32, &init);
    let mut gas = Gas::new(gas0);
    let ok = resize_memory(&mut m, &mut gas, new_size);
    assert!(!ok, "a > 4 GiB expansion (>= 2^55 gas) was accepted with < 2^40 gas");
    assert!(gas.remaining() == gas0 && m.len() == 32);
    kani::cover!(new_size == usize::MAX);
    core::mem::forget(m);
}

// ------------------------------------------------------------------ writes touch only their window of the current context
fn body_set_window(c: usize, n: usize, off: usize, doff: usize) {
    // sizes and offsets concrete per harness (symbolic offsets are symbolic-offset memcpys); contents and the
    // checked position symbolic. Parent context: 32 bytes.
    let p = 32usize;
    let init: [u8; 96] = kani::any();
    let cinit: [u8; 96] = kani::any();
    let val: [u8; 96] = kani::any();
    let k: usize = kani::any();
    let mode: u8 = kani::any();
    kani::assume(k < 96 && mode < 3);
    let mut m = mem_with_parent(p, &init);
    m.new_context();
    m.resize(c);
    m.set(0, &cinit[..c]);
    let dlen = 24; // source buffer length for set_data
    let src = doff % (c - n + 1);
    match mode {
        0 => m.set(off, &val[..n]),
        1 => m.set_data(off, doff, n, &val[..dlen]),
        _ => m.copy(off, src, n),
    }
    assert!(m.len() == c, "a write changed the memory size");
    if k < c {
        let got = m.get_byte(k);
        let inside = k >= off && k < off + n;
        let want = if !inside {
            cinit[k]
        } else {
            let i = k - off;
            match mode {
                0 => val[i],
                1 => if doff + i < dlen { val[doff + i] } else { 0 },
                _ => cinit[src + i],
            }
        };
        assert!(got == want, "write did not produce exactly the addressed window (set / set_data zero padding / copy)");
    }
    m.free_context();
    assert!(m.len() == p);
    if k < p {
        assert!(m.get_byte(k) == init[k], "a child write leaked into the parent's memory");
    }
    kani::cover!(mode == 1);
    kani::cover!(mode == 2);
    kani::cover!(mode == 0);
    core::mem::forget(m);
}
macro_rules! inst4 {
    ($body:ident, $unwind:literal: $($name:ident = ($a:literal, $b:literal, $c:literal, $d:literal)),* $(,)?) => {
        $(
            #[kani::proof]
            #[kani::unwind($unwind)]
            fn $name() {
                $body($a, $b, $c, $d);
            }
        )*
    };
}
inst4!(body_set_window, 100:
    c11_window_c64_n8_off0_d0 = (64, 8, 0, 0),
    c11_window_c64_n8_off56_d20 = (64, 8, 56, 20),
    c11_window_c64_n32_off17_d30 = (64, 32, 17, 30),
    c11_window_c32_n32_off0_d5 = (32, 32, 0, 5),
);

// ------------------------------------------------------------------ return-data window of a finished call
fn body_insert_call_outcome(ret_len: usize, out_len: usize) {
    let init: [u8; 96] = kani::any();
    let ret: [u8; 96] = kani::any();
    let k: usize = kani::any();
    let res_sel: u8 = kani::any();
    let gas_parent: u64 = kani::any();
    let child_limit: u64 = kani::any();
    let child_spent: u64 = kani::any();
    let child_refund: i64 = kani::any();
    kani::assume(k < 96 && res_sel < 5);
    kani::assume(child_spent <= child_limit && child_limit <= gas_parent && child_refund >= 0 && child_refund < 1 << 40);
    let out_offset = 16usize;
    let mut m = mem_with_parent(96, &init);
    let mut it = crate::c03::new_interp(gas_parent);
    it.stack = revm_interpreter::Stack::new();
    // the parent paid the child's gas limit when it made the call
    assert!(it.gas.record_cost(child_limit));
    let mut cg = Gas::new(child_limit);
    assert!(cg.record_cost(child_spent));
    cg.record_refund(child_refund);
    let result = match res_sel {
        0 => InstructionResult::Return,
        1 => InstructionResult::Stop,
        2 => InstructionResult::Revert,
        3 => InstructionResult::OutOfGas,
        _ => InstructionResult::InvalidJump,
    };
    let out = Bytes::copy_from_slice(&ret[..ret_len]);
    let outcome = CallOutcome::new(InterpreterResult::new(result, out, cg), out_offset..out_offset + out_len);
    it.insert_call_outcome(&mut m, outcome);

    let copied = if ret_len < out_len { ret_len } else { out_len };
    let ok = res_sel <= 1;
    let revert = res_sel == 2;
    assert!(m.len() == 96, "memory size changed when a call returned");
    let got = m.get_byte(k);
    if (ok || revert) && k >= out_offset && k < out_offset + copied {
        assert!(got == ret[k - out_offset], "return data was not copied into the output window");
    } else {
        assert!(got == init[k], "a byte outside [out_offset, out_offset+min(out_len, returndata)) changed when a call returned");
    }
    // gas: unspent child gas comes back on success and revert only; refunds only on success
    let back = if ok || revert { child_limit - child_spent } else { 0 };
    assert!(it.gas.remaining() == gas_parent - child_limit + back, "unspent gas returned incorrectly");
    assert!(it.gas.refunded() == if ok { child_refund } else { 0 }, "refund carried over incorrectly");
    assert!(it.stack.len() == 1 && is_zero(&it.stack.peek(0).unwrap()) == !ok, "call status word");
    assert!(it.instruction_result == InstructionResult::Continue);
    kani::cover!(ok && k >= out_offset);
    kani::cover!(revert);
    kani::cover!(res_sel == 3);
    core::mem::forget(m);
    core::mem::forget(it);
}
inst2!(body_insert_call_outcome, 100:
    c11_outcome_ret8_out16 = (8, 16),
    c11_outcome_ret40_out16 = (40, 16),
    c11_outcome_ret0_out16 = (0, 16),
    c11_outcome_ret16_out0 = (16, 0),
);

#[kani::proof]
#[kani::unwind(100)]
fn c11_twin_must_fail() {
    body_child_context(32, 64);
    assert!(false);
}

