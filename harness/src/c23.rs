//! C23 — Precompiles return the output and gas their EIPs define (PARTIAL: gas, OutOfGas <=> cost > limit,
//! input slicing / padding and failure conditions; EVERY cryptographic kernel is stubbed).
//!
//! Units (real code, crates/precompile/src): `calc_linear_cost_u32`, `identity::FUN`, `hash::SHA256`, `hash::RIPEMD160`,
//! `secp256k1::ECRECOVER`, `modexp::{calculate_iteration_count, byzantium_gas_calc, berlin_gas_calc, BYZANTIUM, BERLIN}`,
//! `blake2::FUN`, `bn128::{add,mul,pair}::{BYZANTIUM,ISTANBUL}`, `bn128::read_fq`.
//! The run functions are entered through the published `PrecompileWithAddress` constants (address + fn pointer), so the
//! fork <-> gas-constant wiring of the constants is part of what is checked.
//!
//! References are written here from the Yellow Paper app. E and EIP-152/196/197/198/1108/2565 in plain integer arithmetic
//! (u64/u128), never by calling the code under test.
//!
//! Stubs (all listed in REGISTRY_c23.py / NOTES_c23.md):
//!   sha2::sha256::x86::compress, ripemd::c160::compress            -> no-op (digest value is outside)
//!   revm_precompile::secp256k1::ecrecover                          -> records (sig, recid, msg), returns a harness-chosen result
//!   aurora_engine_modexp::modexp                                   -> records (base, exp, mod), returns harness-chosen bytes
//!   revm_precompile::modexp::{berlin,byzantium}_gas_calc           -> in the modexp RUN harnesses only: the fork's own function records its
//!                                                                    arguments and returns a symbolic cost, the other fork's asserts false
//!   revm_precompile::blake2::algo::compress                        -> records (rounds, h, m, t, f), overwrites h with harness-chosen words
//!   revm_precompile::bn128::read_point                             -> records the 64-byte slice, returns harness-chosen Ok(point at infinity) / Err
//!   ruint::Uint::wrapping_mul / wrapping_div (operators * and /)    -> in the modexp GAS harnesses: uninterpreted recorders ("formula") or
//!                                                                    exact schoolbook product / long division ("vectors"); ruint's own
//!                                                                    kernels do not unwind in CBMC
//! Types of k256 / substrate-bn cannot be named from this crate (no direct dependency); stub signatures get them by
//! return-position `impl Sized` whose hidden type is pinned by inference from the real function (Kani compares revealed types).
//!
//! Bounds: input LENGTHS are concrete per harness (instantiated by macro at the lengths listed next to each `inst!`),
//! input BYTES and the gas limit are symbolic. The pure gas functions take fully symbolic integers (domains stated there).
//! Run with `--no-assertion-reach-checks`: Kani's per-assertion reachability checks each make CBMC print a full JSON trace
//! (158 traces = 1.5 GB, 265 s and 5.7 GB for one modexp instance instead of 24 s and 1.1 GB); vacuity is guarded by the
//! `kani::cover!` witnesses (all must be satisfied) and the twin.
#![cfg(kani)]
#![allow(static_mut_refs)]
use crate::util::*;
use revm_precompile::{
    Precompile, PrecompileError as PE, PrecompileErrors, PrecompileOutput, PrecompileResult, PrecompileWithAddress,
};
use revm_primitives::{alloy_primitives::B512, ruint::Uint, Bytes, B256, U256};

// =============================================================================================== helpers
macro_rules! is_err {
    ($r:expr, $v:ident) => {
        matches!($r, Err(PrecompileErrors::Error(PE::$v)))
    };
}

/// Call through the published constant: the `Standard` fn pointer stored next to the address.
#[inline(always)]
fn call(p: &PrecompileWithAddress, input: &Bytes, limit: u64) -> PrecompileResult {
    match &p.1 {
        Precompile::Standard(f) => f(input, limit),
        _ => panic!("precompile constant is not a Standard precompile"),
    }
}

/// Address of the constant is 0x00..00<n> (loop-free).
fn addr_is(p: &PrecompileWithAddress, n: u8) -> bool {
    let a: [u8; 20] = p.0 .0 .0;
    let hi = u128::from_be_bytes([
        a[0], a[1], a[2], a[3], a[4], a[5], a[6], a[7], a[8], a[9], a[10], a[11], a[12], a[13], a[14], a[15],
    ]);
    hi == 0 && a[16] == 0 && a[17] == 0 && a[18] == 0 && a[19] == n
}

/// Symbolic buffer of `L` bytes (L = largest input length of the family); the input is its first `n` bytes
/// (n concrete at every call site).
fn input_of<const L: usize>(buf: &[u8; L], n: usize) -> Bytes {
    Bytes::copy_from_slice(&buf[..n])
}
/// The input extended with zeros to the right ("infinite right padding" of the EIPs).
#[inline(always)]
fn padded<const L: usize>(buf: &[u8; L], n: usize, i: usize) -> u8 {
    if i < n {
        buf[i]
    } else {
        0
    }
}
/// Symbolic witness index below `n` (n > 0).
fn witness(j: usize, n: usize) -> usize {
    kani::assume(j < n);
    j
}

fn words32(n: usize) -> u64 {
    (n as u64 + 31) / 32
}

macro_rules! inst {
    ($body:ident, $unwind:literal, $stubs:tt: $($name:ident = $args:tt),* $(,)?) => {
        $( inst!(@one $body, $unwind, $stubs, $name, $args); )*
    };
    (@one $body:ident, $unwind:literal, [$($stub:meta),*], $name:ident, ($($arg:expr),*)) => {
        #[kani::proof]
        #[kani::unwind($unwind)]
        $(#[$stub])*
        fn $name() {
            $body($($arg),*);
        }
    };
}

// =============================================================================================== addresses
/// Yellow Paper app. E / EIP-196/197/198/152: precompile numbering 1..9.
#[kani::proof]
fn c23_addresses() {
    use revm_precompile::*;
    assert!(addr_is(&secp256k1::ECRECOVER, 1), "ecrecover is not at address 1");
    assert!(addr_is(&hash::SHA256, 2), "sha256 is not at address 2");
    assert!(addr_is(&hash::RIPEMD160, 3), "ripemd160 is not at address 3");
    assert!(addr_is(&identity::FUN, 4), "identity is not at address 4");
    assert!(addr_is(&modexp::BYZANTIUM, 5), "modexp (byzantium) is not at address 5");
    assert!(addr_is(&modexp::BERLIN, 5), "modexp (berlin) is not at address 5");
    assert!(addr_is(&bn128::add::BYZANTIUM, 6), "bn128 add (byzantium) is not at address 6");
    assert!(addr_is(&bn128::add::ISTANBUL, 6), "bn128 add (istanbul) is not at address 6");
    assert!(addr_is(&bn128::mul::BYZANTIUM, 7), "bn128 mul (byzantium) is not at address 7");
    assert!(addr_is(&bn128::mul::ISTANBUL, 7), "bn128 mul (istanbul) is not at address 7");
    assert!(addr_is(&bn128::pair::BYZANTIUM, 8), "bn128 pairing (byzantium) is not at address 8");
    assert!(addr_is(&bn128::pair::ISTANBUL, 8), "bn128 pairing (istanbul) is not at address 8");
    assert!(addr_is(&blake2::FUN, 9), "blake2f is not at address 9");
}

// =============================================================================================== linear cost
/// `calc_linear_cost_u32(len, base, word) == base + word * ceil(len / 32)` for every len <= 2^32 and the three
/// (base, word) pairs in use (15,3) (60,12) (600,120). Bound: len <= 2^32 (the name of the function; EVM memory).
#[kani::proof]
fn c23_linear_cost() {
    let len: usize = kani::any();
    let which: u8 = kani::any();
    kani::assume(len as u64 <= 1u64 << 32);
    kani::assume(which < 3);
    let (base, word) = match which {
        0 => (15u64, 3u64),
        1 => (60, 12),
        _ => (600, 120),
    };
    let w = (len as u128 + 31) / 32;
    let want = base as u128 + word as u128 * w;
    let got = revm_precompile::calc_linear_cost_u32(len, base, word);
    assert!(got as u128 == want, "calc_linear_cost_u32 != base + word * ceil(len/32)");
    kani::cover!(len == 1usize << 32);
    kani::cover!(len % 32 == 1);
    kani::cover!(len == 0);
}

// =============================================================================================== identity (0x04)
/// Yellow Paper: gas 15 + 3*ceil(len/32), output == input. Lengths: see inst (<= 40 B).
fn body_identity(n: usize) {
    let limit: u64 = kani::any();
    let buf: [u8; 40] = kani::any();
    let j: usize = kani::any();
    let input = input_of(&buf, n);
    let want = 15 + 3 * words32(n);
    let r = call(&revm_precompile::identity::FUN, &input, limit);
    if want > limit {
        assert!(is_err!(&r, OutOfGas), "identity: cost > limit must be OutOfGas");
    } else {
        let Ok(out) = &r else { panic!("identity: cost <= limit must succeed") };
        assert!(out.gas_used == want, "identity: gas != 15 + 3*ceil(len/32)");
        assert!(out.bytes.len() == n, "identity: output length != input length");
        if n > 0 {
            let j = witness(j, n);
            assert!(out.bytes[j] == buf[j], "identity: output byte differs from input byte");
        }
    }
    kani::cover!(want > limit);
    kani::cover!(want == limit);
    core::mem::forget(r);
    core::mem::forget(input);
}
inst!(body_identity, 4, []:
    c23_identity_0 = (0), c23_identity_1 = (1), c23_identity_32 = (32), c23_identity_33 = (33), c23_identity_40 = (40));

// =============================================================================================== SHA-256 (0x02) / RIPEMD-160 (0x03)
fn stub_sha256_compress(_state: &mut [u32; 8], _blocks: &[[u8; 64]]) {}
fn stub_ripemd_compress(_h: &mut [u32; 5], _data: &[u8; 64]) {}

/// Yellow Paper: SHA-256 gas 60 + 12*ceil(len/32), RIPEMD-160 gas 600 + 120*ceil(len/32); 32-byte output
/// (RIPEMD: 20-byte digest left-padded with 12 zero bytes). Digest value: outside (compression function is a no-op stub).
/// `run` is a closure over ONE published constant, so that each harness links only its own hash (the other one's
/// unrolled compression function is a huge straight-line body that stalls goto-instrument even when unreachable).
fn body_hash<F: Fn(&Bytes, u64) -> PrecompileResult>(n: usize, ripemd: bool, run: F) {
    let limit: u64 = kani::any();
    let buf: [u8; 130] = kani::any();
    let input = input_of(&buf, n);
    let want = if ripemd { 600 + 120 * words32(n) } else { 60 + 12 * words32(n) };
    let r = run(&input, limit);
    if want > limit {
        assert!(is_err!(&r, OutOfGas), "hash: cost > limit must be OutOfGas");
    } else {
        let Ok(out) = &r else { panic!("hash: cost <= limit must succeed") };
        assert!(out.gas_used == want, "hash: gas != base + per_word*ceil(len/32)");
        assert!(out.bytes.len() == 32, "hash: output is not 32 bytes");
        if ripemd {
            let b = &out.bytes;
            let z = b[0] | b[1] | b[2] | b[3] | b[4] | b[5] | b[6] | b[7] | b[8] | b[9] | b[10] | b[11];
            assert!(z == 0, "ripemd160: the 20-byte digest is not left-padded with 12 zero bytes");
        }
    }
    kani::cover!(want > limit);
    kani::cover!(want == limit);
    core::mem::forget(r);
    core::mem::forget(input);
}
inst!(body_hash, 70, [kani::stub(sha2::sha256::x86::compress, stub_sha256_compress)]:
    c23_sha256_0 = (0, false, |i: &Bytes, l: u64| call(&revm_precompile::hash::SHA256, i, l)), c23_sha256_1 = (1, false, |i: &Bytes, l: u64| call(&revm_precompile::hash::SHA256, i, l)), c23_sha256_32 = (32, false, |i: &Bytes, l: u64| call(&revm_precompile::hash::SHA256, i, l)), c23_sha256_33 = (33, false, |i: &Bytes, l: u64| call(&revm_precompile::hash::SHA256, i, l)),
    c23_sha256_64 = (64, false, |i: &Bytes, l: u64| call(&revm_precompile::hash::SHA256, i, l)), c23_sha256_65 = (65, false, |i: &Bytes, l: u64| call(&revm_precompile::hash::SHA256, i, l)), c23_sha256_130 = (130, false, |i: &Bytes, l: u64| call(&revm_precompile::hash::SHA256, i, l)));
inst!(body_hash, 70, [kani::stub(ripemd::c160::compress, stub_ripemd_compress)]:
    c23_ripemd_0 = (0, true, |i: &Bytes, l: u64| call(&revm_precompile::hash::RIPEMD160, i, l)), c23_ripemd_1 = (1, true, |i: &Bytes, l: u64| call(&revm_precompile::hash::RIPEMD160, i, l)), c23_ripemd_32 = (32, true, |i: &Bytes, l: u64| call(&revm_precompile::hash::RIPEMD160, i, l)), c23_ripemd_33 = (33, true, |i: &Bytes, l: u64| call(&revm_precompile::hash::RIPEMD160, i, l)),
    c23_ripemd_64 = (64, true, |i: &Bytes, l: u64| call(&revm_precompile::hash::RIPEMD160, i, l)), c23_ripemd_65 = (65, true, |i: &Bytes, l: u64| call(&revm_precompile::hash::RIPEMD160, i, l)), c23_ripemd_130 = (130, true, |i: &Bytes, l: u64| call(&revm_precompile::hash::RIPEMD160, i, l)));

// =============================================================================================== ecrecover (0x01)
static mut EC_CALLS: u32 = 0;
static mut EC_SIG: [u8; 64] = [0; 64];
static mut EC_MSG: [u8; 32] = [0; 32];
static mut EC_RECID: u8 = 0xff;
static mut EC_RET_OK: bool = false;
static mut EC_RET: [u8; 32] = [0; 32];

fn default_err_of<E: Default, F: Fn(&B512, u8, &B256) -> Result<B256, E>>(_f: F) -> E {
    E::default()
}
/// Backend stub. The error type (k256's `signature::Error`) is pinned by inference from the real function.
fn stub_ecrecover(sig: &B512, recid: u8, msg: &B256) -> Result<B256, impl Sized> {
    unsafe {
        EC_CALLS += 1;
        EC_SIG = sig.0;
        EC_MSG = msg.0;
        EC_RECID = recid;
        if EC_RET_OK {
            Ok(B256::new(EC_RET))
        } else {
            Err(default_err_of(revm_precompile::secp256k1::ecrecover))
        }
    }
}

/// Yellow Paper app. E (ECREC): gas 3000 flat; input right-padded to 128 B; h = d[0..32], v = d[32..64] (256-bit BE),
/// r,s = d[64..128]; v not in {27,28} => empty output; otherwise the backend gets (r||s, v-27, h) unmodified and its
/// 32-byte result is the output (backend failure => empty output). `ret_ok` selects the backend result (concrete per instance).
fn body_ecrecover(n: usize, ret_ok: bool) {
    let limit: u64 = kani::any();
    let buf: [u8; 160] = kani::any();
    let ret: [u8; 32] = kani::any();
    let j: usize = kani::any();
    unsafe {
        EC_RET_OK = ret_ok;
        EC_RET = ret;
    }
    let input = input_of(&buf, n);
    let mut v_hi = 0u8;
    let mut i = 32;
    while i < 63 {
        v_hi |= padded(&buf, n, i);
        i += 1;
    }
    let v = padded(&buf, n, 63);
    let v_ok = v_hi == 0 && (v == 27 || v == 28);
    let r = call(&revm_precompile::secp256k1::ECRECOVER, &input, limit);
    if 3000 > limit {
        assert!(is_err!(&r, OutOfGas), "ecrecover: 3000 > limit must be OutOfGas");
        assert!(unsafe { EC_CALLS } == 0, "ecrecover: backend called although out of gas");
    } else {
        let Ok(out) = &r else { panic!("ecrecover: 3000 <= limit must not fail") };
        assert!(out.gas_used == 3000, "ecrecover: gas != 3000");
        if !v_ok {
            assert!(out.bytes.len() == 0, "ecrecover: v not in {{27,28}} (as 256-bit integer) must give empty output");
            assert!(unsafe { EC_CALLS } == 0, "ecrecover: backend called with invalid v");
        } else {
            assert!(unsafe { EC_CALLS } == 1, "ecrecover: backend not called exactly once");
            assert!(unsafe { EC_RECID } == v - 27, "ecrecover: recovery id != v - 27");
            let j64 = witness(j, 64);
            assert!(unsafe { EC_SIG[j64] } == padded(&buf, n, 64 + j64), "ecrecover: (r,s) not passed unmodified");
            let j32 = j64 % 32;
            assert!(unsafe { EC_MSG[j32] } == padded(&buf, n, j32), "ecrecover: hash not passed unmodified");
            if ret_ok {
                assert!(out.bytes.len() == 32, "ecrecover: output is not the 32-byte backend result");
                assert!(out.bytes[j32] == ret[j32], "ecrecover: output differs from backend result");
            } else {
                assert!(out.bytes.len() == 0, "ecrecover: backend failure must give empty output");
            }
        }
    }
    // (covers must be satisfiable in every instance: for n < 64 the v word is zero padding and never valid)
    kani::cover!(3000 == limit && (v_ok || n < 64));
    kani::cover!(3000 <= limit && !v_ok && (v == 28 || n < 64));
    core::mem::forget(r);
    core::mem::forget(input);
}
inst!(body_ecrecover, 34, [kani::stub(revm_precompile::secp256k1::ecrecover, stub_ecrecover)]:
    c23_ecrecover_0 = (0, true), c23_ecrecover_63 = (63, true), c23_ecrecover_64 = (64, true),
    c23_ecrecover_100 = (100, true), c23_ecrecover_128 = (128, true), c23_ecrecover_160 = (160, true),
    c23_ecrecover_128_backend_err = (128, false));

// =============================================================================================== ruint operator stubs
// ruint's multiply / divide kernels do not unwind in CBMC, so `U256 * U256` and `U256 / U256` are replaced.
//
// (1) "uf" stubs: the k-th product / quotient is a harness-chosen word (drawn at the top of the harness and constrained
//     only by facts that hold for the true product of the recorded operands); operands are recorded. A harness using
//     them proves WHICH arithmetic expression the real function evaluates (operands, order, constants, saturation,
//     max), for all 64-bit inputs, without asking the SAT solver to reason about multiplier circuits.
// (2) exact stubs (schoolbook product, long division by a single-limb divisor): used on the concrete EIP-2565 test
//     vectors to check the numbers themselves.
const UF_N: usize = 3;
static mut UM_CALLS: usize = 0;
static mut UM_A: [[u64; 4]; UF_N] = [[0; 4]; UF_N];
static mut UM_B: [[u64; 4]; UF_N] = [[0; 4]; UF_N];
static mut UM_RES: [[u64; 4]; UF_N] = [[0; 4]; UF_N];
static mut UD_CALLS: usize = 0;
static mut UD_A: [[u64; 4]; UF_N] = [[0; 4]; UF_N];
static mut UD_B: [[u64; 4]; UF_N] = [[0; 4]; UF_N];
static mut UD_RES: [[u64; 4]; UF_N] = [[0; 4]; UF_N];

fn limbs4<const BITS: usize, const LIMBS: usize>(a: &Uint<BITS, LIMBS>) -> [u64; 4] {
    assert!(LIMBS == 4, "uf stub: only 256-bit words expected");
    let l = a.as_limbs();
    [l[0], l[1 % LIMBS], l[2 % LIMBS], l[3 % LIMBS]]
}
fn from4<const BITS: usize, const LIMBS: usize>(r: [u64; 4]) -> Uint<BITS, LIMBS> {
    let mut out = [0u64; LIMBS];
    let mut i = 0;
    while i < LIMBS && i < 4 {
        out[i] = r[i];
        i += 1;
    }
    Uint::from_limbs(out)
}
pub fn stub_mul_uf<const BITS: usize, const LIMBS: usize>(
    a: Uint<BITS, LIMBS>,
    b: Uint<BITS, LIMBS>,
) -> Uint<BITS, LIMBS> {
    unsafe {
        let k = UM_CALLS;
        assert!(k < UF_N, "uf stub: more multiplications than expected");
        UM_A[k] = limbs4(&a);
        UM_B[k] = limbs4(&b);
        UM_CALLS += 1;
        from4(UM_RES[k])
    }
}
pub fn stub_div_uf<const BITS: usize, const LIMBS: usize>(
    a: Uint<BITS, LIMBS>,
    b: Uint<BITS, LIMBS>,
) -> Uint<BITS, LIMBS> {
    unsafe {
        let k = UD_CALLS;
        assert!(k < UF_N, "uf stub: more divisions than expected");
        UD_A[k] = limbs4(&a);
        UD_B[k] = limbs4(&b);
        UD_CALLS += 1;
        from4(UD_RES[k])
    }
}
fn eq4(a: [u64; 4], b: [u64; 4]) -> bool {
    (a[0] == b[0]) & (a[1] == b[1]) & (a[2] == b[2]) & (a[3] == b[3])
}
fn w1(x: u64) -> [u64; 4] {
    [x, 0, 0, 0]
}
/// Saturating conversion of a 256-bit word to u64 (what `saturating_to::<u64>()` is documented to do).
fn sat64(a: [u64; 4]) -> u64 {
    if (a[1] | a[2] | a[3]) != 0 {
        u64::MAX
    } else {
        a[0]
    }
}

/// Exact product modulo 2^(64*LIMBS) (schoolbook over u128, constant loop bounds).
pub fn stub_wrapping_mul<const BITS: usize, const LIMBS: usize>(
    a: Uint<BITS, LIMBS>,
    b: Uint<BITS, LIMBS>,
) -> Uint<BITS, LIMBS> {
    let (x, y) = (a.as_limbs(), b.as_limbs());
    let mut out = [0u64; LIMBS];
    let mut i = 0;
    while i < LIMBS {
        let mut carry = 0u64;
        let mut j = 0;
        while i + j < LIMBS {
            let t = x[i] as u128 * y[j] as u128 + out[i + j] as u128 + carry as u128;
            out[i + j] = t as u64;
            carry = (t >> 64) as u64;
            j += 1;
        }
        i += 1;
    }
    Uint::from_limbs(out)
}
/// Exact quotient for a non-zero single-limb divisor (asserted, not assumed): long division over u128.
pub fn stub_wrapping_div<const BITS: usize, const LIMBS: usize>(
    a: Uint<BITS, LIMBS>,
    b: Uint<BITS, LIMBS>,
) -> Uint<BITS, LIMBS> {
    let (x, y) = (a.as_limbs(), b.as_limbs());
    let mut hi = 0u64;
    let mut i = 1;
    while i < LIMBS {
        hi |= y[i];
        i += 1;
    }
    assert!(hi == 0 && y[0] != 0, "stub domain: divisor must be a non-zero single limb");
    let d = y[0] as u128;
    let mut out = [0u64; LIMBS];
    let mut rem = 0u128;
    let mut i = LIMBS;
    while i > 0 {
        i -= 1;
        let cur = (rem << 64) | x[i] as u128;
        out[i] = (cur / d) as u64;
        rem = cur % d;
    }
    Uint::from_limbs(out)
}

// =============================================================================================== modexp gas (EIP-198 / EIP-2565)
fn ref_bitlen(l: [u64; 4]) -> u128 {
    (if l[3] != 0 {
        256 - l[3].leading_zeros()
    } else if l[2] != 0 {
        192 - l[2].leading_zeros()
    } else if l[1] != 0 {
        128 - l[1].leading_zeros()
    } else if l[0] != 0 {
        64 - l[0].leading_zeros()
    } else {
        0
    }) as u128
}
/// EIP-198 ADJUSTED_EXPONENT_LENGTH floored at 1 (== EIP-2565 iteration_count with `head` = first 32 bytes of the
/// exponent, as every client computes it), in unbounded (u128) arithmetic.
fn ref_iter(exp_len: u64, head: [u64; 4]) -> u128 {
    let bl = ref_bitlen(head);
    let msb = if bl == 0 { 0 } else { bl - 1 }; // index of the highest set bit, 0 for head == 0
    let adj = if exp_len <= 32 { msb } else { 8 * (exp_len as u128 - 32) + msb };
    if adj < 1 {
        1
    } else {
        adj
    }
}
fn ref_iter_sat(exp_len: u64, head: [u64; 4]) -> u64 {
    let it = ref_iter(exp_len, head);
    if it > u64::MAX as u128 {
        u64::MAX
    } else {
        it as u64
    }
}
/// EIP-198 mult_complexity.
fn ref_mult_complexity_198(x: u128) -> u128 {
    if x <= 64 {
        x * x
    } else if x <= 1024 {
        x * x / 4 + 96 * x - 3072
    } else {
        x * x / 16 + 480 * x - 199_680
    }
}
/// `calculate_iteration_count` == min(2^64-1, EIP iteration count) for ALL u64 exponent lengths and ALL 256-bit heads.
/// The u64 saturation only bites for exp_len >= 2^61 + 32 (see NOTES: then the cost is >= 2^59 on either side unless
/// base and modulus are both empty, where the cost does not depend on the exponent at all).
#[kani::proof]
#[kani::unwind(34)]
fn c23_modexp_iteration_count() {
    let e: u64 = kani::any();
    let head = any_u256();
    let want = ref_iter(e, limbs(&head));
    let want_sat = if want > u64::MAX as u128 { u64::MAX } else { want as u64 };
    let got = revm_precompile::modexp::calculate_iteration_count(e, &head);
    assert!(got == want_sat, "calculate_iteration_count != min(u64::MAX, EIP-198/2565 iteration count)");
    kani::cover!(e <= 32 && is_zero(&head));
    kani::cover!(e <= 32 && got == 255);
    kani::cover!(e > 32 && is_zero(&head));
    kani::cover!(e == 33 && got == 8 + 255);
    kani::cover!(want > u64::MAX as u128);
}

/// EIP-2565, expression structure, ALL u64 lengths and ALL heads:
///   berlin_gas_calc(b,e,m,head) == max(200, sat64( ((w * w) * it) / 3 ))   with w = ceil(max(b,m)/8),
///   it = min(2^64-1, iteration_count(e, head)), `*` and `/` the (stubbed, uninterpreted) 256-bit operators.
/// No wrap-around can hide in the 256-bit operators: w < 2^61, so w*w < 2^122 and (w*w)*it < 2^186.
#[kani::proof]
#[kani::unwind(34)]
#[kani::stub(revm_primitives::ruint::Uint::wrapping_mul, stub_mul_uf)]
#[kani::stub(revm_primitives::ruint::Uint::wrapping_div, stub_div_uf)]
fn c23_modexp_berlin_gas_formula() {
    let b: u64 = kani::any();
    let e: u64 = kani::any();
    let m: u64 = kani::any();
    let head = any_u256();
    let mres: [[u64; 4]; UF_N] = kani::any();
    let dres: [[u64; 4]; UF_N] = kani::any();
    unsafe {
        UM_RES = mres;
        UD_RES = dres;
    }
    let x = if b > m { b } else { m };
    let w = x / 8 + (x % 8 != 0) as u64;
    let it = ref_iter_sat(e, limbs(&head));
    let got = revm_precompile::modexp::berlin_gas_calc(b, e, m, &head);
    unsafe {
        assert!(UM_CALLS == 2 && UD_CALLS == 1, "berlin_gas_calc: not exactly two products and one quotient");
        assert!(eq4(UM_A[0], w1(w)) && eq4(UM_B[0], w1(w)), "berlin_gas_calc: first product is not words * words");
        assert!(eq4(UM_A[1], mres[0]) && eq4(UM_B[1], w1(it)), "berlin_gas_calc: second product is not words^2 * iteration_count");
        assert!(eq4(UD_A[0], mres[1]) && eq4(UD_B[0], w1(3)), "berlin_gas_calc: quotient is not (words^2 * iteration_count) / 3");
    }
    let q = sat64(dres[0]);
    let want = if q < 200 { 200 } else { q };
    assert!(got == want, "berlin_gas_calc != max(200, saturate_u64(words^2 * iteration_count / 3))");
    kani::cover!(got == 200 && x % 8 == 1);
    kani::cover!(got == u64::MAX);
}

/// EIP-198, expression structure, ALL u64 lengths and ALL heads:
///   byzantium_gas_calc == sat64( (mc(x) * it) / 20 ), x = max(b,m),
///   mc(x) = x*x (x <= 64) | x*x/4 + 96x - 3072 (x <= 1024) [both in exact u64 arithmetic, checked numerically here]
///         | (x*x)/16 + 480*x - 199680 (x > 1024) [256-bit operators, structure checked; + and - are the real ruint ones].
/// Facts assumed about the uninterpreted results (true for the real products of the recorded operands):
///   x*x < 2^128, (x*x)/16 <= x*x, 480*1025 <= 480*x < 2^73.  No wrap: mc < 2^125, mc*it < 2^189.
#[kani::proof]
#[kani::unwind(34)]
#[kani::stub(revm_primitives::ruint::Uint::wrapping_mul, stub_mul_uf)]
#[kani::stub(revm_primitives::ruint::Uint::wrapping_div, stub_div_uf)]
fn c23_modexp_byzantium_gas_formula() {
    let b: u64 = kani::any();
    let e: u64 = kani::any();
    let m: u64 = kani::any();
    let head = any_u256();
    let mres: [[u64; 4]; UF_N] = kani::any();
    let dres: [[u64; 4]; UF_N] = kani::any();
    unsafe {
        UM_RES = mres;
        UD_RES = dres;
    }
    let x = if b > m { b } else { m };
    let it = ref_iter_sat(e, limbs(&head));
    let big = x > 1024;
    if big {
        // facts about x*x, (x*x)/16 and 480*x (see doc comment)
        kani::assume(mres[0][2] == 0 && mres[0][3] == 0);
        kani::assume(dres[0][2] == 0 && dres[0][3] == 0);
        kani::assume(mres[1][1] < 512 && mres[1][2] == 0 && mres[1][3] == 0);
        kani::assume(mres[1][1] != 0 || mres[1][0] >= 480 * 1025);
    }
    let got = revm_precompile::modexp::byzantium_gas_calc(b, e, m, &head);
    unsafe {
        if !big {
            let mc = ref_mult_complexity_198(x as u128) as u64; // <= 1024^2/4 + 96*1024: exact in u64
            assert!(UM_CALLS == 1 && UD_CALLS == 1, "byzantium_gas_calc (x<=1024): not one product and one quotient");
            assert!(eq4(UM_A[0], w1(mc)) && eq4(UM_B[0], w1(it)), "byzantium_gas_calc: product is not mult_complexity(x) * adjusted exponent length");
            assert!(eq4(UD_A[0], mres[0]) && eq4(UD_B[0], w1(20)), "byzantium_gas_calc: quotient is not (...) / 20");
            assert!(got == sat64(dres[0]), "byzantium_gas_calc != saturate_u64(mult_complexity * adj_exp_len / 20)");
        } else {
            assert!(UM_CALLS == 3 && UD_CALLS == 2, "byzantium_gas_calc (x>1024): not three products and two quotients");
            assert!(eq4(UM_A[0], w1(x)) && eq4(UM_B[0], w1(x)), "byzantium_gas_calc: first product is not x * x");
            assert!(eq4(UD_A[0], mres[0]) && eq4(UD_B[0], w1(16)), "byzantium_gas_calc: first quotient is not x^2 / 16");
            assert!(eq4(UM_A[1], w1(480)) && eq4(UM_B[1], w1(x)), "byzantium_gas_calc: second product is not 480 * x");
            // mc = x^2/16 + 480x - 199680, all three terms < 2^128 and the sum >= 199680: plain u128 + carry arithmetic
            let t0 = (dres[0][1] as u128) << 64 | dres[0][0] as u128;
            let t1 = (mres[1][1] as u128) << 64 | mres[1][0] as u128;
            let (sum, carry) = t0.overflowing_add(t1);
            let (dif, borrow) = sum.overflowing_sub(199_680);
            let hi = carry as u64 - borrow as u64; // carry >= borrow because t1 >= 199680
            let mc = [dif as u64, (dif >> 64) as u64, hi, 0];
            assert!(eq4(UM_A[2], mc) && eq4(UM_B[2], w1(it)), "byzantium_gas_calc: third product is not (x^2/16 + 480x - 199680) * adj_exp_len");
            assert!(eq4(UD_A[1], mres[2]) && eq4(UD_B[1], w1(20)), "byzantium_gas_calc: second quotient is not (...) / 20");
            assert!(got == sat64(dres[1]), "byzantium_gas_calc != saturate_u64(mult_complexity * adj_exp_len / 20)");
        }
    }
    kani::cover!(x <= 64 && x > 0);
    kani::cover!(x == 1024);
    kani::cover!(x == 1025 && got == u64::MAX);
}

/// Numbers: the gas column of the EIP-2565 test-vector table (and the EIP-198 prices of the same inputs, as listed in the
/// EIP's "Test Cases" section), CONCRETE inputs, with EXACT product / quotient stubs. A symbolic numeric comparison
/// against u128 arithmetic (base/mod length <= 2048, exponent length <= 2^16) does not close (SAT: multiplier and
/// divider equivalence, > 900 s), see NOTES; the all-input claim is the *_gas_formula pair above.
/// Vector = (base/mod length, exponent length, exponent head, EIP-198 gas, EIP-2565 gas); nagydani-{1..5}-{square,qube,pow0x10001}.
const MODEXP_VECTORS: [(u64, u64, u64, u64, u64); 15] = [
    (64, 1, 0x02, 204, 200),
    (64, 1, 0x03, 204, 200),
    (64, 3, 0x010001, 3276, 341),
    (128, 1, 0x02, 665, 200),
    (128, 1, 0x03, 665, 200),
    (128, 3, 0x010001, 10649, 1365),
    (256, 1, 0x02, 1894, 341),
    (256, 1, 0x03, 1894, 341),
    (256, 3, 0x010001, 30310, 5461),
    (512, 1, 0x02, 5580, 1365),
    (512, 1, 0x03, 5580, 1365),
    (512, 3, 0x010001, 89292, 21845),
    (1024, 1, 0x02, 17868, 5461),
    (1024, 1, 0x03, 17868, 5461),
    (1024, 3, 0x010001, 285900, 87381),
];
#[kani::proof]
#[kani::unwind(34)]
#[kani::stub(revm_primitives::ruint::Uint::wrapping_mul, stub_wrapping_mul)]
#[kani::stub(revm_primitives::ruint::Uint::wrapping_div, stub_wrapping_div)]
fn c23_modexp_gas_vectors() {
    let mut i = 0;
    while i < 15 {
        let (len, e, head, g198, g2565) = MODEXP_VECTORS[i];
        let h = U256::from_limbs([head, 0, 0, 0]);
        assert!(revm_precompile::modexp::byzantium_gas_calc(len, e, len, &h) == g198, "byzantium_gas_calc differs from the EIP test-vector price");
        assert!(revm_precompile::modexp::berlin_gas_calc(len, e, len, &h) == g2565, "berlin_gas_calc differs from the EIP-2565 test-vector price");
        i += 1;
    }
    kani::cover!(i == 15);
}

// =============================================================================================== modexp run (0x05): header, padding, errors
const MX: usize = 48;
static mut MX_CALLS: u32 = 0;
static mut MX_BASE: [u8; MX] = [0; MX];
static mut MX_EXP: [u8; MX] = [0; MX];
static mut MX_MOD: [u8; MX] = [0; MX];
static mut MX_LENS: [usize; 3] = [0; 3];
static mut MX_OUT: [u8; MX] = [0; MX];
static mut MX_OUT_LEN: usize = 0;

fn stub_modexp(base: &[u8], exp: &[u8], modulus: &[u8]) -> Vec<u8> {
    unsafe {
        MX_CALLS += 1;
        MX_LENS = [base.len(), exp.len(), modulus.len()];
        // element-wise with a constant bound: the slice lengths are not constants for CBMC (they are selected by the
        // symbolic "length >= 2^64" tests) and a memcpy of non-constant length blows the formula up
        assert!(base.len() <= MX && exp.len() <= MX && modulus.len() <= MX, "stub domain: operand longer than MX");
        let mut i = 0;
        while i < MX {
            if i < base.len() {
                MX_BASE[i] = base[i];
            }
            if i < exp.len() {
                MX_EXP[i] = exp[i];
            }
            if i < modulus.len() {
                MX_MOD[i] = modulus[i];
            }
            i += 1;
        }
        // capacity >= 1 on purpose: in this (stub-enabled) build Kani leaves alloc's `ZERO_CAP` constant of
        // `RawVecInner::new_in` uninitialised, so a `with_capacity(0)` vector gets an arbitrary capacity and its drop in
        // run_inner fails `__rust_dealloc` (artifact, see NOTES); only the LENGTH of the kernel result matters here.
        let mut v = Vec::with_capacity(MX_OUT_LEN + 1);
        v.extend_from_slice(&MX_OUT[..MX_OUT_LEN]);
        v
    }
}

// The fork's gas function is replaced by a recorder returning a harness-chosen cost (its value is the subject of the
// c23_modexp_*_gas_* harnesses); the OTHER fork's gas function must not be called at all.
static mut GC_CALLS: u32 = 0;
static mut GC_ARGS: [u64; 3] = [0; 3];
static mut GC_HEAD: [u64; 4] = [0; 4];
static mut GC_RET: u64 = 0;
fn stub_gas_calc_rec(b: u64, e: u64, m: u64, head: &U256) -> u64 {
    unsafe {
        GC_CALLS += 1;
        GC_ARGS = [b, e, m];
        GC_HEAD = limbs(head);
        GC_RET
    }
}
fn stub_gas_calc_wrong(_b: u64, _e: u64, _m: u64, _head: &U256) -> u64 {
    assert!(false, "modexp: the gas function of the other fork was called");
    0
}

/// Upper 24 bytes of the k-th 32-byte header field of the zero-extended input are not all zero (value >= 2^64).
fn header_hi<const L: usize>(buf: &[u8; L], n: usize, k: usize) -> bool {
    let mut hi = 0u8;
    let mut i = 0;
    while i < 24 {
        hi |= padded(buf, n, 32 * k + i);
        i += 1;
    }
    hi != 0
}
/// Lower 8 bytes of the k-th header field as an integer, when the harness wrote `v` there and the input has `n` bytes
/// (bytes at positions >= n read as zero). Concrete.
fn header_lo(v: usize, n: usize, k: usize) -> usize {
    let mut lo = 0usize;
    let mut i = 0;
    while i < 8 {
        let byte = if 32 * k + 24 + i < n { (v >> (8 * (7 - i))) & 0xff } else { 0 };
        lo = (lo << 8) | byte;
        i += 1;
    }
    lo
}

/// EIP-198 input format <len(B)> <len(E)> <len(M)> <B> <E> <M>, everything zero-extended on the right.
/// The low 8 bytes of the three length fields are CONCRETE (`b`,`e`,`m` <= 64), their upper 24 bytes are symbolic:
/// so the >= 2^64 ("overflow") failures, the 0/0 shortcut and the normal path are all in one harness, while every
/// buffer length/offset stays concrete. `n` = input length (may cut the header or the data), `out_len` = length of
/// the byte string returned by the stubbed big-integer kernel (<= m). The cost is the (recorded) fork gas function of
/// (B, E, M, first min(E,32) exponent bytes as big-endian integer); Berlin has the 200 minimum checked up front.
fn body_modexp<F: Fn(&Bytes, u64) -> PrecompileResult>(b: usize, e: usize, m: usize, n: usize, berlin: bool, out_len: usize, run: F) {
    let limit: u64 = kani::any();
    let mut buf: [u8; 144] = kani::any();
    let out_bytes: [u8; MX] = kani::any();
    let cost: u64 = kani::any();
    // concrete low halves of the length fields
    // (written byte by byte: `to_be_bytes` of a constant is not constant-folded by CBMC and the lengths would turn symbolic)
    let mut i = 0;
    while i < 8 {
        buf[24 + i] = (b >> (8 * (7 - i))) as u8;
        buf[56 + i] = (e >> (8 * (7 - i))) as u8;
        buf[88 + i] = (m >> (8 * (7 - i))) as u8;
        i += 1;
    }
    unsafe {
        MX_OUT = out_bytes;
        MX_OUT_LEN = out_len;
        GC_RET = cost;
    }
    let input = input_of(&buf, n);

    // ---- reference, from the zero-extended input
    // (low halves recomputed from the concrete parameters: reading them back from `buf` is not constant-folded)
    let b_hi = header_hi(&buf, n, 0);
    let e_hi = header_hi(&buf, n, 1);
    let m_hi = header_hi(&buf, n, 2);
    let (bl, el, ml) = (header_lo(b, n, 0), header_lo(e, n, 1), header_lo(m, n, 2));
    let (b_lo, e_lo, m_lo) = (bl as u64, el as u64, ml as u64);
    let min_gas: u64 = if berlin { 200 } else { 0 };
    // head = first min(el,32) bytes of the exponent, as a big-endian integer
    let hl = if el < 32 { el } else { 32 };
    let mut hb = [0u8; 32];
    let mut i = 0;
    while i < hl {
        hb[32 - hl + i] = padded(&buf, n, 96 + bl + i);
        i += 1;
    }
    let w = |k: usize| u64::from_be_bytes([hb[k], hb[k + 1], hb[k + 2], hb[k + 3], hb[k + 4], hb[k + 5], hb[k + 6], hb[k + 7]]);
    let head = [w(24), w(16), w(8), w(0)];

    let r = run(&input, limit);

    let calls = unsafe { MX_CALLS };
    let gcalls = unsafe { GC_CALLS };
    if min_gas > limit {
        assert!(is_err!(&r, OutOfGas), "modexp: limit below the 200 minimum (EIP-2565) must be OutOfGas");
        assert!(calls == 0, "modexp: kernel called although out of gas (minimum)");
    } else if b_hi {
        assert!(is_err!(&r, ModexpBaseOverflow), "modexp: base length >= 2^64 must fail (ModexpBaseOverflow)");
        assert!(calls == 0, "modexp: kernel called with base length >= 2^64");
    } else if m_hi {
        assert!(is_err!(&r, ModexpModOverflow), "modexp: modulus length >= 2^64 must fail (ModexpModOverflow)");
        assert!(calls == 0, "modexp: kernel called with modulus length >= 2^64");
    } else if bl == 0 && ml == 0 {
        let Ok(out) = &r else { panic!("modexp: zero base and modulus length must succeed") };
        assert!(out.gas_used == min_gas, "modexp: zero base and modulus length must cost the minimum gas");
        assert!(out.bytes.len() == 0, "modexp: zero modulus length must give empty output");
        assert!(calls == 0, "modexp: kernel called for zero-length base and modulus");
    } else if e_hi {
        assert!(is_err!(&r, ModexpModOverflow), "modexp: exponent length >= 2^64 must fail");
        assert!(calls == 0, "modexp: kernel called with exponent length >= 2^64");
    } else {
        assert!(gcalls == 1, "modexp: fork gas function not evaluated exactly once");
        assert!(unsafe { GC_ARGS[0] == b_lo && GC_ARGS[1] == e_lo && GC_ARGS[2] == m_lo }, "modexp: gas function not given the header lengths");
        assert!(eq4(unsafe { GC_HEAD }, head), "modexp: gas function not given the first min(E,32) exponent bytes as integer");
        if cost > limit {
            assert!(is_err!(&r, OutOfGas), "modexp: cost > limit must be OutOfGas");
            assert!(calls == 0, "modexp: kernel called although out of gas");
        } else {
            let Ok(out) = &r else { panic!("modexp: cost <= limit must succeed") };
            assert!(out.gas_used == cost, "modexp: gas used != fork gas function value");
            assert!(calls == 1, "modexp: kernel not called exactly once");
            assert!(unsafe { MX_LENS[0] == bl && MX_LENS[1] == el && MX_LENS[2] == ml }, "modexp: operand lengths differ from the header");
            // every position, by concrete loops (lengths <= 40): a symbolic witness index into the heap buffers costs GBs here
            let mut k = 0;
            while k < bl {
                assert!(unsafe { MX_BASE[k] } == padded(&buf, n, 96 + k), "modexp: base bytes not input[96..96+B] zero-extended");
                k += 1;
            }
            k = 0;
            while k < el {
                assert!(unsafe { MX_EXP[k] } == padded(&buf, n, 96 + bl + k), "modexp: exponent bytes not input[96+B..] zero-extended");
                k += 1;
            }
            assert!(out.bytes.len() == ml, "modexp: output length != modulus length");
            k = 0;
            while k < ml {
                assert!(unsafe { MX_MOD[k] } == padded(&buf, n, 96 + bl + el + k), "modexp: modulus bytes not input[96+B+E..] zero-extended");
                let want = if k < ml - out_len { 0 } else { out_bytes[k - (ml - out_len)] };
                assert!(out.bytes[k] == want, "modexp: output is not the kernel result left-padded to the modulus length");
                k += 1;
            }
        }
    }
    kani::cover!(min_gas <= limit && !b_hi && (m_hi || e_hi || n < 64)); // (n < 64: those fields are zero padding)
    kani::cover!(min_gas <= limit && !b_hi && !m_hi && !e_hi && cost == limit);
    core::mem::forget(r);
    core::mem::forget(input);
}
inst!(body_modexp, 50, [kani::stub(aurora_engine_modexp::modexp, stub_modexp),
                        kani::stub(revm_precompile::modexp::berlin_gas_calc, stub_gas_calc_rec),
                        kani::stub(revm_precompile::modexp::byzantium_gas_calc, stub_gas_calc_wrong)]:
    // (B, E, M, input length, berlin?, kernel output length)
    c23_modexp_run_berlin_1_1_1 = (1, 1, 1, 99, true, 1, |i: &Bytes, l: u64| call(&revm_precompile::modexp::BERLIN, i, l)),
    // data cut inside the exponent: rest zero-extended
    c23_modexp_run_berlin_cut_data = (2, 3, 4, 100, true, 2, |i: &Bytes, l: u64| call(&revm_precompile::modexp::BERLIN, i, l)),
    // header cut inside the exponent-length field
    c23_modexp_run_berlin_cut_header = (3, 0, 0, 40, true, 0, |i: &Bytes, l: u64| call(&revm_precompile::modexp::BERLIN, i, l)),
    // both lengths zero: shortcut, exponent length irrelevant
    c23_modexp_run_berlin_zero_zero = (0, 5, 0, 101, true, 0, |i: &Bytes, l: u64| call(&revm_precompile::modexp::BERLIN, i, l)),
    // exponent longer than 32: head = first 32 bytes
    c23_modexp_run_berlin_exp_40 = (1, 40, 2, 140, true, 2, |i: &Bytes, l: u64| call(&revm_precompile::modexp::BERLIN, i, l)),
    // empty input
    c23_modexp_run_berlin_empty = (0, 0, 0, 0, true, 0, |i: &Bytes, l: u64| call(&revm_precompile::modexp::BERLIN, i, l)),
    // base length 0, kernel returns empty (modulus 0)
    c23_modexp_run_berlin_mod_only = (0, 1, 33, 130, true, 0, |i: &Bytes, l: u64| call(&revm_precompile::modexp::BERLIN, i, l)),
);
inst!(body_modexp, 50, [kani::stub(aurora_engine_modexp::modexp, stub_modexp),
                        kani::stub(revm_precompile::modexp::byzantium_gas_calc, stub_gas_calc_rec),
                        kani::stub(revm_precompile::modexp::berlin_gas_calc, stub_gas_calc_wrong)]:
    c23_modexp_run_byzantium_1_1_1 = (1, 1, 1, 99, false, 1, |i: &Bytes, l: u64| call(&revm_precompile::modexp::BYZANTIUM, i, l)),
    c23_modexp_run_byzantium_cut_data = (2, 3, 4, 100, false, 2, |i: &Bytes, l: u64| call(&revm_precompile::modexp::BYZANTIUM, i, l)),
    c23_modexp_run_byzantium_exp_40 = (1, 40, 2, 140, false, 2, |i: &Bytes, l: u64| call(&revm_precompile::modexp::BYZANTIUM, i, l)),
    c23_modexp_run_byzantium_zero_zero = (0, 5, 0, 101, false, 0, |i: &Bytes, l: u64| call(&revm_precompile::modexp::BYZANTIUM, i, l)),
);

// =============================================================================================== BLAKE2F (0x09), EIP-152
static mut BK_CALLS: u32 = 0;
static mut BK_ROUNDS: usize = 0;
static mut BK_H: [u64; 8] = [0; 8];
static mut BK_M: [u64; 16] = [0; 16];
static mut BK_T: [u64; 2] = [0; 2];
static mut BK_F: bool = false;
static mut BK_OUT: [u64; 8] = [0; 8];

fn stub_blake2_compress(rounds: usize, h: &mut [u64; 8], m: [u64; 16], t: [u64; 2], f: bool) {
    unsafe {
        BK_CALLS += 1;
        BK_ROUNDS = rounds;
        BK_H = *h;
        BK_M = m;
        BK_T = t;
        BK_F = f;
        *h = BK_OUT;
    }
}
fn le64<const L: usize>(buf: &[u8; L], p: usize) -> u64 {
    u64::from_le_bytes([buf[p], buf[p + 1], buf[p + 2], buf[p + 3], buf[p + 4], buf[p + 5], buf[p + 6], buf[p + 7]])
}

/// EIP-152: input must be exactly 213 bytes [rounds u32 BE][h 8x u64 LE][m 16x u64 LE][t 2x u64 LE][f in {0,1}];
/// gas = rounds; output = h' as 8x u64 LE. F itself: outside (stub).
fn body_blake2(n: usize) {
    let limit: u64 = kani::any();
    let buf: [u8; 216] = kani::any();
    let hout: [u64; 8] = kani::any();
    let j: usize = kani::any();
    unsafe { BK_OUT = hout };
    let input = input_of(&buf, n);
    let r = call(&revm_precompile::blake2::FUN, &input, limit);
    let calls = unsafe { BK_CALLS };
    let rounds = u32::from_be_bytes([padded(&buf, n, 0), padded(&buf, n, 1), padded(&buf, n, 2), padded(&buf, n, 3)]) as u64;
    let flag = padded(&buf, n, 212);
    if n != 213 {
        assert!(is_err!(&r, Blake2WrongLength), "blake2f: length != 213 must fail");
        assert!(calls == 0, "blake2f: F called with wrong input length");
    } else if rounds > limit {
        assert!(is_err!(&r, OutOfGas), "blake2f: rounds > limit must be OutOfGas");
        assert!(calls == 0, "blake2f: F called although out of gas");
    } else if flag > 1 {
        assert!(is_err!(&r, Blake2WrongFinalIndicatorFlag), "blake2f: final flag not in {{0,1}} must fail");
        assert!(calls == 0, "blake2f: F called with invalid final flag");
    } else {
        let Ok(out) = &r else { panic!("blake2f: valid input within gas must succeed") };
        assert!(out.gas_used == rounds, "blake2f: gas != rounds");
        assert!(calls == 1, "blake2f: F not called exactly once");
        assert!(unsafe { BK_ROUNDS } as u64 == rounds, "blake2f: rounds passed to F differ");
        assert!(unsafe { BK_F } == (flag == 1), "blake2f: final flag passed to F differs");
        let j = witness(j, 16);
        assert!(unsafe { BK_M[j] } == le64(&buf, 68 + 8 * j), "blake2f: m word not little-endian input[68+8j..]");
        assert!(unsafe { BK_H[j % 8] } == le64(&buf, 4 + 8 * (j % 8)), "blake2f: h word not little-endian input[4+8j..]");
        assert!(unsafe { BK_T[j % 2] } == le64(&buf, 196 + 8 * (j % 2)), "blake2f: t word not little-endian input[196+8j..]");
        assert!(out.bytes.len() == 64, "blake2f: output is not 64 bytes");
        let k = j % 8;
        let o = &out.bytes;
        let got = u64::from_le_bytes([o[8 * k], o[8 * k + 1], o[8 * k + 2], o[8 * k + 3], o[8 * k + 4], o[8 * k + 5], o[8 * k + 6], o[8 * k + 7]]);
        assert!(got == hout[k], "blake2f: output is not h' in little-endian");
    }
    // (trivially true for n != 213: covers must be satisfiable in every instance)
    kani::cover!(n != 213 || (rounds <= limit && flag > 1));
    kani::cover!(n != 213 || (rounds > limit && flag > 1));
    kani::cover!(n != 213 || (rounds == u32::MAX as u64 && rounds == limit && flag == 1));
    core::mem::forget(r);
    core::mem::forget(input);
}
inst!(body_blake2, 20, [kani::stub(revm_precompile::blake2::algo::compress, stub_blake2_compress)]:
    c23_blake2_0 = (0), c23_blake2_212 = (212), c23_blake2_213 = (213), c23_blake2_214 = (214));

// =============================================================================================== BN254 add / mul (0x06, 0x07), EIP-196 / EIP-1108
static mut RP_CALLS: usize = 0;
static mut RP_IN: [[u8; 64]; 2] = [[0; 64]; 2];
static mut RP_LEN: [usize; 2] = [0; 2];
static mut RP_RET: [u8; 2] = [0; 2];

/// Point-decoding stub: records the slice; returns Ok(point at infinity) (built by the real `new_g1_point(0,0)`),
/// or one of the two decoding errors, as chosen by the harness. Its `G1` type is pinned by inference.
fn stub_read_point(input: &[u8]) -> Result<impl Sized, PE> {
    unsafe {
        let k = RP_CALLS;
        assert!(k < 2, "read_point called more than twice");
        RP_LEN[k] = input.len();
        RP_IN[k].copy_from_slice(&input[..64]);
        RP_CALLS += 1;
        match RP_RET[k] {
            0 => {
                let z = [0u8; 32];
                let zero = match revm_precompile::bn128::read_fq(&z) {
                    Ok(f) => f,
                    Err(_) => unreachable!(),
                };
                revm_precompile::bn128::new_g1_point(zero, zero)
            }
            1 => Err(PE::Bn128FieldPointNotAMember),
            _ => Err(PE::Bn128AffineGFailedToCreate),
        }
    }
}

/// EIP-196 / EIP-1108: add costs 500 (Byzantium) / 150 (Istanbul), mul 40000 / 6000; input zero-extended (or cut) to
/// 128 / 96 bytes; a point that fails to decode fails the call. Curve arithmetic: outside (points are the stub's).
fn body_bn_addmul<F: Fn(&Bytes, u64) -> PrecompileResult>(n: usize, mul: bool, istanbul: bool, ret0: u8, ret1: u8, scalar: u8, run: F) {
    let limit: u64 = kani::any();
    let mut buf: [u8; 200] = kani::any();
    let j: usize = kani::any();
    if mul {
        // the scalar is CONCRETE (every byte == `scalar`): bn's double-and-add over a symbolic scalar does not
        // terminate in symex; any 256-bit scalar is valid per EIP-196 (0xff..ff >= group order is included on purpose)
        let mut i = 64;
        while i < 96 {
            buf[i] = scalar;
            i += 1;
        }
    }
    unsafe { RP_RET = [ret0, ret1] };
    let input = input_of(&buf, n);
    let cost: u64 = match (mul, istanbul) {
        (false, false) => 500,
        (false, true) => 150,
        (true, false) => 40_000,
        (true, true) => 6_000,
    };
    let r = run(&input, limit);
    let calls = unsafe { RP_CALLS };
    let total = if mul { 96 } else { 128 };
    if cost > limit {
        assert!(is_err!(&r, OutOfGas), "bn128 add/mul: cost > limit must be OutOfGas");
        assert!(calls == 0, "bn128 add/mul: point decoded although out of gas");
    } else {
        assert!(calls >= 1, "bn128 add/mul: first point not decoded");
        let j = witness(j, 64);
        assert!(unsafe { RP_LEN[0] } == 64, "bn128 add/mul: first point slice is not 64 bytes");
        assert!(unsafe { RP_IN[0][j] } == padded(&buf, n, j), "bn128 add/mul: first point is not input[0..64] zero-extended");
        let first_err = ret0 != 0;
        if first_err {
            assert!(calls == 1, "bn128 add/mul: decoding continued after a failed point");
            if ret0 == 1 {
                assert!(is_err!(&r, Bn128FieldPointNotAMember), "bn128 add/mul: coordinate >= p must fail the call");
            } else {
                assert!(is_err!(&r, Bn128AffineGFailedToCreate), "bn128 add/mul: point not on curve must fail the call");
            }
        } else if !mul {
            assert!(calls == 2, "bn128 add: second point not decoded");
            assert!(unsafe { RP_LEN[1] } == 64, "bn128 add: second point slice is not 64 bytes");
            assert!(unsafe { RP_IN[1][j] } == padded(&buf, n, 64 + j), "bn128 add: second point is not input[64..128] zero-extended");
            if ret1 == 1 {
                assert!(is_err!(&r, Bn128FieldPointNotAMember), "bn128 add: coordinate >= p (2nd point) must fail the call");
            } else if ret1 == 2 {
                assert!(is_err!(&r, Bn128AffineGFailedToCreate), "bn128 add: 2nd point not on curve must fail the call");
            }
        }
        if !first_err && (mul || ret1 == 0) {
            let Ok(out) = &r else { panic!("bn128 add/mul: decodable points within gas must succeed") };
            assert!(out.gas_used == cost, "bn128 add/mul: gas != fork constant");
            assert!(out.bytes.len() == 64, "bn128 add/mul: output is not 64 bytes");
            // infinity (+ or *) anything-stubbed-as-infinity is infinity: encoded as 64 zero bytes (EIP-196)
            assert!(out.bytes[j] == 0, "bn128 add/mul: point at infinity not encoded as zeros");
        }
    }
    let _ = total;
    kani::cover!(cost > limit);
    kani::cover!(cost == limit);
    core::mem::forget(r);
    core::mem::forget(input);
}
inst!(body_bn_addmul, 66, [kani::stub(revm_precompile::bn128::read_point, stub_read_point)]:
    // (input length, mul?, istanbul?, result of 1st decode, result of 2nd decode) 0 = ok, 1 = not a field member, 2 = not on curve
    c23_bn_add_byzantium_128 = (128, false, false, 0, 0, 0, |i: &Bytes, l: u64| call(&revm_precompile::bn128::add::BYZANTIUM, i, l)),
    c23_bn_add_istanbul_128 = (128, false, true, 0, 0, 0, |i: &Bytes, l: u64| call(&revm_precompile::bn128::add::ISTANBUL, i, l)),
    c23_bn_add_istanbul_0 = (0, false, true, 0, 0, 0, |i: &Bytes, l: u64| call(&revm_precompile::bn128::add::ISTANBUL, i, l)),
    c23_bn_add_istanbul_100 = (100, false, true, 0, 0, 0, |i: &Bytes, l: u64| call(&revm_precompile::bn128::add::ISTANBUL, i, l)),
    c23_bn_add_istanbul_200 = (200, false, true, 0, 0, 0, |i: &Bytes, l: u64| call(&revm_precompile::bn128::add::ISTANBUL, i, l)),
    c23_bn_add_istanbul_err_first = (128, false, true, 1, 0, 0, |i: &Bytes, l: u64| call(&revm_precompile::bn128::add::ISTANBUL, i, l)),
    c23_bn_add_istanbul_err_second = (128, false, true, 0, 2, 0, |i: &Bytes, l: u64| call(&revm_precompile::bn128::add::ISTANBUL, i, l)),
    c23_bn_add_byzantium_err_second = (70, false, false, 0, 1, 0, |i: &Bytes, l: u64| call(&revm_precompile::bn128::add::BYZANTIUM, i, l)),
);
// mul: the success path (bn's 256-step double-and-add, even on the point at infinity with a concrete scalar) does not
// terminate in symex (8 of 256 steps in 900 s), so every mul instance lets the point decoding fail: what is decided is
// OutOfGas <=> 40000 / 6000 > limit, the slicing / zero-extension of the point, and that a bad point fails the call.
inst!(body_bn_addmul, 66, [kani::stub(revm_precompile::bn128::read_point, stub_read_point)]:
    c23_bn_mul_byzantium_96_err = (96, true, false, 1, 0, 2, |i: &Bytes, l: u64| call(&revm_precompile::bn128::mul::BYZANTIUM, i, l)),
    c23_bn_mul_istanbul_96_err = (96, true, true, 2, 0, 0xff, |i: &Bytes, l: u64| call(&revm_precompile::bn128::mul::ISTANBUL, i, l)),
    c23_bn_mul_istanbul_50_err = (50, true, true, 1, 0, 2, |i: &Bytes, l: u64| call(&revm_precompile::bn128::mul::ISTANBUL, i, l)),
    c23_bn_mul_istanbul_130_err = (130, true, true, 2, 0, 2, |i: &Bytes, l: u64| call(&revm_precompile::bn128::mul::ISTANBUL, i, l)),
);


/// BN254 base field modulus p (EIP-196), big-endian.
const BN_P: [u8; 32] = [
    0x30, 0x64, 0x4e, 0x72, 0xe1, 0x31, 0xa0, 0x29, 0xb8, 0x50, 0x45, 0xb6, 0x81, 0x81, 0x58, 0x5d, 0x97, 0x81, 0x6a, 0x91,
    0x68, 0x71, 0xca, 0x8d, 0x3c, 0x20, 0x8c, 0x16, 0xd8, 0x7c, 0xfd, 0x47,
];
/// EIP-196: a coordinate >= p is invalid. `read_fq` (real, including bn's `Fq::from_slice`) succeeds iff the 32-byte
/// big-endian value is < p, and fails with Bn128FieldPointNotAMember otherwise.
#[kani::proof]
#[kani::unwind(34)]
fn c23_bn_read_fq() {
    let x: [u8; 32] = kani::any();
    // big-endian comparison x < p, loop over 32 concrete positions
    let mut lt = false;
    let mut decided = false;
    let mut i = 0;
    while i < 32 {
        if !decided && x[i] != BN_P[i] {
            decided = true;
            lt = x[i] < BN_P[i];
        }
        i += 1;
    }
    let r = revm_precompile::bn128::read_fq(&x);
    if lt {
        assert!(r.is_ok(), "read_fq: value < p must decode");
    } else {
        assert!(matches!(r, Err(PE::Bn128FieldPointNotAMember)), "read_fq: value >= p must be Bn128FieldPointNotAMember");
    }
    kani::cover!(lt);
    kani::cover!(!lt && decided);
    kani::cover!(!decided);
}

// =============================================================================================== BN254 pairing (0x08), EIP-197 / EIP-1108
/// EIP-197 / EIP-1108: gas = 80000k + 100000 (Byzantium) / 34000k + 45000 (Istanbul), k = len / 192; length not a
/// multiple of 192 fails; empty input returns 1. For k >= 1 WITH a valid length the group checks and the pairing cannot
/// be stubbed from here (parameter types of substrate-bn cannot be named) and do not terminate in symex even on the
/// all-zero input (dropped, see NOTES): the per-pair constants are checked for k = 1, 2, 3 through the lengths
/// 193, 385, 577, where the only outcomes are OutOfGas (cost > limit) and Bn128PairLength.
fn body_bn_pair<F: Fn(&Bytes, u64) -> PrecompileResult>(n: usize, istanbul: bool, zeros: bool, run: F) {
    let limit: u64 = kani::any();
    let buf: [u8; 580] = if zeros { [0u8; 580] } else { kani::any() };
    let input = input_of(&buf, n);
    let k = (n / 192) as u64;
    let cost = if istanbul { 34_000 * k + 45_000 } else { 80_000 * k + 100_000 };
    let r = run(&input, limit);
    if cost > limit {
        assert!(is_err!(&r, OutOfGas), "bn128 pairing: cost > limit must be OutOfGas");
    } else if n % 192 != 0 {
        assert!(is_err!(&r, Bn128PairLength), "bn128 pairing: length not a multiple of 192 must fail");
    } else {
        assert!(zeros || n == 0);
        let Ok(out) = &r else { panic!("bn128 pairing: pairs of points at infinity within gas must succeed") };
        assert!(out.gas_used == cost, "bn128 pairing: gas != per_pair * k + base");
        assert!(out.bytes.len() == 32, "bn128 pairing: output is not 32 bytes");
        let o = &out.bytes;
        let mut z = 0u8;
        let mut i = 0;
        while i < 31 {
            z |= o[i];
            i += 1;
        }
        assert!(z == 0 && o[31] == 1, "bn128 pairing: empty product must return 1");
    }
    kani::cover!(cost > limit);
    kani::cover!(cost == limit);
    core::mem::forget(r);
    core::mem::forget(input);
}
inst!(body_bn_pair, 34, []:
    // (input length, istanbul?, all-zero input?)
    c23_bn_pair_istanbul_0 = (0, true, false, |i: &Bytes, l: u64| call(&revm_precompile::bn128::pair::ISTANBUL, i, l)),
    c23_bn_pair_byzantium_0 = (0, false, false, |i: &Bytes, l: u64| call(&revm_precompile::bn128::pair::BYZANTIUM, i, l)),
    c23_bn_pair_istanbul_1 = (1, true, false, |i: &Bytes, l: u64| call(&revm_precompile::bn128::pair::ISTANBUL, i, l)),
    c23_bn_pair_istanbul_191 = (191, true, false, |i: &Bytes, l: u64| call(&revm_precompile::bn128::pair::ISTANBUL, i, l)),
    c23_bn_pair_istanbul_193 = (193, true, false, |i: &Bytes, l: u64| call(&revm_precompile::bn128::pair::ISTANBUL, i, l)),
    c23_bn_pair_byzantium_193 = (193, false, false, |i: &Bytes, l: u64| call(&revm_precompile::bn128::pair::BYZANTIUM, i, l)),
    c23_bn_pair_istanbul_385 = (385, true, false, |i: &Bytes, l: u64| call(&revm_precompile::bn128::pair::ISTANBUL, i, l)),
    c23_bn_pair_byzantium_577 = (577, false, false, |i: &Bytes, l: u64| call(&revm_precompile::bn128::pair::BYZANTIUM, i, l)),
);


// =============================================================================================== twin
/// Same state as c23_identity_33 with a false claim at the end: must FAIL (shows the harnesses reach their assertions).
#[kani::proof]
#[kani::unwind(4)]
fn c23_twin_must_fail() {
    let limit: u64 = kani::any();
    let buf: [u8; 40] = kani::any();
    let input = input_of(&buf, 33);
    let r = call(&revm_precompile::identity::FUN, &input, limit);
    if let Ok(out) = &r {
        assert!(out.gas_used == 21 && out.bytes.len() == 33);
    }
    core::mem::forget(r);
    core::mem::forget(input);
    assert!(false, "twin: deliberately false");
}
