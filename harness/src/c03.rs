//! C03 — Arithmetic, comparison, bitwise and shift opcodes compute exact 256-bit results.
//! Unit: the real instruction functions of revm_interpreter::instructions::{arithmetic, bitwise}
//! run on a real `Interpreter` (1024-word stack) with symbolic operands, stack depth and gas.
//! Group A (this file, full 2^512 operand space): ADD SUB LT GT SLT SGT EQ ISZERO AND OR XOR NOT BYTE
//! SHL SHR SAR SIGNEXTEND, against limb-wise reference models that do not use ruint.
#![cfg(kani)]
use crate::util::*;
use revm_interpreter::instructions::{arithmetic, bitwise};
use revm_interpreter::{Contract, InstructionResult, Interpreter};
use revm_primitives::{ByzantiumSpec, LatestSpec, PetersburgSpec, U256};

pub type W = [u64; 4]; // little-endian limbs

pub fn w(x: &U256) -> W {
    limbs(x)
}
pub fn u(x: W) -> U256 {
    U256::from_limbs(x)
}
pub fn any_w() -> W {
    kani::any()
}
fn weq(a: W, b: W) -> bool {
    (a[0] == b[0]) & (a[1] == b[1]) & (a[2] == b[2]) & (a[3] == b[3])
}
const ZERO: W = [0; 4];
const ONE: W = [1, 0, 0, 0];
const ONES: W = [u64::MAX; 4];
fn bool_w(b: bool) -> W {
    if b { ONE } else { ZERO }
}

// ------------------------------------------------------------------ reference models (no ruint)
fn r_add(a: W, b: W) -> W {
    let mut o = [0u64; 4];
    let mut c = 0u128;
    let mut i = 0;
    while i < 4 {
        let s = a[i] as u128 + b[i] as u128 + c;
        o[i] = s as u64;
        c = s >> 64;
        i += 1;
    }
    o
}
fn r_not(a: W) -> W {
    [!a[0], !a[1], !a[2], !a[3]]
}
fn r_sub(a: W, b: W) -> W {
    // a - b = a + ~b + 1 (mod 2^256)
    r_add(r_add(a, r_not(b)), ONE)
}
fn r_ult(a: W, b: W) -> bool {
    if a[3] != b[3] {
        a[3] < b[3]
    } else if a[2] != b[2] {
        a[2] < b[2]
    } else if a[1] != b[1] {
        a[1] < b[1]
    } else {
        a[0] < b[0]
    }
}
fn neg(a: W) -> bool {
    (a[3] >> 63) == 1
}
fn r_slt(a: W, b: W) -> bool {
    match (neg(a), neg(b)) {
        (true, false) => true,
        (false, true) => false,
        _ => r_ult(a, b), // same sign: two's complement order equals unsigned order
    }
}
fn fits_small(a: W) -> Option<u64> {
    if (a[1] | a[2] | a[3]) == 0 { Some(a[0]) } else { None }
}
/// logical shift left by s < 256
fn r_shl_small(x: W, s: u64) -> W {
    let ls = (s / 64) as usize;
    let bs = (s % 64) as u32;
    let mut o = [0u64; 4];
    let mut j = 0;
    while j < 4 {
        if j >= ls {
            let lo = x[j - ls] << bs;
            let hi = if bs > 0 && j > ls { x[j - ls - 1] >> (64 - bs) } else { 0 };
            o[j] = lo | hi;
        }
        j += 1;
    }
    o
}
fn r_shr_small(x: W, s: u64) -> W {
    let ls = (s / 64) as usize;
    let bs = (s % 64) as u32;
    let mut o = [0u64; 4];
    let mut j = 0;
    while j < 4 {
        if j + ls < 4 {
            let lo = x[j + ls] >> bs;
            let hi = if bs > 0 && j + ls + 1 < 4 { x[j + ls + 1] << (64 - bs) } else { 0 };
            o[j] = lo | hi;
        }
        j += 1;
    }
    o
}
fn r_shl(shift: W, x: W) -> W {
    match fits_small(shift) {
        Some(s) if s < 256 => r_shl_small(x, s),
        _ => ZERO,
    }
}
fn r_shr(shift: W, x: W) -> W {
    match fits_small(shift) {
        Some(s) if s < 256 => r_shr_small(x, s),
        _ => ZERO,
    }
}
fn r_sar(shift: W, x: W) -> W {
    let n = neg(x);
    match fits_small(shift) {
        Some(s) if s < 256 => {
            let l = r_shr_small(x, s);
            if n && s > 0 {
                // fill the vacated top s bits with ones
                let fill = r_shl_small(ONES, 256 - s);
                [l[0] | fill[0], l[1] | fill[1], l[2] | fill[2], l[3] | fill[3]]
            } else {
                l
            }
        }
        _ => if n { ONES } else { ZERO },
    }
}
fn r_byte(idx: W, x: W) -> W {
    match fits_small(idx) {
        Some(i) if i < 32 => {
            let from_low = 31 - i; // byte 0 is the most significant
            let limb = (from_low / 8) as usize;
            let sh = ((from_low % 8) * 8) as u32;
            [(x[limb] >> sh) & 0xff, 0, 0, 0]
        }
        _ => ZERO,
    }
}
fn r_signextend(ext: W, x: W) -> W {
    match fits_small(ext) {
        Some(e) if e < 31 => {
            let t = 8 * e + 7; // index of the sign bit, <= 247
            let limb = (t / 64) as usize;
            let bit = (t % 64) as u32;
            let sign = (x[limb] >> bit) & 1 == 1;
            let mut o = [0u64; 4];
            let mut j = 0;
            while j < 4 {
                o[j] = if j < limb {
                    x[j]
                } else if j == limb {
                    let low_mask = if bit == 63 { u64::MAX } else { (1u64 << (bit + 1)) - 1 };
                    if sign { x[j] | !low_mask } else { x[j] & low_mask }
                } else if sign {
                    u64::MAX
                } else {
                    0
                };
                j += 1;
            }
            o
        }
        _ => x,
    }
}

// ------------------------------------------------------------------ common driver
/// A real `Interpreter` value with the real 1024-word `Stack`, `Gas` meter and result fields; all
/// fields are public, so it is assembled directly with empty code. (`Interpreter::new` over a real
/// `Contract`/`Bytecode` adds 3.5 M SAT variables of `Bytes`/`Arc`/bitvec plumbing that the pure
/// opcodes never touch; the code pointer is null because they never read code.)
pub fn new_interp(gas: u64) -> Interpreter {
    use revm_interpreter::{FunctionStack, Gas, InterpreterAction, Stack, EMPTY_SHARED_MEMORY};
    use revm_primitives::{Address, Bytecode, Bytes};
    Interpreter {
        instruction_pointer: core::ptr::null(),
        gas: Gas::new(gas),
        contract: Contract {
            input: Bytes::new(),
            bytecode: Bytecode::LegacyRaw(Bytes::new()),
            hash: None,
            target_address: Address::ZERO,
            bytecode_address: None,
            caller: Address::ZERO,
            call_value: U256::ZERO,
        },
        instruction_result: InstructionResult::Continue,
        bytecode: Bytes::new(),
        is_eof: false,
        is_eof_init: false,
        shared_memory: EMPTY_SHARED_MEMORY,
        stack: small_stack(),
        function_stack: FunctionStack::new(),
        return_data_buffer: Bytes::new(),
        is_static: false,
        next_action: InterpreterAction::None,
    }
}

/// A real `Stack` whose buffer holds 8 words instead of 1024. The opcodes of this property only pop and
/// overwrite the top word (`pop_top!`), they never push, so the buffer capacity is irrelevant to them;
/// the 1024-word buffer itself is the subject of C12. (With the 32 KiB buffer CBMC needs
/// `--arrays-uf-always`, which aborts inside CBMC on ruint's shift kernels.)
pub fn small_stack() -> revm_interpreter::Stack {
    let mut st = revm_interpreter::Stack::new();
    *st.data_mut() = Vec::with_capacity(8);
    st
}

/// Builds a stack holding `depth` words (`below` deepest, then c, b, and a on top; only the top
/// `arity`+1 of them can be present) with `gas` available. All symbolic choices are drawn here.
pub fn setup(arity: usize, depth: usize, a: W, b: W, c: W, below: W) -> (Interpreter, usize, u64) {
    // `depth` is concrete per harness (arity+1 for the functional check, arity-1 for underflow):
    // a symbolic stack length makes every stack access a symbolic-index access into a 32 KiB buffer
    // and the harness no longer closes.
    let gas: u64 = kani::any();
    let mut it = new_interp(gas);
    // bottom -> top: [below] (only if depth > arity), then the operands, deepest first, `a` on top
    let ops = [a, b, c];
    if depth > arity {
        it.stack.data_mut().push(u(below));
    }
    let present = if depth > arity { arity } else { depth };
    let mut k = present;
    while k > 0 {
        // with fewer than `arity` words the deepest operands are the missing ones
        it.stack.data_mut().push(u(ops[k - 1]));
        k -= 1;
    }
    assert!(it.stack.len() == depth);
    (it, depth, gas)
}

/// Checks every observable effect of an n-ary pure opcode against `want`.
pub fn verify(it: Interpreter, depth: usize, gas: u64, arity: usize, cost: u64, below: W, want: W) {
    let len0 = depth;
    if gas < cost {
        assert!(it.instruction_result == InstructionResult::OutOfGas, "charge above remaining gas must halt with OutOfGas");
        assert!(it.gas.remaining() == gas, "failed charge must not change the meter");
        assert!(it.stack.len() == len0, "stack changed although the opcode ran out of gas");
    } else if depth < arity {
        assert!(it.instruction_result == InstructionResult::StackUnderflow, "too few operands must halt with StackUnderflow");
        assert!(it.stack.len() == len0, "stack length changed on underflow");
    } else {
        assert!(it.instruction_result == InstructionResult::Continue, "opcode must succeed");
        assert!(it.gas.remaining() == gas - cost, "opcode must charge exactly its static gas");
        assert!(it.stack.len() == len0 + 1 - arity, "opcode must consume its inputs and push one result");
        let top = it.stack.peek(0).unwrap();
        assert!(weq(w(&top), want), "result differs from the 256-bit reference");
        if depth > arity {
            let under = it.stack.peek(1).unwrap();
            assert!(weq(w(&under), below), "word below the operands was modified");
        }
    }
    kani::cover!(gas < cost);
    kani::cover!(gas == cost);
    kani::cover!(gas > cost);
    core::mem::forget(it);
}

/// Underflow twin of every opcode harness: one operand short => StackUnderflow, stack untouched.
macro_rules! paste_underflow {
    ($name:ident, $f:expr, $cost:expr, $arity:expr) => {
        pub mod $name {
            use super::*;
            #[kani::proof]
            #[kani::unwind(34)]
            fn underflow() {
                let (a, b) = (any_w(), any_w());
                let (mut it, depth, gas) = setup($arity, $arity - 1, a, b, ZERO, ZERO);
                let mut host = NoHost;
                $f(&mut it, &mut host);
                verify(it, depth, gas, $arity, $cost, ZERO, ZERO);
            }
        }
    };
}

macro_rules! binop {
    ($name:ident, $f:expr, $cost:expr, |$a:ident, $b:ident| $model:expr) => {
        #[kani::proof]
        #[kani::unwind(34)]
        fn $name() {
            let ($a, $b, below) = (any_w(), any_w(), any_w());
            let (mut it, depth, gas) = setup(2, 3, $a, $b, ZERO, below);
            let mut host = NoHost;
            $f(&mut it, &mut host);
            let want: W = $model;
            verify(it, depth, gas, 2, $cost, below, want);
        }
        paste_underflow!($name, $f, $cost, 2);
    };
}
macro_rules! unop {
    ($name:ident, $f:expr, $cost:expr, |$a:ident| $model:expr) => {
        #[kani::proof]
        #[kani::unwind(34)]
        fn $name() {
            let ($a, below) = (any_w(), any_w());
            let (mut it, depth, gas) = setup(1, 2, $a, ZERO, ZERO, below);
            let mut host = NoHost;
            $f(&mut it, &mut host);
            let want: W = $model;
            verify(it, depth, gas, 1, $cost, below, want);
        }
        paste_underflow!($name, $f, $cost, 1);
    };
}

binop!(c03_add, arithmetic::add::<NoHost>, 3, |a, b| r_add(a, b));
binop!(c03_sub, arithmetic::sub::<NoHost>, 3, |a, b| r_sub(a, b));
binop!(c03_lt, bitwise::lt::<NoHost>, 3, |a, b| bool_w(r_ult(a, b)));
binop!(c03_gt, bitwise::gt::<NoHost>, 3, |a, b| bool_w(r_ult(b, a)));
binop!(c03_slt, bitwise::slt::<NoHost>, 3, |a, b| bool_w(r_slt(a, b)));
binop!(c03_sgt, bitwise::sgt::<NoHost>, 3, |a, b| bool_w(r_slt(b, a)));
binop!(c03_eq, bitwise::eq::<NoHost>, 3, |a, b| bool_w(weq(a, b)));
unop!(c03_iszero, bitwise::iszero::<NoHost>, 3, |a| bool_w(weq(a, ZERO)));
binop!(c03_and, bitwise::bitand::<NoHost>, 3, |a, b| [a[0] & b[0], a[1] & b[1], a[2] & b[2], a[3] & b[3]]);
binop!(c03_or, bitwise::bitor::<NoHost>, 3, |a, b| [a[0] | b[0], a[1] | b[1], a[2] | b[2], a[3] | b[3]]);
binop!(c03_xor, bitwise::bitxor::<NoHost>, 3, |a, b| [a[0] ^ b[0], a[1] ^ b[1], a[2] ^ b[2], a[3] ^ b[3]]);
unop!(c03_not, bitwise::not::<NoHost>, 3, |a| r_not(a));
binop!(c03_byte, bitwise::byte::<NoHost>, 3, |i, x| r_byte(i, x));
binop!(c03_shl, bitwise::shl::<NoHost, LatestSpec>, 3, |s, x| r_shl(s, x));
binop!(c03_shr, bitwise::shr::<NoHost, LatestSpec>, 3, |s, x| r_shr(s, x));
binop!(c03_sar, bitwise::sar::<NoHost, LatestSpec>, 3, |s, x| r_sar(s, x));
binop!(c03_shl_petersburg, bitwise::shl::<NoHost, PetersburgSpec>, 3, |s, x| r_shl(s, x));
binop!(c03_signextend, arithmetic::signextend::<NoHost>, 5, |e, x| r_signextend(e, x));

/// EIP-145: SHL/SHR/SAR do not exist before Constantinople: NotActivated, nothing consumed.
#[kani::proof]
#[kani::unwind(34)]
fn c03_shifts_not_activated_before_constantinople() {
    let which: u8 = kani::any();
    kani::assume(which < 3);
    let gas: u64 = kani::any();
    let (a, b) = (any_w(), any_w());
    let mut it = new_interp(gas);
    it.stack.data_mut().push(u(b));
    it.stack.data_mut().push(u(a));
    let mut host = NoHost;
    match which {
        0 => bitwise::shl::<NoHost, ByzantiumSpec>(&mut it, &mut host),
        1 => bitwise::shr::<NoHost, ByzantiumSpec>(&mut it, &mut host),
        _ => bitwise::sar::<NoHost, ByzantiumSpec>(&mut it, &mut host),
    }
    assert!(it.instruction_result == InstructionResult::NotActivated, "shift opcodes must be undefined before Constantinople");
    assert!(it.gas.remaining() == gas && it.stack.len() == 2);
    core::mem::forget(it);
}

#[kani::proof]
#[kani::unwind(34)]
fn c03_twin_must_fail() {
    let (a, b, below) = (any_w(), any_w(), any_w());
    let (mut it, depth, gas) = setup(2, 3, a, b, ZERO, below);
    let mut host = NoHost;
    arithmetic::add::<NoHost>(&mut it, &mut host);
    verify(it, depth, gas, 2, 3, below, r_add(a, b));
    assert!(false);
}


// ---------------------------------------------------------------------------------------------------------
// Group B, the one slice that closes: ADDMOD on operands that are already reduced (a < N, b < N).
// In that region (a + b) mod N needs no division — it is a + b - N if the 257-bit sum reaches N, else a + b — so the
// reference stays limb-wise, and ruint's division kernel is provably not needed: it is stubbed by a stand-in that FAILS
// when reached. The region contains the carry boundary (N > 2^255 with a + b >= 2^256) where a dropped carry shows.
pub fn stub_div_rem_unreachable<const BITS: usize, const LIMBS: usize>(
    a: revm_primitives::ruint::Uint<BITS, LIMBS>,
    b: revm_primitives::ruint::Uint<BITS, LIMBS>,
) -> (revm_primitives::ruint::Uint<BITS, LIMBS>, revm_primitives::ruint::Uint<BITS, LIMBS>) {
    assert!(false, "stub domain: division reached although both ADDMOD operands are below the modulus");
    (a, b)
}

/// 257-bit sum: (low 256 bits, carry)
fn r_add_carry(a: W, b: W) -> (W, bool) {
    let mut o = [0u64; 4];
    let mut c = 0u128;
    let mut i = 0;
    while i < 4 {
        let s = a[i] as u128 + b[i] as u128 + c;
        o[i] = s as u64;
        c = s >> 64;
        i += 1;
    }
    (o, c != 0)
}

#[kani::proof]
#[kani::unwind(34)]
#[kani::stub(revm_primitives::ruint::Uint::div_rem, stub_div_rem_unreachable)]
fn c03_addmod_reduced_operands() {
    let (a, b, n, below) = (any_w(), any_w(), any_w(), any_w());
    kani::assume(r_ult(a, n) && r_ult(b, n)); // implies n != 0
    let (mut it, depth, gas) = setup(3, 4, a, b, n, below);
    let mut host = NoHost;
    arithmetic::addmod::<NoHost>(&mut it, &mut host);
    let (sum, carry) = r_add_carry(a, b);
    let want = if carry || !r_ult(sum, n) { r_sub(sum, n) } else { sum };
    verify(it, depth, gas, 3, 8, below, want);
}

/// ADDMOD with a zero modulus pushes zero and never reaches the division kernel.
/// (MULMOD with a zero modulus also returns before any kernel, but CBMC still has to encode ruint's 512-bit product
/// and reduction behind the test: 760 s and more than 6 GB — dropped by rule 8.2.)
#[kani::proof]
#[kani::unwind(34)]
#[kani::stub(revm_primitives::ruint::Uint::div_rem, stub_div_rem_unreachable)]
fn c03_addmod_zero_modulus() {
    let (a, b, below) = (any_w(), any_w(), any_w());
    let (mut it, depth, gas) = setup(3, 4, a, b, ZERO, below);
    let mut host = NoHost;
    arithmetic::addmod::<NoHost>(&mut it, &mut host);
    verify(it, depth, gas, 3, 8, below, ZERO);
}

/// DIV / MOD / SDIV / SMOD by zero push zero; the division kernel must not be reached.
#[kani::proof]
#[kani::unwind(34)]
#[kani::stub(revm_primitives::ruint::Uint::div_rem, stub_div_rem_unreachable)]
fn c03_division_by_zero() {
    let (a, below) = (any_w(), any_w());
    let which: u8 = kani::any();
    kani::assume(which < 4);
    let (mut it, depth, gas) = setup(2, 3, a, ZERO, ZERO, below);
    let mut host = NoHost;
    match which {
        0 => arithmetic::div::<NoHost>(&mut it, &mut host),
        1 => arithmetic::rem::<NoHost>(&mut it, &mut host),
        2 => arithmetic::sdiv::<NoHost>(&mut it, &mut host),
        _ => arithmetic::smod::<NoHost>(&mut it, &mut host),
    }
    verify(it, depth, gas, 2, 5, below, ZERO);
}

// ---------------------------------------------------------------------------------------------------------
// Group B glue: DIV / MOD / SDIV / SMOD relative to ruint's division kernel.
// `Uint::div_rem` (behind `/`, `%`, wrapping_div, wrapping_rem) is replaced by a memoising stand-in: for a given operand
// pair it returns one arbitrary (q, r) constrained only by facts of true division (r < d; q <= n; d == 1 => q == n, r == 0;
// d >= 2 => q <= n/2), and the SAME pair again when asked again. The harness obtains its reference quotient/remainder from the
// same stand-in, so what is decided is everything AROUND the kernel: operand order, the zero-divisor rule, absolute values,
// the MIN / -1 case, sign fix-up, the sign of SMOD following the dividend — for all 2^512 operand pairs. The kernel itself
// (that q, r are THE quotient and remainder) is trusted. Natively (concrete playback) the real kernel runs on both sides.
static mut DR_SET: [bool; 2] = [false; 2];
static mut DR_N: [W; 2] = [[0; 4]; 2];
static mut DR_D: [W; 2] = [[0; 4]; 2];
static mut DR_Q: [W; 2] = [[0; 4]; 2];
static mut DR_R: [W; 2] = [[0; 4]; 2];

fn le(a: W, b: W) -> bool {
    !r_ult(b, a)
}

pub fn stub_div_rem_memo<const BITS: usize, const LIMBS: usize>(
    a: revm_primitives::ruint::Uint<BITS, LIMBS>,
    b: revm_primitives::ruint::Uint<BITS, LIMBS>,
) -> (revm_primitives::ruint::Uint<BITS, LIMBS>, revm_primitives::ruint::Uint<BITS, LIMBS>) {
    assert!(LIMBS == 4, "stub domain: only 256-bit division is stood in for");
    let (x, y) = (a.as_limbs(), b.as_limbs());
    let n: W = [x[0], x[1], x[2], x[3]];
    let d: W = [y[0], y[1], y[2], y[3]];
    assert!(!weq(d, ZERO), "division kernel reached with a zero divisor");
    unsafe {
        let mut slot = 2usize;
        if DR_SET[0] && weq(DR_N[0], n) && weq(DR_D[0], d) {
            slot = 0;
        } else if DR_SET[1] && weq(DR_N[1], n) && weq(DR_D[1], d) {
            slot = 1;
        }
        if slot == 2 {
            slot = if !DR_SET[0] { 0 } else { 1 };
            assert!(!DR_SET[slot], "stub domain: more than two distinct divisions in one opcode");
            let q: W = kani::any();
            let r: W = kani::any();
            kani::assume(r_ult(r, d));
            kani::assume(le(q, n));
            if weq(d, ONE) {
                kani::assume(weq(q, n) && weq(r, ZERO));
            } else {
                kani::assume(le(q, r_shr_small(n, 1)));
            }
            DR_SET[slot] = true;
            DR_N[slot] = n;
            DR_D[slot] = d;
            DR_Q[slot] = q;
            DR_R[slot] = r;
        }
        let mut qo = [0u64; LIMBS];
        let mut ro = [0u64; LIMBS];
        let mut i = 0;
        while i < 4 {
            qo[i] = DR_Q[slot][i];
            ro[i] = DR_R[slot][i];
            i += 1;
        }
        (revm_primitives::ruint::Uint::from_limbs(qo), revm_primitives::ruint::Uint::from_limbs(ro))
    }
}

fn r_neg(a: W) -> W {
    r_add(r_not(a), ONE)
}
fn r_abs(a: W) -> W {
    if neg(a) { r_neg(a) } else { a }
}
const MIN_I256: W = [0, 0, 0, 1 << 63];
const MINUS_ONE: W = ONES;

/// quotient and remainder of two non-negative words through the (stood-in or, natively, real) kernel
fn kernel(n: W, d: W) -> (W, W) {
    let (q, r) = u(n).div_rem(u(d));
    (w(&q), w(&r))
}

#[kani::proof]
#[kani::unwind(34)]
#[kani::stub(revm_primitives::ruint::Uint::div_rem, stub_div_rem_memo)]
fn c03_div_mod_glue() {
    let (a, b, below) = (any_w(), any_w(), any_w());
    let is_mod: bool = kani::any();
    let (mut it, depth, gas) = setup(2, 3, a, b, ZERO, below);
    let mut host = NoHost;
    if is_mod {
        arithmetic::rem::<NoHost>(&mut it, &mut host);
    } else {
        arithmetic::div::<NoHost>(&mut it, &mut host);
    }
    let want = if weq(b, ZERO) {
        ZERO
    } else {
        let (q, r) = kernel(a, b);
        if is_mod { r } else { q }
    };
    verify(it, depth, gas, 2, 5, below, want);
}

#[kani::proof]
#[kani::unwind(34)]
#[kani::stub(revm_primitives::ruint::Uint::div_rem, stub_div_rem_memo)]
fn c03_sdiv_glue() {
    let (a, b, below) = (any_w(), any_w(), any_w());
    let (mut it, depth, gas) = setup(2, 3, a, b, ZERO, below);
    let mut host = NoHost;
    arithmetic::sdiv::<NoHost>(&mut it, &mut host);
    let want = if weq(b, ZERO) {
        ZERO
    } else if weq(a, MIN_I256) && (weq(b, MINUS_ONE) || weq(b, ONE)) {
        MIN_I256 // -2^255 / -1 wraps to -2^255 ; -2^255 / 1 = -2^255
    } else {
        let (q, _) = kernel(r_abs(a), r_abs(b));
        if neg(a) != neg(b) { r_neg(q) } else { q }
    };
    verify(it, depth, gas, 2, 5, below, want);
}

#[kani::proof]
#[kani::unwind(34)]
#[kani::stub(revm_primitives::ruint::Uint::div_rem, stub_div_rem_memo)]
fn c03_smod_glue() {
    let (a, b, below) = (any_w(), any_w(), any_w());
    let (mut it, depth, gas) = setup(2, 3, a, b, ZERO, below);
    let mut host = NoHost;
    arithmetic::smod::<NoHost>(&mut it, &mut host);
    let want = if weq(b, ZERO) || weq(a, ZERO) {
        ZERO
    } else {
        let (_, r) = kernel(r_abs(a), r_abs(b));
        if neg(a) { r_neg(r) } else { r } // the result takes the sign of the dividend
    };
    verify(it, depth, gas, 2, 5, below, want);
}
