//! C27 — Stored bytecode keeps its original bytes and hash.
//! Units: revm_primitives::Bytecode::{new_legacy,new_raw,new_raw_checked,new_eip7702,original_bytes,
//! original_byte_slice,len,is_empty,hash_slow} (crates/primitives/src/bytecode.rs),
//! revm_primitives::Eip7702Bytecode::{new,new_raw,raw,address} (crates/primitives/src/eip7702/bytecode.rs),
//! revm_interpreter::analysis::to_analysed (crates/interpreter/src/interpreter/analysis.rs).
//!
//! Bounds: code LENGTH is concrete per harness (0..=8 for legacy code and for jump analysis, 2..=8 for EF00-prefixed
//! strings, 22/23/24 for EF01-prefixed strings, 23 and 0/2/3/22/24/43 for the EIP-7702 decoder), CONTENTS are
//! symbolic. Stubs: keccak256 -> `digest_stub` (the harness decides WHICH byte string is handed to the hash
//! function; keccak itself is trusted), Eof::decode -> `eof_decode_must_not_be_called` in the harnesses whose
//! inputs do not start with EF00. Measurements, dropped items: NOTES_c27.md.
#![cfg(kani)]
use revm_interpreter::analysis::to_analysed;
use revm_primitives::{
    eof::EofDecodeError, Address, Bytecode, BytecodeDecodeError, Bytes, Eip7702Bytecode, Eip7702DecodeError, Eof, B256,
    KECCAK_EMPTY,
};

// ------------------------------------------------------------------------------------------------ keccak stub
/// Replacement of `keccak256` (`-Z stubbing`): out[0] = length (mod 256), out[1 + i] = byte i for i < 31
/// (bytes at positions >= 31 are ignored).
/// On inputs of at most 31 bytes it is INJECTIVE: equal digests <=> same length and same bytes at the same
/// positions. Every legitimate input of this module is <= 23 bytes; the zero-padded analysis buffers (N + 33
/// bytes, <= 41) differ from the original code in out[0]. It never returns KECCAK_EMPTY (first byte 0xc5) for
/// an input shorter than 0xc5 bytes.
pub fn digest_stub<T: AsRef<[u8]>>(bytes: T) -> B256 {
    digest(bytes.as_ref())
}

/// Loop-free (no unwinding bound involved whatever the length handed to the hash function is).
fn digest(b: &[u8]) -> B256 {
    let mut out = [0u8; 32];
    let n = b.len();
    out[0] = n as u8;
    macro_rules! x { ($($i:literal)*) => { $( if $i < n { out[1 + $i] = b[$i]; } )* } }
    x!(0 1 2 3 4 5 6 7 8 9 10 11 12 13 14 15 16 17 18 19 20 21 22 23 24 25 26 27 28 29 30);
    B256::new(out)
}

/// Loop-free comparison of two 32-byte values (== on B256 is a memcmp loop).
fn b256_eq(a: &B256, b: &B256) -> bool {
    let a = &a.0;
    let b = &b.0;
    let mut acc = 0u8;
    macro_rules! x { ($($i:literal)*) => { $( acc |= a[$i] ^ b[$i]; )* } }
    x!(0 1 2 3 4 5 6 7 8 9 10 11 12 13 14 15 16 17 18 19 20 21 22 23 24 25 26 27 28 29 30 31);
    acc == 0
}

/// Slice equality with an explicit loop (bounded by the concrete length of the instance).
fn same_bytes(a: &[u8], b: &[u8]) -> bool {
    if a.len() != b.len() {
        return false;
    }
    let mut i = 0;
    let mut acc = 0u8;
    while i < a.len() {
        acc |= a[i] ^ b[i];
        i += 1;
    }
    acc == 0
}

/// Input `Bytes` backed by a leaked (static) copy of the symbolic array: `Bytes::from_static`, whose vtable has a
/// trivial clone/drop. (Heap-backed `Bytes::copy_from_slice` inputs make the drop/clone glue of the bytes crate
/// dominate: new_raw_checked on 2 heap-backed bytes did not finish in 295 s, on 8 static-backed bytes it takes 2 s.
/// c27_legacy_* keep heap-backed inputs.)
fn static_bytes<const N: usize>(code: &[u8; N]) -> Bytes {
    let leaked: &'static [u8; N] = Box::leak(Box::new(*code));
    Bytes::from_static(leaked)
}

/// len / is_empty / original_byte_slice / original_bytes of `bc` report exactly `input`.
/// `$stage` (a literal) is prefixed to every message so that each assertion of a harness has its own text.
macro_rules! check_bytes {
    ($stage:literal, $bc:expr, $input:expr) => {{
        let bc: &Bytecode = $bc;
        let input: &[u8] = $input;
        assert!(bc.len() == input.len(), concat!($stage, ": len() differs from the input length"));
        assert!(bc.is_empty() == (input.len() == 0), concat!($stage, ": is_empty() differs from input.is_empty()"));
        assert!(same_bytes(bc.original_byte_slice(), input), concat!($stage, ": original_byte_slice() differs from the input"));
        let ob = bc.original_bytes();
        assert!(same_bytes(&ob, input), concat!($stage, ": original_bytes() differs from the input"));
        core::mem::forget(ob);
    }};
}

/// `hash_slow` hashed exactly `input` (digest stub), or returned KECCAK_EMPTY for the empty input.
macro_rules! check_hash {
    ($stage:literal, $bc:expr, $input:expr) => {{
        let bc: &Bytecode = $bc;
        let input: &[u8] = $input;
        let h = bc.hash_slow();
        if input.len() == 0 {
            assert!(b256_eq(&h, &KECCAK_EMPTY), concat!($stage, ": hash_slow() of empty code is not KECCAK_EMPTY"));
        } else {
            assert!(b256_eq(&h, &digest(input)), concat!($stage, ": hash_slow() did not hash exactly the original bytes"));
        }
    }};
}

macro_rules! check_reports {
    ($stage:literal, $bc:expr, $input:expr) => {{
        check_bytes!($stage, $bc, $input);
        check_hash!($stage, $bc, $input);
    }};
}

macro_rules! inst {
    ($body:ident, $unwind:literal: $($name:ident = $n:literal),* $(,)?) => {
        $(
            #[kani::proof]
            #[kani::unwind($unwind)]
            #[kani::stub(revm_primitives::keccak256, digest_stub)]
            fn $name() {
                $body::<$n>();
            }
        )*
    };
}

// ------------------------------------------------------------------------------------------------ new_legacy
/// new_legacy(code) for every code of length N: accessors and hash report the input.
fn body_legacy<const N: usize>() {
    let code: [u8; N] = kani::any();
    let bc = Bytecode::new_legacy(Bytes::copy_from_slice(&code));
    assert!(matches!(bc, Bytecode::LegacyRaw(_)), "new_legacy must build LegacyRaw");
    check_reports!("new_legacy", &bc, &code);
    kani::cover!(N == 0 || code[0] == 0xEF, "legacy: EF-prefixed code reachable");
    kani::cover!(N == 0 || code[0] == 0x5B, "legacy: JUMPDEST-prefixed code reachable");
    core::mem::forget(bc);
}
// unwind: loops over at most 8 bytes (same_bytes) -> 10.
inst!(body_legacy, 10: c27_legacy_0 = 0, c27_legacy_1 = 1, c27_legacy_2 = 2, c27_legacy_3 = 3, c27_legacy_4 = 4,
      c27_legacy_5 = 5, c27_legacy_6 = 6, c27_legacy_7 = 7, c27_legacy_8 = 8);

// ------------------------------------------------------------------------------------------------ to_analysed
/// to_analysed(new_legacy(code)) for every code of length N: len / is_empty / original_byte_slice / original_bytes
/// equal the input before AND after jump analysis; the analysed form is LegacyAnalyzed whose execution buffer is
/// the code plus 33 zero bytes of padding (which the reports must not include); analysing twice changes nothing.
/// All of Kani's pointer checks are on inside `analyze` (raw-pointer walk, bitvec `set_unchecked`).
fn body_analysed<const N: usize>() {
    let code: [u8; N] = kani::any();
    let bc = Bytecode::new_legacy(static_bytes(&code));
    check_bytes!("before analysis", &bc, &code);
    let an = to_analysed(bc);
    assert!(matches!(an, Bytecode::LegacyAnalyzed(_)), "to_analysed(LegacyRaw) must build LegacyAnalyzed");
    check_bytes!("after analysis", &an, &code);
    assert!(an.bytes_slice().len() == N + 33, "analysed buffer is not the code plus 33 bytes of padding");
    let an = to_analysed(an);
    assert!(matches!(an, Bytecode::LegacyAnalyzed(_)), "to_analysed(LegacyAnalyzed) must stay LegacyAnalyzed");
    assert!(an.len() == N, "second to_analysed changed len()");
    kani::cover!(N == 0 || code[0] == 0x5B, "analysed: JUMPDEST reachable");
    kani::cover!(N == 0 || code[N - 1] == 0x7F, "analysed: trailing PUSH32 (immediate runs past the code) reachable");
    core::mem::forget(an);
}

/// hash_slow() after jump analysis hashes exactly the original N bytes (not the padded buffer), KECCAK_EMPTY for
/// N = 0. Separate from body_analysed: byte accessors and hash in one harness did not fit the 5 minute cap.
fn body_analysed_hash<const N: usize>() {
    let code: [u8; N] = kani::any();
    let an = to_analysed(Bytecode::new_legacy(static_bytes(&code)));
    check_hash!("after analysis", &an, &code);
    kani::cover!(N == 0 || code[0] == 0x5B, "analysed hash: JUMPDEST reachable");
    core::mem::forget(an);
}

macro_rules! inst_k {
    ($body:ident: $($name:ident = ($n:literal, $unwind:literal)),* $(,)?) => {
        $(
            #[kani::proof]
            #[kani::unwind($unwind)]
            #[kani::solver(kissat)]
            #[kani::stub(revm_primitives::keccak256, digest_stub)]
            fn $name() {
                $body::<$n>();
            }
        )*
    };
}
// unwind = N + 35: the analysis loop visits at most N + 33 bytes (code plus padding), +2 slack.
// solver: kissat (measured at N = 4, one accessor: cadical 262 s / 8.7 GB, kissat 88 s / 1.6 GB).
// Run with `--no-assertion-reach-checks` (registry flags): every reachable reach-check makes CBMC print a full
// trace in JSON (622 MB for c27_analysed_hash_0, parsed by kani-driver with 3 GB); assertions, pointer checks,
// unwinding assertions and cover witnesses are unaffected by that flag.
inst_k!(body_analysed: c27_analysed_0 = (0, 35), c27_analysed_1 = (1, 36), c27_analysed_2 = (2, 37),
        c27_analysed_3 = (3, 38), c27_analysed_4 = (4, 39), c27_analysed_5 = (5, 40), c27_analysed_6 = (6, 41),
        c27_analysed_7 = (7, 42), c27_analysed_8 = (8, 43));
inst_k!(body_analysed_hash: c27_analysed_hash_0 = (0, 35), c27_analysed_hash_1 = (1, 36), c27_analysed_hash_2 = (2, 37),
        c27_analysed_hash_3 = (3, 38), c27_analysed_hash_4 = (4, 39), c27_analysed_hash_5 = (5, 40),
        c27_analysed_hash_6 = (6, 41), c27_analysed_hash_7 = (7, 42), c27_analysed_hash_8 = (8, 43));

// ------------------------------------------------------------------------------------------------ codes that end like the padding
/// Codes whose tail is indistinguishable from the 33 zero bytes of analysis padding: K symbolic head bytes followed by
/// N - K concrete zero bytes (N - K = 32, 33, 34: one below, at and above the padding length). Length, byte accessors
/// and the padded-buffer length must still report all N bytes after (repeated) analysis.
fn body_analysed_zero_tail<const K: usize, const N: usize>() {
    let head: [u8; K] = kani::any();
    let mut code = [0u8; N];
    let mut i = 0;
    while i < K {
        code[i] = head[i];
        i += 1;
    }
    let bc = Bytecode::new_legacy(static_bytes(&code));
    let an = to_analysed(bc);
    assert!(matches!(an, Bytecode::LegacyAnalyzed(_)), "to_analysed(LegacyRaw) must build LegacyAnalyzed");
    assert!(an.len() == N, "zero tail: len() after analysis differs from the input length");
    assert!(an.original_byte_slice().len() == N, "zero tail: original_byte_slice() after analysis has another length");
    assert!(same_bytes(an.original_byte_slice(), &code), "zero tail: original_byte_slice() after analysis differs from the input");
    assert!(an.bytes_slice().len() == N + 33, "zero tail: analysed buffer is not the code plus 33 bytes of padding");
    let an = to_analysed(an);
    assert!(an.len() == N, "zero tail: second to_analysed changed len()");
    kani::cover!(head[0] == 0x5B, "zero tail: JUMPDEST head reachable");
    kani::cover!(head[0] == 0x7F, "zero tail: PUSH32 head reachable");
    core::mem::forget(an);
}
macro_rules! inst_tail {
    ($($name:ident = ($k:literal, $n:literal, $unwind:literal)),* $(,)?) => {
        $(
            #[kani::proof]
            #[kani::unwind($unwind)]
            #[kani::solver(kissat)]
            fn $name() {
                body_analysed_zero_tail::<$k, $n>();
            }
        )*
    };
}
// unwind = N + 35 (analysis loop over code plus padding; same_bytes over N bytes)
inst_tail!(c27_zero_tail_k1_z32 = (1, 33, 68), c27_zero_tail_k1_z33 = (1, 34, 69), c27_zero_tail_k1_z34 = (1, 35, 70),
           c27_zero_tail_k2_z33 = (2, 35, 70));

// ------------------------------------------------------------------------------------------------ new_raw_checked / new_raw
/// Reference classification (EIP-3540 magic EF00, EIP-7702 magic EF01): what must `new_raw_checked` do with `code`?
#[derive(PartialEq, Eq, Clone, Copy)]
enum Class {
    Legacy,
    EofPrefixed,
    DelegationPrefixed,
}
fn classify(code: &[u8]) -> Class {
    if code.len() >= 2 && code[0] == 0xEF && code[1] == 0x00 {
        Class::EofPrefixed
    } else if code.len() >= 2 && code[0] == 0xEF && code[1] == 0x01 {
        Class::DelegationPrefixed
    } else {
        Class::Legacy
    }
}

/// Stub for `Eof::decode` in the harnesses whose inputs do not start with EF00: reaching the EOF decoder with
/// such an input is itself a classification failure. (It also keeps the decoder out of the model: CBMC does not
/// see that `Eof::decode` fails early on a short input and unrolls all of its loops up to the unwind bound; with
/// the real decoder N = 2..4 did not finish in 295 s and N = 2 reached 22.9 GB.)
pub fn eof_decode_must_not_be_called(_raw: Bytes) -> Result<Eof, EofDecodeError> {
    panic!("Eof::decode called for a byte string that does not start with EF00")
}

/// new_raw_checked / new_raw on every byte string of length N <= 8 that does NOT start with EF00.
/// Reference: a string starting with EF01 whose length is not 23 is an EIP-7702 InvalidLength error; everything
/// else is stored as legacy code that reports exactly the input, and the EOF decoder is never entered.
/// `new_raw` is only called where the reference accepts (it is documented to panic otherwise) and must agree
/// with `new_raw_checked`.
fn body_raw_checked<const N: usize>() {
    let code: [u8; N] = kani::any();
    let class = classify(&code);
    kani::assume(class != Class::EofPrefixed);
    let r = Bytecode::new_raw_checked(static_bytes(&code));
    match class {
        Class::EofPrefixed => {}
        Class::DelegationPrefixed => {
            assert!(
                matches!(r, Err(BytecodeDecodeError::Eip7702(Eip7702DecodeError::InvalidLength))),
                "EF01-prefixed string of length != 23 must be rejected with InvalidLength"
            );
        }
        Class::Legacy => {
            assert!(matches!(r, Ok(Bytecode::LegacyRaw(_))), "non-EF00/EF01 code must be stored as LegacyRaw");
            if let Ok(bc) = &r {
                check_reports!("new_raw_checked legacy", bc, &code);
            }
            let bc2 = Bytecode::new_raw(static_bytes(&code));
            assert!(matches!(bc2, Bytecode::LegacyRaw(_)), "new_raw: non-EF00/EF01 code must be stored as LegacyRaw");
            check_reports!("new_raw legacy", &bc2, &code);
            core::mem::forget(bc2);
        }
    }
    kani::cover!(class == Class::DelegationPrefixed || N < 2, "raw_checked: EF01 prefix reachable");
    kani::cover!(class == Class::Legacy && (N == 0 || code[0] == 0xEF), "raw_checked: legacy code starting with EF reachable");
    kani::cover!(class == Class::Legacy && (N < 2 || (code[0] == 0x00 && code[1] == 0xEF)), "raw_checked: legacy code 00 EF reachable");
    core::mem::forget(r);
}
macro_rules! inst_noeof {
    ($body:ident, $unwind:literal: $($name:ident = $n:literal),* $(,)?) => {
        $(
            #[kani::proof]
            #[kani::unwind($unwind)]
            #[kani::stub(revm_primitives::keccak256, digest_stub)]
            #[kani::stub(revm_primitives::Eof::decode, eof_decode_must_not_be_called)]
            fn $name() {
                $body::<$n>();
            }
        )*
    };
}
// unwind: loops over at most 8 bytes (same_bytes), memcmp of the 2-byte magic -> 10.
inst_noeof!(body_raw_checked, 10: c27_raw_checked_0 = 0, c27_raw_checked_1 = 1, c27_raw_checked_2 = 2,
            c27_raw_checked_3 = 3, c27_raw_checked_4 = 4, c27_raw_checked_5 = 5, c27_raw_checked_6 = 6,
            c27_raw_checked_7 = 7, c27_raw_checked_8 = 8);

/// EF00-prefixed strings of length N <= 8 (below the 20 bytes of the smallest EOF container), bytes after the
/// prefix symbolic, REAL `Eof::decode`: new_raw_checked must return an EOF decode error (never legacy, never 7702).
fn body_raw_checked_ef00<const N: usize>() {
    let mut code: [u8; N] = kani::any();
    code[0] = 0xEF;
    code[1] = 0x00;
    let r = Bytecode::new_raw_checked(static_bytes(&code));
    assert!(matches!(r, Err(BytecodeDecodeError::Eof(_))), "EF00-prefixed string below 20 bytes must be an EOF decode error");
    kani::cover!(N < 3 || code[2] == 0x01, "raw_checked ef00: version 1 reachable");
    core::mem::forget(r);
}
macro_rules! inst_u {
    ($body:ident: $($name:ident = ($n:literal, $unwind:literal)),* $(,)?) => {
        $(
            #[kani::proof]
            #[kani::unwind($unwind)]
            fn $name() {
                $body::<$n>();
            }
        )*
    };
}
// unwind 4: the only loops that run are the memcmp of the 2-byte magic; the decoder's own loops cannot be entered
// below 9 bytes (checked by the unwinding assertions), and CBMC unrolls them up to the bound anyway.
inst_u!(body_raw_checked_ef00: c27_raw_checked_ef00_2 = (2, 4), c27_raw_checked_ef00_3 = (3, 4), c27_raw_checked_ef00_4 = (4, 4),
        c27_raw_checked_ef00_5 = (5, 4), c27_raw_checked_ef00_6 = (6, 4), c27_raw_checked_ef00_7 = (7, 4),
        c27_raw_checked_ef00_8 = (8, 4));

// ------------------------------------------------------------------------------------------------ EIP-7702
/// The 23-byte designator of EIP-7702: 0xef0100 || address.
fn designator(a: &[u8; 20]) -> [u8; 23] {
    let mut d = [0u8; 23];
    d[0] = 0xEF;
    d[1] = 0x01;
    d[2] = 0x00;
    let mut i = 0;
    while i < 20 {
        d[3 + i] = a[i];
        i += 1;
    }
    d
}

/// For every address a: Eip7702Bytecode::new(a).raw() == ef0100 || a, address() == a, version 0; decoding that
/// very raw value (new_raw(new(a).raw().clone())) gives back a and the same 23 bytes.
#[kani::proof]
#[kani::unwind(26)] // loops over 23 bytes (same_bytes, designator), memcmp of the 2-byte magic
fn c27_7702_encode() {
    let a: [u8; 20] = kani::any();
    let want = designator(&a);
    let e = Eip7702Bytecode::new(Address::new(a));
    assert!(same_bytes(e.raw(), &want), "Eip7702Bytecode::new(a).raw() is not ef0100 || a");
    assert!(same_bytes(&e.address().0 .0, &a), "Eip7702Bytecode::new(a).address() is not a");
    assert!(e.version == 0, "Eip7702Bytecode::new(a) version is not 0");

    let d = Eip7702Bytecode::new_raw(e.raw().clone());
    assert!(d.is_ok(), "the designator built by new(a) is rejected by new_raw");
    if let Ok(d) = &d {
        assert!(same_bytes(&d.address().0 .0, &a), "new_raw(new(a).raw()) does not give back a");
        assert!(same_bytes(d.raw(), &want), "new_raw(new(a).raw()).raw() is not ef0100 || a");
    }
    kani::cover!(a[0] == 0xEF && a[19] == 0x01, "7702 encode: arbitrary address bytes reachable");
    core::mem::forget(d);
    core::mem::forget(e);
}

/// For every address a: Bytecode::new_eip7702(a) reports the designator ef0100 || a as its original bytes /
/// length / hash, and to_analysed leaves it alone (same variant, same reports).
#[kani::proof]
#[kani::unwind(26)]
#[kani::stub(revm_primitives::keccak256, digest_stub)]
fn c27_7702_bytecode() {
    let a: [u8; 20] = kani::any();
    let want = designator(&a);
    let bc = Bytecode::new_eip7702(Address::new(a));
    assert!(bc.is_eip7702(), "new_eip7702 must build the Eip7702 variant");
    check_reports!("new_eip7702", &bc, &want);
    let an = to_analysed(bc);
    assert!(an.is_eip7702(), "to_analysed must leave a delegation designator alone");
    check_reports!("new_eip7702 after to_analysed", &an, &want);
    kani::cover!(a[0] == 0x5B && a[19] == 0x7F, "7702 bytecode: arbitrary address bytes reachable");
    core::mem::forget(an);
}

/// Every 23-byte string: accepted by Eip7702Bytecode::new_raw iff it starts with ef01 00; wrong magic ->
/// InvalidMagic, wrong version -> UnsupportedVersion; an accepted string decodes to its last 20 bytes and
/// re-encodes (new(address).raw()) to itself.
#[kani::proof]
#[kani::unwind(26)]
fn c27_7702_decode_23() {
    let s: [u8; 23] = kani::any();
    let r = Eip7702Bytecode::new_raw(static_bytes(&s));
    let magic_ok = s[0] == 0xEF && s[1] == 0x01;
    let version_ok = s[2] == 0x00;
    if !magic_ok {
        assert!(matches!(r, Err(Eip7702DecodeError::InvalidMagic)), "23 bytes not starting with ef01 must be InvalidMagic");
    } else if !version_ok {
        assert!(matches!(r, Err(Eip7702DecodeError::UnsupportedVersion)), "ef01 with version != 0 must be UnsupportedVersion");
    } else {
        assert!(r.is_ok(), "ef0100 || 20 bytes must be accepted");
        if let Ok(d) = &r {
            let mut a = [0u8; 20];
            let mut i = 0;
            while i < 20 {
                a[i] = s[3 + i];
                i += 1;
            }
            assert!(same_bytes(&d.address().0 .0, &a), "decoded address is not bytes 3..23 of the designator");
            assert!(d.version == 0, "decoded version is not 0");
            assert!(same_bytes(d.raw(), &s), "accepted designator does not keep its raw bytes");
            let re = Eip7702Bytecode::new(d.address());
            assert!(same_bytes(re.raw(), &s), "accepted designator does not re-encode to itself");
            core::mem::forget(re);
        }
    }
    kani::cover!(!magic_ok, "7702 decode: wrong magic reachable");
    kani::cover!(magic_ok && !version_ok, "7702 decode: wrong version reachable");
    kani::cover!(magic_ok && version_ok && s[3] == 0xFF, "7702 decode: accepted reachable");
    core::mem::forget(r);
}

/// Lengths other than 23 are rejected with InvalidLength whatever the bytes are (including a correct ef0100 head).
fn body_7702_len<const N: usize>() {
    let s: [u8; N] = kani::any();
    let r = Eip7702Bytecode::new_raw(static_bytes(&s));
    assert!(matches!(r, Err(Eip7702DecodeError::InvalidLength)), "length != 23 must be InvalidLength");
    kani::cover!(N < 3 || (s[0] == 0xEF && s[1] == 0x01 && s[2] == 0x00), "7702 length: correct head reachable");
    core::mem::forget(r);
}
inst!(body_7702_len, 4: c27_7702_len_0 = 0, c27_7702_len_2 = 2, c27_7702_len_3 = 3, c27_7702_len_22 = 22,
      c27_7702_len_24 = 24, c27_7702_len_43 = 43);

/// Bytecode::new_raw_checked / new_raw on EF01-prefixed strings of length N (bytes after the prefix symbolic):
/// Eip7702 iff N == 23 and version byte 0, and then the bytecode reports exactly the input; otherwise the matching
/// EIP-7702 decode error.
fn body_raw_checked_ef01<const N: usize>() {
    let mut code: [u8; N] = kani::any();
    code[0] = 0xEF;
    code[1] = 0x01;
    let r = Bytecode::new_raw_checked(static_bytes(&code));
    if N != 23 {
        assert!(
            matches!(r, Err(BytecodeDecodeError::Eip7702(Eip7702DecodeError::InvalidLength))),
            "EF01-prefixed string of length != 23 must be InvalidLength"
        );
    } else if code[2] != 0 {
        assert!(
            matches!(r, Err(BytecodeDecodeError::Eip7702(Eip7702DecodeError::UnsupportedVersion))),
            "EF01-prefixed 23-byte string with version != 0 must be UnsupportedVersion"
        );
    } else {
        assert!(matches!(r, Ok(Bytecode::Eip7702(_))), "ef0100 || 20 bytes must be stored as Eip7702");
        if let Ok(bc) = &r {
            check_reports!("new_raw_checked 7702", bc, &code);
        }
        let bc2 = Bytecode::new_raw(static_bytes(&code));
        assert!(bc2.is_eip7702(), "new_raw: ef0100 || 20 bytes must be stored as Eip7702");
        check_reports!("new_raw 7702", &bc2, &code);
        core::mem::forget(bc2);
    }
    kani::cover!(N != 23 || code[2] == 0, "raw_checked ef01: accepted reachable");
    kani::cover!(N != 23 || code[2] != 0, "raw_checked ef01: wrong version reachable");
    core::mem::forget(r);
}
inst!(body_raw_checked_ef01, 26: c27_raw_checked_ef01_22 = 22, c27_raw_checked_ef01_23 = 23, c27_raw_checked_ef01_24 = 24);

// ------------------------------------------------------------------------------------------------ twin
/// Same state and checks as c27_raw_checked_4, then assert!(false): must FAIL (vacuity guard of the module).
#[kani::proof]
#[kani::unwind(10)]
#[kani::stub(revm_primitives::keccak256, digest_stub)]
#[kani::stub(revm_primitives::Eof::decode, eof_decode_must_not_be_called)]
fn c27_twin_must_fail() {
    body_raw_checked::<4>();
    assert!(false, "twin: reachable end of harness");
}
