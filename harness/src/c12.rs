//! C12 — The EVM stack is a bounded LIFO of 1024 words.
//! Unit: revm_interpreter::Stack (crates/interpreter/src/interpreter/stack.rs), the real 1024-word buffer.
//! Single-step inductive harnesses: pre-state = real `Stack::new()` buffer (capacity 1024) whose length is one of
//! the listed values and whose contents are arbitrary; one operation with symbolic arguments; the post-state is
//! compared with the list model through a symbolic witness index (covers every position of the stack at once).
//! Kani's pointer checks stay on: an out-of-bounds copy/swap is a failure of this property.
#![cfg(kani)]
use crate::util::*;
use revm_interpreter::{InstructionResult, Stack, STACK_LIMIT};
use revm_primitives::{B256, U256};

/// Real stack buffer with length `n` and arbitrary contents. The contents are left uninitialised,
/// which CBMC models as arbitrary-but-fixed values: every word of the pre-state is symbolic.
fn stack_of_len(n: usize) -> Stack {
    let mut st = Stack::new();
    assert!(st.data().capacity() == STACK_LIMIT);
    unsafe { st.data_mut().set_len(n) };
    st
}

fn word(st: &Stack, j: usize) -> [u64; 4] {
    limbs(&st.data()[j])
}
fn same(a: [u64; 4], b: [u64; 4]) -> bool {
    (a[0] == b[0]) & (a[1] == b[1]) & (a[2] == b[2]) & (a[3] == b[3])
}

/// Instantiates a body at concrete pre-state lengths (a symbolic length makes every access a symbolic-index
/// access into the 32 KiB buffer and does not close; the lengths cover empty / small / DUP16-SWAP16 reach / limit).
macro_rules! inst {
    ($body:ident, $unwind:literal: $($name:ident = $n:literal),* $(,)?) => {
        $(
            #[kani::proof]
            #[kani::unwind($unwind)]
            fn $name() {
                $body($n);
            }
        )*
    };
}

/// Witness position j < n with its pre-state value (n == 0: no position).
fn witness(st: &Stack, n: usize) -> (usize, [u64; 4]) {
    let j: usize = kani::any();
    if n == 0 {
        return (0, [0; 4]);
    }
    kani::assume(j < n);
    (j, word(st, j))
}

fn invariant(st: &Stack) {
    assert!(st.len() <= STACK_LIMIT, "stack longer than 1024 words");
    assert!(st.data().capacity() == STACK_LIMIT, "stack buffer reallocated");
}

// ------------------------------------------------------------------------------ push / push_b256
fn body_push(n: usize) {
    let v = any_u256();
    let as_b256: bool = kani::any();
    let mut st = stack_of_len(n);
    let (j, before_j) = witness(&st, n);
    let r = if as_b256 { st.push_b256(B256::from(v)) } else { st.push(v) };
    if n == 1024 {
        assert!(r == Err(InstructionResult::StackOverflow), "push on a full stack must report StackOverflow");
        assert!(st.len() == n, "failed push changed the length");
    } else {
        assert!(r.is_ok(), "push below the limit must succeed");
        assert!(st.len() == n + 1, "push must grow the stack by one");
        assert!(same(word(&st, n), limbs(&v)), "pushed word is not on top");
    }
    if n > 0 {
        assert!(same(word(&st, j), before_j), "push modified an existing word");
    }
    invariant(&st);
    kani::cover!(as_b256);
    kani::cover!(!as_b256);
    core::mem::forget(st);
}
inst!(body_push, 34: c12_push_0 = 0, c12_push_1 = 1, c12_push_1023 = 1023, c12_push_1024 = 1024);

// ------------------------------------------------------------------------------ pop
fn body_pop(n: usize) {
    let mut st = stack_of_len(n);
    let (j, before_j) = witness(&st, n);
    let top = if n > 0 { word(&st, n - 1) } else { [0; 4] };
    let r = st.pop();
    if n == 0 {
        assert!(r == Err(InstructionResult::StackUnderflow), "pop on an empty stack must report StackUnderflow");
        assert!(st.len() == 0);
    } else {
        assert!(r.is_ok());
        assert!(same(limbs(&r.unwrap()), top), "pop did not return the top word");
        assert!(st.len() == n - 1, "pop must shrink the stack by one");
        if j < n - 1 {
            assert!(same(word(&st, j), before_j), "pop modified a remaining word");
        }
    }
    invariant(&st);
    core::mem::forget(st);
}
inst!(body_pop, 3: c12_pop_0 = 0, c12_pop_1 = 1, c12_pop_2 = 2, c12_pop_1024 = 1024);

// ------------------------------------------------------------------------------ peek / set
fn body_peek_set(n: usize) {
    let i: usize = kani::any();
    let v = any_u256();
    let do_set: bool = kani::any();
    let mut st = stack_of_len(n);
    let (j, before_j) = witness(&st, n);
    if do_set {
        let r = st.set(i, v);
        if i < n {
            assert!(r.is_ok(), "set within the stack must succeed");
            let pos = n - 1 - i;
            assert!(same(word(&st, pos), limbs(&v)), "set did not store at the i-th word from the top");
            if j != pos {
                assert!(same(word(&st, j), before_j), "set modified another word");
            }
        } else {
            assert!(r == Err(InstructionResult::StackUnderflow), "set beyond the stack must report StackUnderflow");
            if n > 0 {
                assert!(same(word(&st, j), before_j), "failed set modified the stack");
            }
        }
    } else {
        let r = st.peek(i);
        if i < n {
            let pos = n - 1 - i;
            assert!(r.is_ok() && same(limbs(&r.unwrap()), word(&st, pos)), "peek(i) is not the i-th word from the top");
        } else {
            assert!(r == Err(InstructionResult::StackUnderflow), "peek beyond the stack must report StackUnderflow");
        }
        if n > 0 {
            assert!(same(word(&st, j), before_j), "peek modified the stack");
        }
    }
    assert!(st.len() == n, "peek/set changed the length");
    invariant(&st);
    kani::cover!(do_set);
    kani::cover!(!do_set);
    core::mem::forget(st);
}
inst!(body_peek_set, 3: c12_peek_set_0 = 0, c12_peek_set_1 = 1, c12_peek_set_17 = 17, c12_peek_set_1024 = 1024);

// ------------------------------------------------------------------------------ dup
fn body_dup(n: usize, k: usize) {
    // (n, k) concrete per harness (DUP1..16 boundaries and DUPN's maximum 256); dup(0) is excluded by its
    // documented precondition. Symbolic k turns the 32-byte copy into a symbolic-offset memcpy.
    let mut st = stack_of_len(n);
    let (j, before_j) = witness(&st, n);
    let src = if k <= n { word(&st, n - k) } else { [0; 4] };
    let r = st.dup(k);
    if n < k {
        assert!(r == Err(InstructionResult::StackUnderflow), "dup deeper than the stack must report StackUnderflow");
        assert!(st.len() == n);
    } else if n == 1024 {
        assert!(r == Err(InstructionResult::StackOverflow), "dup on a full stack must report StackOverflow");
        assert!(st.len() == n);
    } else {
        assert!(r.is_ok());
        assert!(st.len() == n + 1, "dup must grow the stack by one");
        assert!(same(word(&st, n), src), "dup(k) did not copy the k-th word from the top");
    }
    if n > 0 {
        assert!(same(word(&st, j), before_j), "dup modified an existing word");
    }
    invariant(&st);
    kani::cover!(st.len() >= n);
    core::mem::forget(st);
}
macro_rules! inst_d {
    ($($name:ident = ($n:literal, $k:literal)),* $(,)?) => {
        $(
            #[kani::proof]
            #[kani::unwind(34)]
            fn $name() {
                body_dup($n, $k);
            }
        )*
    };
}
inst_d!(
    c12_dup_n0_k1 = (0, 1),
    c12_dup_n1_k1 = (1, 1),
    c12_dup_n1_k2 = (1, 2),
    c12_dup_n16_k16 = (16, 16),
    c12_dup_n16_k17 = (16, 17),
    c12_dup_n255_k256 = (255, 256),
    c12_dup_n300_k256 = (300, 256),
    c12_dup_n1023_k1 = (1023, 1),
    c12_dup_n1023_k16 = (1023, 16),
    c12_dup_n1024_k1 = (1024, 1),
    c12_dup_n1024_k16 = (1024, 16),
);

// ------------------------------------------------------------------------------ swap / exchange
fn body_exchange(n: usize, a: usize, m: usize) {
    // (n, a, m) are concrete per harness: symbolic offsets turn `swap_nonoverlapping` into a symbolic-offset
    // memcpy that CBMC does not finish. The instantiations below sit on both sides of every bound.
    // a == 0 goes through `swap(m)` (which is `exchange(0, m)`), otherwise through `exchange(a, m)` directly
    let via_swap: bool = a == 0;
    let a = if via_swap { 0 } else { a };
    let mut st = stack_of_len(n);
    let (j, before_j) = witness(&st, n);
    let in_range = a + m < n;
    let (p1, p2) = if in_range { (n - 1 - a, n - 1 - a - m) } else { (0, 0) };
    let (w1, w2) = if in_range { (word(&st, p1), word(&st, p2)) } else { ([0; 4], [0; 4]) };
    let r = if via_swap { st.swap(m) } else { st.exchange(a, m) };
    if in_range {
        assert!(r.is_ok(), "exchange within the stack must succeed");
        assert!(same(word(&st, p1), w2) && same(word(&st, p2), w1), "exchange did not swap the two addressed words");
        if j != p1 && j != p2 {
            assert!(same(word(&st, j), before_j), "exchange modified a third word");
        }
    } else {
        assert!(r == Err(InstructionResult::StackUnderflow), "exchange reaching below the stack must report StackUnderflow");
        if n > 0 {
            assert!(same(word(&st, j), before_j), "failed exchange modified the stack");
        }
    }
    assert!(st.len() == n, "exchange changed the length");
    invariant(&st);
    kani::cover!(st.len() == n);
    core::mem::forget(st);
}
macro_rules! inst_x {
    ($($name:ident = ($n:literal, $a:literal, $m:literal)),* $(,)?) => {
        $(
            #[kani::proof]
            #[kani::unwind(34)]
            fn $name() {
                body_exchange($n, $a, $m);
            }
        )*
    };
}
inst_x!(
    c12_exchange_n0_a0_m1 = (0, 0, 1),
    c12_exchange_n1_a0_m1 = (1, 0, 1),
    c12_exchange_n2_a0_m1 = (2, 0, 1),
    c12_exchange_n3_a1_m1 = (3, 1, 1),
    c12_exchange_n3_a1_m2 = (3, 1, 2),
    c12_exchange_n3_a2_m1 = (3, 2, 1),
    c12_exchange_n17_a0_m16 = (17, 0, 16),
    c12_exchange_n17_a0_m17 = (17, 0, 17),
    c12_exchange_n17_a16_m1 = (17, 16, 1),
    c12_exchange_n33_a16_m16 = (33, 16, 16),
    c12_exchange_n32_a16_m16 = (32, 16, 16),
    c12_exchange_n1024_a0_m1023 = (1024, 0, 1023),
    c12_exchange_n1024_a1_m1023 = (1024, 1, 1023),
);

// ------------------------------------------------------------------------------ push_slice
/// Big-endian value of bytes[lo..hi] (hi - lo <= 32), zero-extended on the high side: the repository's
/// unit test `push_slices` pins `[42] -> 42`; this is what PUSH1..PUSH31 need.
fn be_word(bytes: &[u8; 70], lo: usize, hi: usize) -> [u64; 4] {
    let mut out = [0u64; 4];
    let mut k = 0;
    while k < 32 {
        // k-th byte counted from the least significant end of the chunk
        if lo + k < hi {
            let b = bytes[hi - 1 - k] as u64;
            out[k / 8] |= b << (8 * (k % 8));
        }
        k += 1;
    }
    out
}

fn body_push_slice(n: usize, len: usize) {
    // (n, len) concrete per harness; the bytes and the checked word index are symbolic.
    let bytes: [u8; 70] = kani::any();
    let wsel: usize = kani::any();
    let mut st = stack_of_len(n);
    let (j, before_j) = witness(&st, n);
    let r = st.push_slice(&bytes[..len]);
    let n_words = (len + 31) / 32;
    if n + n_words > 1024 {
        assert!(r == Err(InstructionResult::StackOverflow), "push_slice past the limit must report StackOverflow");
        assert!(st.len() == n, "failed push_slice changed the length");
    } else {
        assert!(r.is_ok(), "push_slice within the limit must succeed");
        assert!(st.len() == n + n_words, "push_slice must add ceil(len/32) words");
        if n_words > 0 {
            kani::assume(wsel < n_words);
            let lo = 32 * wsel;
            let hi = if lo + 32 < len { lo + 32 } else { len };
            assert!(same(word(&st, n + wsel), be_word(&bytes, lo, hi)), "push_slice word differs from the big-endian value of its bytes");
        }
    }
    if n > 0 {
        assert!(same(word(&st, j), before_j), "push_slice modified an existing word");
    }
    invariant(&st);
    kani::cover!(bytes[0] == 0xff);
    core::mem::forget(st);
}
macro_rules! inst_s {
    ($($name:ident = ($n:literal, $len:literal)),* $(,)?) => {
        $(
            #[kani::proof]
            #[kani::unwind(72)]
            fn $name() {
                body_push_slice($n, $len);
            }
        )*
    };
}
inst_s!(
    c12_push_slice_n0_l0 = (0, 0),
    c12_push_slice_n0_l1 = (0, 1),
    c12_push_slice_n0_l5 = (0, 5),
    c12_push_slice_n0_l8 = (0, 8),
    c12_push_slice_n0_l20 = (0, 20),
    c12_push_slice_n0_l31 = (0, 31),
    c12_push_slice_n0_l32 = (0, 32),
    c12_push_slice_n0_l33 = (0, 33),
    c12_push_slice_n0_l45 = (0, 45),
    c12_push_slice_n0_l64 = (0, 64),
    c12_push_slice_n0_l70 = (0, 70),
    c12_push_slice_n1021_l70 = (1021, 70),
    c12_push_slice_n1022_l70 = (1022, 70),
    c12_push_slice_n1022_l64 = (1022, 64),
    c12_push_slice_n1023_l33 = (1023, 33),
    c12_push_slice_n1023_l32 = (1023, 32),
    c12_push_slice_n1024_l1 = (1024, 1),
    c12_push_slice_n1024_l0 = (1024, 0),
);

#[kani::proof]
#[kani::unwind(34)]
fn c12_twin_must_fail() {
    body_push(1023);
    assert!(false);
}
