//! C09 — Gas used and fees paid follow the transaction gas rules (gas-meter part).
//! Units: revm::handler::mainnet::{last_frame_return, refund} on a real `Context`, and the EIP-7623 floor step
//! (the spent_sub_refunded / set_spent / set_refund sequence of Evm::transact_preverified_inner, whose presence in the
//! real function is checked on MIR by lib/jobs_e3.py run_floor_step) — all u64/i64 values consistent with frame accounting.
#![cfg(kani)]
use revm::db::EmptyDB;
use revm::handler::mainnet::{last_frame_return, refund};
use revm::interpreter::{CallOutcome, Gas, InstructionResult, InterpreterResult};
use revm::primitives::{BerlinSpec, Bytes, LatestSpec, LondonSpec};
use revm::{Context, EvmContext, FrameResult};

pub fn stub_random_state() -> std::hash::RandomState {
    // the journal's (empty) maps are never hashed into; std's constructor reaches getrandom, which Kani cannot model
    unsafe { core::mem::transmute::<[u64; 2], std::hash::RandomState>([0, 0]) }
}

fn any_result() -> (InstructionResult, u8) {
    let sel: u8 = kani::any();
    kani::assume(sel < 8);
    (
        match sel {
            0 => InstructionResult::Stop,
            1 => InstructionResult::Return,
            2 => InstructionResult::SelfDestruct,
            3 => InstructionResult::Revert,
            4 => InstructionResult::OutOfGas,
            5 => InstructionResult::InvalidJump,
            6 => InstructionResult::StackOverflow,
            _ => InstructionResult::CreateCollision,
        },
        sel,
    )
}

/// last_frame_return: spent <= tx gas limit; unspent gas comes back on success and revert; refund kept only on success; a halt uses everything.
#[kani::proof]
#[kani::unwind(34)]
#[kani::stub(std::hash::RandomState::new, stub_random_state)]
fn c09_last_frame_return() {
    let tx_gas_limit: u64 = kani::any();
    let frame_limit: u64 = kani::any();
    let frame_spent: u64 = kani::any();
    let frame_refund: i64 = kani::any();
    let (result, sel) = any_result();
    // the first frame gets tx gas limit minus intrinsic gas; it cannot spend more than it got; refunds are non-negative at frame end
    kani::assume(frame_limit <= tx_gas_limit && frame_spent <= frame_limit && frame_refund >= 0);
    let mut ctx: Context<(), EmptyDB> = Context::new(EvmContext::new(EmptyDB::default()), ());
    ctx.evm.inner.env.tx.gas_limit = tx_gas_limit;
    let mut g = Gas::new(frame_limit);
    assert!(g.record_cost(frame_spent));
    g.record_refund(frame_refund);
    let mut fr = FrameResult::Call(CallOutcome::new(InterpreterResult::new(result, Bytes::new(), g), 0..0));
    assert!(last_frame_return::<LatestSpec, (), EmptyDB>(&mut ctx, &mut fr).is_ok());
    let out = *fr.gas();
    let success = sel <= 2;
    let revert = sel == 3;
    assert!(out.limit() == tx_gas_limit, "transaction gas meter limit is not the tx gas limit");
    assert!(out.spent() <= tx_gas_limit, "gas used exceeds the gas limit");
    if success || revert {
        assert!(out.remaining() == frame_limit - frame_spent, "unspent gas of the first frame was not returned");
    } else {
        assert!(out.remaining() == 0 && out.spent() == tx_gas_limit, "a halted transaction must use its whole gas limit");
    }
    assert!(out.refunded() == if success { frame_refund } else { 0 }, "refund must survive only a successful transaction");
    kani::cover!(success && frame_refund > 0);
    kani::cover!(revert);
    kani::cover!(!success && !revert);
    core::mem::forget(ctx);
}

fn refund_body<const LONDON: bool>(g: &mut Gas, eip7702_refund: i64) {
    let mut ctx: Context<(), EmptyDB> = Context::new(EvmContext::new(EmptyDB::default()), ());
    if LONDON {
        refund::<LondonSpec, (), EmptyDB>(&mut ctx, g, eip7702_refund);
    } else {
        refund::<BerlinSpec, (), EmptyDB>(&mut ctx, g, eip7702_refund);
    }
    core::mem::forget(ctx);
}

/// refund: final refund = min(recorded + 7702 refund, spent / 5 (London on) | spent / 2 (before)).
#[kani::proof]
#[kani::unwind(34)]
#[kani::stub(std::hash::RandomState::new, stub_random_state)]
fn c09_refund_cap() {
    let limit: u64 = kani::any();
    let spent: u64 = kani::any();
    let recorded: i64 = kani::any();
    let eip7702: i64 = kani::any();
    let london: bool = kani::any();
    kani::assume(spent <= limit && recorded >= 0 && eip7702 >= 0 && recorded < 1 << 60 && eip7702 < 1 << 60);
    let mut g = Gas::new(limit);
    assert!(g.record_cost(spent));
    g.record_refund(recorded);
    if london {
        refund_body::<true>(&mut g, eip7702);
    } else {
        refund_body::<false>(&mut g, eip7702);
    }
    let cap = spent / if london { 5 } else { 2 };
    let total = (recorded + eip7702) as u64;
    let want = if total < cap { total } else { cap };
    assert!(g.refunded() >= 0 && g.refunded() as u64 == want, "final refund is not min(recorded, spent/5 | spent/2)");
    assert!(g.spent() == spent && g.limit() == limit, "refund changed the gas used");
    assert!(g.spent_sub_refunded() == spent - want);
    kani::cover!(london && total > cap);
    kani::cover!(!london && total > cap);
    kani::cover!(total < cap);
}

/// EIP-7623 floor step as written in transact_preverified_inner: used gas after refund is at least the floor, and never above the limit
/// when the floor itself is below the limit (validation guarantees floor <= gas limit).
#[kani::proof]
fn c09_floor_step() {
    let limit: u64 = kani::any();
    let spent: u64 = kani::any();
    let refunded: i64 = kani::any();
    let floor: u64 = kani::any();
    kani::assume(spent <= limit && refunded >= 0 && (refunded as u64) <= spent / 2 && floor <= limit);
    let mut g = Gas::new(limit);
    assert!(g.record_cost(spent));
    g.set_refund(refunded);
    let before = g.spent_sub_refunded();
    if g.spent_sub_refunded() < floor {
        g.set_spent(floor);
        g.set_refund(0);
    }
    let used = g.spent_sub_refunded();
    assert!(used == if before < floor { floor } else { before }, "gas used is not max(spent - refund, floor)");
    assert!(used <= limit, "gas used exceeds the limit after the floor step");
    kani::cover!(before < floor);
    kani::cover!(before > floor && refunded > 0);
}

#[kani::proof]
#[kani::unwind(34)]
#[kani::stub(std::hash::RandomState::new, stub_random_state)]
fn c09_twin_must_fail() {
    let limit: u64 = kani::any();
    let mut g = Gas::new(limit);
    refund_body::<true>(&mut g, 0);
    assert!(false);
}

// (Harnesses for the AMOUNTS paid by reward_beneficiary / reimburse_caller on a real Context over EmptyDB were tried: the journal's
// `load_account` goes through hashbrown's probing; CBMC was still in symbolic execution after 40 minutes. Dropped by rule 8.2; the
// price that reaches the payment and the presence of the credit are decided on MIR, lib/jobs_e3.py.)
