//! C10 — A static call cannot change state.
//! Units: the real state-changing instruction functions (SSTORE, TSTORE, LOG0..4, CREATE, CREATE2, SELFDESTRUCT, EOFCREATE,
//! CALL / EXTCALL with value) on an `Interpreter` with `is_static = true`, and the `is_static` flag of the `CallInputs`
//! built by CALL / CALLCODE / DELEGATECALL / STATICCALL.
//! The host is `NoHost` (every host call is a failure): reaching it in static mode fails the harness.
#![cfg(kani)]
use crate::c03::{any_w, new_interp, u};
use crate::util::*;
use revm_interpreter::instructions::{contract, host};
use revm_interpreter::{InstructionResult, Interpreter, InterpreterAction};
use revm_primitives::{ByzantiumSpec, IstanbulSpec, LatestSpec, PetersburgSpec, U256};

fn static_interp(gas: u64, is_eof: bool, words: &[[u64; 4]; 8]) -> Interpreter {
    let mut it = new_interp(gas);
    it.is_static = true;
    it.is_eof = is_eof;
    let mut k = 0;
    while k < 8 {
        it.stack.data_mut().push(u(words[k]));
        k += 1;
    }
    it
}

fn untouched(it: &Interpreter, gas: u64) {
    assert!(matches!(it.next_action, InterpreterAction::None), "a state-changing opcode scheduled an action in static mode");
    assert!(it.gas.remaining() == gas, "gas was charged before the static-mode rejection");
}

macro_rules! static_reject {
    ($name:ident, $f:expr, $eof:expr) => {
        #[kani::proof]
        #[kani::unwind(34)]
        fn $name() {
            let words: [[u64; 4]; 8] = kani::any();
            let gas: u64 = kani::any();
            let mut it = static_interp(gas, $eof, &words);
            let mut h = NoHost;
            $f(&mut it, &mut h);
            assert!(it.instruction_result == InstructionResult::StateChangeDuringStaticCall, "state-changing opcode did not fail in static mode");
            assert!(it.stack.len() == 8, "operands were consumed before the static-mode rejection");
            untouched(&it, gas);
            kani::cover!(gas > 100_000);
            core::mem::forget(it);
        }
    };
}

static_reject!(c10_sstore, host::sstore::<NoHost, LatestSpec>, false);
static_reject!(c10_tstore, host::tstore::<NoHost, LatestSpec>, false);
static_reject!(c10_log0, host::log::<0, NoHost>, false);
static_reject!(c10_log2, host::log::<2, NoHost>, false);
static_reject!(c10_log4, host::log::<4, NoHost>, false);
static_reject!(c10_create, contract::create::<false, NoHost, LatestSpec>, false);
static_reject!(c10_create2, contract::create::<true, NoHost, LatestSpec>, false);
static_reject!(c10_selfdestruct, host::selfdestruct::<NoHost, LatestSpec>, false);
static_reject!(c10_eofcreate, contract::eofcreate::<NoHost>, true);
// static mode exists since Byzantium: the guard must not hide behind a later fork's gate
static_reject!(c10_sstore_byzantium, host::sstore::<NoHost, ByzantiumSpec>, false);
static_reject!(c10_sstore_petersburg, host::sstore::<NoHost, PetersburgSpec>, false);
static_reject!(c10_sstore_istanbul, host::sstore::<NoHost, IstanbulSpec>, false);
static_reject!(c10_create_byzantium, contract::create::<false, NoHost, ByzantiumSpec>, false);
static_reject!(c10_create2_petersburg, contract::create::<true, NoHost, PetersburgSpec>, false);
static_reject!(c10_selfdestruct_byzantium, host::selfdestruct::<NoHost, ByzantiumSpec>, false);

/// CALL with a non-zero value inside a static frame: CallNotAllowedInsideStatic, host never reached.
#[kani::proof]
#[kani::unwind(34)]
fn c10_call_with_value() {
    let value = any_w();
    let to_low: u64 = 0x1234;
    let gas: u64 = kani::any();
    kani::assume((value[0] | value[1] | value[2] | value[3]) != 0);
    // stack top-down for CALL: gas, to, value, in_off, in_len, out_off, out_len  (index 7 is the top);
    // only the value is symbolic (target, requested gas and memory ranges play no role before the rejection; a symbolic
    // target alone costs 14 GB in ruint's 256->160-bit conversion)
    let words: [[u64; 4]; 8] = [[0; 4], [0; 4], [0; 4], [0; 4], [0; 4], value, [to_low, 0, 0, 0], [0; 4]];
    let mut it = static_interp(gas, false, &words);
    let mut h = NoHost;
    contract::call::<NoHost, LatestSpec>(&mut it, &mut h);
    assert!(it.instruction_result == InstructionResult::CallNotAllowedInsideStatic, "value-bearing CALL was not rejected in static mode");
    untouched(&it, gas);
    kani::cover!(value[3] != 0);
    core::mem::forget(it);
}

/// EXTCALL with a non-zero value inside a static EOF frame.
#[kani::proof]
#[kani::unwind(34)]
fn c10_extcall_with_value() {
    let target_low: u64 = kani::any();
    let value = any_w();
    let gas: u64 = kani::any();
    kani::assume((value[0] | value[1] | value[2] | value[3]) != 0);
    // EXTCALL pops: target_address, input_offset, input_size, value (index 7 is the top)
    let words: [[u64; 4]; 8] = [[0; 4], [0; 4], [0; 4], [0; 4], value, [0; 4], [0; 4], [target_low, 0, 0, 0]];
    let mut it = static_interp(gas, true, &words);
    let mut h = NoHost;
    contract::extcall::<NoHost, LatestSpec>(&mut it, &mut h);
    assert!(it.instruction_result == InstructionResult::CallNotAllowedInsideStatic, "value-bearing EXTCALL was not rejected in static mode");
    untouched(&it, gas);
    kani::cover!(target_low != 0);
    core::mem::forget(it);
}

// (flag propagation into child frames is decided on the MIR of the call opcodes, lib/jobs_e3.py run_static_flag:
// the Kani harnesses over call()/static_call() did not close in 250 s even with concrete operands)

#[kani::proof]
#[kani::unwind(34)]
fn c10_twin_must_fail() {
    let words: [[u64; 4]; 8] = kani::any();
    let gas: u64 = kani::any();
    let mut it = static_interp(gas, false, &words);
    let mut h = NoHost;
    host::sstore::<NoHost, LatestSpec>(&mut it, &mut h);
    assert!(false);
}
