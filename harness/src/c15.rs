//! C15 — the status machine of the block-state database (crates/revm/src/db/states/account_status.rs).
//! `State::storage` answers zero without asking the database exactly when `is_storage_known()`; the bundle wipes database storage exactly for
//! accounts that `was_destroyed()`. The transition functions therefore have to keep three facts about an account sound:
//!   K = "every slot absent from the cache is zero" (is_storage_known), D = "the database's storage of this account is stale" (was_destroyed),
//!   M = "the account differs from the database" (!is_not_modified).
//! Each harness runs one transition function on every status (and flag) and asserts what the operation it stands for does to K, D and M.
#![cfg(kani)]
use revm::db::AccountStatus;
use revm::db::AccountStatus::*;

fn any_status() -> AccountStatus {
    let i: u8 = kani::any();
    kani::assume(i < 8);
    match i {
        0 => LoadedNotExisting,
        1 => Loaded,
        2 => LoadedEmptyEIP161,
        3 => InMemoryChange,
        4 => Changed,
        5 => Destroyed,
        6 => DestroyedChanged,
        _ => DestroyedAgain,
    }
}
fn k(s: AccountStatus) -> bool {
    s.is_storage_known()
}
fn d(s: AccountStatus) -> bool {
    s.was_destroyed()
}
fn m(s: AccountStatus) -> bool {
    !s.is_not_modified()
}

/// The three predicates themselves, against the meaning of each status (storage known: never had an account, built in memory, or destroyed).
#[kani::proof]
fn c15_status_predicates() {
    let s = any_status();
    let known = matches!(s, LoadedNotExisting | InMemoryChange | Destroyed | DestroyedChanged | DestroyedAgain);
    let destroyed = matches!(s, Destroyed | DestroyedChanged | DestroyedAgain);
    let modified = !matches!(s, LoadedNotExisting | Loaded | LoadedEmptyEIP161);
    assert!(k(s) == known, "is_storage_known differs from the meaning of the status");
    assert!(d(s) == destroyed, "was_destroyed differs from the meaning of the status");
    assert!(m(s) == modified, "is_not_modified differs from the meaning of the status");
    assert!(!d(s) || k(s), "a destroyed account's storage is always known");
    assert!(s.is_modified_and_not_destroyed() == (modified && !destroyed), "is_modified_and_not_destroyed differs from its definition");
    kani::cover!(known && !destroyed, "known but not destroyed reachable");
}

/// SELFDESTRUCT: the account and its storage are gone.
#[kani::proof]
fn c15_on_selfdestructed() {
    let s = any_status();
    let r = s.on_selfdestructed();
    assert!(k(r), "after a self-destruct every slot reads zero: storage must be known");
    if s == LoadedNotExisting {
        assert!(r == LoadedNotExisting, "destroying an account that never existed changes nothing");
    } else {
        assert!(d(r) && m(r), "a destroyed account must be remembered as destroyed");
    }
    kani::cover!(s == Loaded, "loaded account reachable");
    kani::cover!(d(s), "already destroyed account reachable");
}

/// Creation: a fresh contract whose storage is exactly what the constructor wrote.
#[kani::proof]
fn c15_on_created() {
    let s = any_status();
    let r = s.on_created();
    assert!(k(r), "a newly created account has no slots besides the cached ones: storage must be known");
    assert!(m(r), "a newly created account differs from the database");
    assert!(d(r) == d(s), "creation neither forgets nor invents an earlier destruction");
    kani::cover!(d(s), "re-creation after destruction reachable");
    kani::cover!(!d(s), "first creation reachable");
}

/// Plain change (balance, nonce, storage writes).
#[kani::proof]
fn c15_on_changed() {
    let s = any_status();
    let had_no_nonce_and_code: bool = kani::any();
    // an empty account has neither nonce nor code; an absent one has no previous info (flag false)
    kani::assume(s != LoadedEmptyEIP161 || had_no_nonce_and_code);
    let r = s.on_changed(had_no_nonce_and_code);
    assert!(m(r), "a changed account differs from the database");
    assert!(d(r) == d(s), "a change neither forgets nor invents a destruction");
    assert!(!k(s) || k(r), "a change cannot make known storage unknown");
    assert!(k(s) || had_no_nonce_and_code || !k(r), "a contract whose storage lives in the database must keep reading it after a change");
    kani::cover!(s == Loaded && !had_no_nonce_and_code, "loaded contract reachable");
    kani::cover!(s == Loaded && had_no_nonce_and_code, "loaded plain account reachable");
}

/// Touch of an empty account once state clearing is active: the account is removed.
#[kani::proof]
fn c15_on_touched_empty_post_eip161() {
    let s = any_status();
    kani::assume(s != Loaded && s != Changed); // documented: unreachable for non-empty accounts (panics)
    let r = s.on_touched_empty_post_eip161();
    assert!(k(r), "a removed account reads zero everywhere");
    if s == LoadedNotExisting {
        assert!(r == LoadedNotExisting, "touching an account that never existed changes nothing");
    } else {
        assert!(d(r) && m(r), "a removed account must be remembered as destroyed");
    }
    kani::cover!(s == LoadedEmptyEIP161, "empty account loaded from the database reachable");
}

/// Touch / creation of an empty account before state clearing: the account is kept as an existing empty account.
#[kani::proof]
fn c15_on_touched_created_pre_eip161() {
    let s = any_status();
    let had_no_info: bool = kani::any();
    kani::assume(s != Loaded && s != Changed); // documented: unreachable for non-empty accounts (panics)
    match s.on_touched_created_pre_eip161(had_no_info) {
        None => {
            // "nothing changes" is only right if the account already is an existing empty account
            assert!(s == LoadedEmptyEIP161 || (s == DestroyedChanged && had_no_info), "no-change answer for an account that is not already an empty existing one");
        }
        Some(r) => {
            assert!(k(r) && m(r), "an account kept as empty-existing is built in memory: storage known, differs from the database");
            assert!(d(r) == d(s), "neither forgets nor invents a destruction");
        }
    }
    kani::cover!(s == LoadedNotExisting, "absent account reachable");
    kani::cover!(s == DestroyedChanged && had_no_info, "recreated empty account reachable");
}

/// Vacuity twin.
#[kani::proof]
fn c15_twin_must_fail() {
    let s = any_status();
    let _ = s.on_created();
    assert!(false);
}
