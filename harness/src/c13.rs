//! C13 — The gas meter never goes negative and failed charges change nothing.
//! Unit: revm_interpreter::Gas (crates/interpreter/src/gas.rs). No bounds on values:
//! every u64 limit/cost and every i64 refund is covered; sequences are bounded to 4 steps.
#![cfg(kani)]
use revm_interpreter::Gas;

/// Arbitrary meter state reachable through the public API:
/// limit any u64, remaining any value <= limit, refunded any i64.
pub fn any_gas() -> Gas {
    let limit: u64 = kani::any();
    let spent: u64 = kani::any();
    kani::assume(spent <= limit);
    let mut g = Gas::new(limit);
    let ok = g.record_cost(spent);
    kani::assume(ok); // implied by spent <= limit; kept so a broken record_cost cannot hide states
    let r: i64 = kani::any();
    g.set_refund(r);
    g
}

/// Arbitrary state built without going through `record_cost` (via `set_spent`), so that a
/// defect in `record_cost` itself cannot narrow the explored pre-states.
pub fn any_gas_via_set_spent() -> Gas {
    let limit: u64 = kani::any();
    let spent: u64 = kani::any();
    let mut g = Gas::new(limit);
    g.set_spent(spent);
    let r: i64 = kani::any();
    g.set_refund(r);
    g
}

fn same(a: &Gas, b: &Gas) -> bool {
    a.limit() == b.limit() && a.remaining() == b.remaining() && a.refunded() == b.refunded()
}

#[kani::proof]
fn c13_new() {
    let limit: u64 = kani::any();
    let g = Gas::new(limit);
    assert!(g.limit() == limit && g.remaining() == limit && g.spent() == 0 && g.refunded() == 0);
    let s = Gas::new_spent(limit);
    assert!(s.limit() == limit && s.remaining() == 0 && s.spent() == limit && s.refunded() == 0);
    kani::cover!(limit == u64::MAX);
}

#[kani::proof]
fn c13_record_cost() {
    let mut g = if kani::any() { any_gas() } else { any_gas_via_set_spent() };
    let pre = g;
    let cost: u64 = kani::any();
    let ok = g.record_cost(cost);
    // fails exactly when the charge exceeds what is left
    assert!(ok == (cost <= pre.remaining()));
    if ok {
        assert!(g.remaining() == pre.remaining() - cost);
        assert!(g.limit() == pre.limit());
        assert!(g.refunded() == pre.refunded());
        assert!(g.spent() as u128 == pre.spent() as u128 + cost as u128);
    } else {
        assert!(same(&g, &pre));
    }
    assert!(g.remaining() <= g.limit());
    kani::cover!(!ok);
    kani::cover!(ok && cost > 0);
    kani::cover!(ok && cost == pre.remaining() && cost > 0); // exact-boundary charge
    kani::cover!(!ok && cost == pre.remaining().wrapping_add(1)); // one above the boundary
}

#[kani::proof]
fn c13_erase_cost() {
    let mut g = any_gas();
    let pre = g;
    let returned: u64 = kani::any();
    // frame accounting precondition: only gas that was charged can be handed back
    kani::assume(returned <= pre.spent());
    g.erase_cost(returned);
    assert!(g.remaining() as u128 == pre.remaining() as u128 + returned as u128);
    assert!(g.remaining() <= g.limit());
    assert!(g.limit() == pre.limit() && g.refunded() == pre.refunded());
    assert!(g.spent() == pre.spent() - returned);
    kani::cover!(returned == pre.spent() && returned > 0);
}

#[kani::proof]
fn c13_spend_all_and_set_spent() {
    let mut g = any_gas();
    let pre = g;
    g.spend_all();
    assert!(g.remaining() == 0 && g.spent() == g.limit());
    assert!(g.limit() == pre.limit() && g.refunded() == pre.refunded());

    let mut h = pre;
    let s: u64 = kani::any();
    h.set_spent(s);
    let expect_spent = if s > pre.limit() { pre.limit() } else { s };
    assert!(h.spent() == expect_spent);
    assert!(h.remaining() == pre.limit() - expect_spent);
    assert!(h.remaining() <= h.limit());
    assert!(h.limit() == pre.limit() && h.refunded() == pre.refunded());
    kani::cover!(s > pre.limit());
    kani::cover!(s < pre.limit());
}

#[kani::proof]
fn c13_spent_identities() {
    let g = any_gas();
    assert!(g.spent() == g.limit() - g.remaining());
    assert!(g.spent() as u128 + g.remaining() as u128 == g.limit() as u128);
    let r = g.remaining_63_of_64_parts();
    assert!(r <= g.remaining());
    assert!(r == g.remaining() - g.remaining() / 64);
    if g.refunded() >= 0 {
        let rf = g.refunded() as u64;
        let expect = if rf > g.spent() { 0 } else { g.spent() - rf };
        assert!(g.spent_sub_refunded() == expect);
        kani::cover!(rf > g.spent());
        kani::cover!(rf > 0 && rf < g.spent());
    }
}

#[kani::proof]
fn c13_set_final_refund() {
    let mut g = any_gas();
    kani::assume(g.refunded() >= 0); // "refunded should always be positive at the end of transact"
    let pre = g;
    let london: bool = kani::any();
    g.set_final_refund(london);
    let q: u64 = if london { 5 } else { 2 };
    let cap = pre.spent() / q;
    let want = if (pre.refunded() as u64) < cap { pre.refunded() as u64 } else { cap };
    assert!(g.refunded() >= 0);
    assert!(g.refunded() as u64 == want);
    assert!((g.refunded() as u64) <= pre.spent() / q);
    assert!(g.limit() == pre.limit() && g.remaining() == pre.remaining());
    kani::cover!(london && (pre.refunded() as u64) > cap && cap > 0);
    kani::cover!(!london && (pre.refunded() as u64) > cap && cap > 0);
    kani::cover!((pre.refunded() as u64) < cap);
}

#[kani::proof]
fn c13_record_refund() {
    let mut g = any_gas();
    let pre = g;
    let r: i64 = kani::any();
    let sum = pre.refunded() as i128 + r as i128;
    kani::assume(sum >= i64::MIN as i128 && sum <= i64::MAX as i128); // |sum| < 2^63
    g.record_refund(r);
    assert!(g.refunded() as i128 == sum);
    assert!(g.limit() == pre.limit() && g.remaining() == pre.remaining());
    kani::cover!(r < 0);
    kani::cover!(r > 0);
}

/// Reference model over mathematical (u128/i128) integers.
#[derive(Clone, Copy)]
struct Model {
    limit: u128,
    remaining: u128,
    refunded: i128,
}

fn agrees(g: &Gas, m: &Model) -> bool {
    g.limit() as u128 == m.limit && g.remaining() as u128 == m.remaining && g.refunded() as i128 == m.refunded
}

fn step(g: &mut Gas, m: &mut Model) {
    // all symbolic inputs of the step are drawn unconditionally (keeps concrete playback aligned)
    let op: u8 = kani::any();
    let arg_u: u64 = kani::any();
    let arg_i: i64 = kani::any();
    let arg_b: bool = kani::any();
    kani::assume(op < 6);
    match op {
        0 => {
            let c: u64 = arg_u;
            let ok = g.record_cost(c);
            let mok = (c as u128) <= m.remaining;
            if mok {
                m.remaining -= c as u128;
            }
            assert!(ok == mok);
        }
        1 => {
            let r: u64 = arg_u;
            kani::assume((r as u128) <= m.limit - m.remaining);
            g.erase_cost(r);
            m.remaining += r as u128;
        }
        2 => {
            let r: i64 = arg_i;
            let s = m.refunded + r as i128;
            kani::assume(s >= i64::MIN as i128 && s <= i64::MAX as i128);
            g.record_refund(r);
            m.refunded = s;
        }
        3 => {
            g.spend_all();
            m.remaining = 0;
        }
        4 => {
            kani::assume(m.refunded >= 0);
            let london: bool = arg_b;
            g.set_final_refund(london);
            let cap = ((m.limit - m.remaining) / if london { 5 } else { 2 }) as i128;
            m.refunded = if m.refunded < cap { m.refunded } else { cap };
        }
        _ => {
            let s: u64 = arg_u;
            g.set_spent(s);
            let s = if (s as u128) > m.limit { m.limit } else { s as u128 };
            m.remaining = m.limit - s;
        }
    }
    assert!(agrees(g, m));
    assert!(g.remaining() <= g.limit());
    assert!(g.spent() as u128 == m.limit - m.remaining);
}

#[kani::proof]
fn c13_sequence_4() {
    let limit: u64 = kani::any();
    let mut g = Gas::new(limit);
    let mut m = Model { limit: limit as u128, remaining: limit as u128, refunded: 0 };
    step(&mut g, &mut m);
    step(&mut g, &mut m);
    step(&mut g, &mut m);
    step(&mut g, &mut m);
    kani::cover!(m.remaining == 0 && m.limit > 0);
    kani::cover!(m.refunded > 0);
}

/// Thorough tier: all 6-step method sequences.
#[kani::proof]
fn c13_sequence_6() {
    let limit: u64 = kani::any();
    let mut g = Gas::new(limit);
    let mut m = Model { limit: limit as u128, remaining: limit as u128, refunded: 0 };
    step(&mut g, &mut m);
    step(&mut g, &mut m);
    step(&mut g, &mut m);
    step(&mut g, &mut m);
    step(&mut g, &mut m);
    step(&mut g, &mut m);
    kani::cover!(m.remaining == 0 && m.limit > 0);
    kani::cover!(m.refunded > 0);
}

/// Vacuity twin: same pre-state construction, final `assert!(false)` must be reported FAILED.
#[kani::proof]
fn c13_twin_must_fail() {
    let mut g = any_gas();
    let cost: u64 = kani::any();
    let _ = g.record_cost(cost);
    assert!(false);
}
