//! C02 — A transaction is rejected iff the spec rejects it, and rejection has no effect.
//! Units (the real functions, called on one symbolic `Env` built field by field):
//!   revm_primitives::Env::validate_block_env::<SPEC>, Env::validate_tx::<SPEC>,
//!   Env::validate_tx_against_state::<SPEC>(&mut Account)            (crates/primitives/src/env.rs)
//!   revm::handler::mainnet::validate_initial_tx_gas::<SPEC, EmptyDB> (crates/revm/src/handler/mainnet/validation.rs)
//! Reference: one boolean per validity rule, written below from EIP-155/1559/2930/3607/3860/4844/7623/7702 and
//! the yellow-paper intrinsic gas with literal numbers and limb arithmetic (no ruint, no crate constants).
//! Asserted for every harness:  Err  <=>  at least one rule is broken, and the error returned names a rule that
//! IS broken (with the exact payload where the variant has one); the Account is bit-identical afterwards.
//!
//! Bounds (explicit): calldata length 0..=8 (contents symbolic); access list 0..=1 item x 0..=2 keys; blob hashes
//! 0..=2 with symbolic version byte; authorization list None / Some(empty) / Some(1 entry) in both the `Signed` and
//! `Recovered` representation; blob schedule of concrete shape [(CANCUN,_,m1),(PRAGUE,_,m2)] with symbolic maxima;
//! `limit_contract_code_size` None or any usize; sender code empty-raw / default-analysed(empty) / legacy 1..=3 bytes /
//! EIP-7702 designation; every scalar (u64, u128, U256) unconstrained. unwind 10 (longest loop: 8 calldata bytes).
//! Build features: none of the `optional_*` features (balance / base-fee / block-gas-limit / eip3607 switches are off).
//!
//! Stubs (state harnesses only): ruint `Uint::checked_mul` / `Uint::saturating_mul` (kernels do not unwind) return the
//! exact product computed once by the harness and assert the operands are the prescribed ones; `RandomState::new`
//! (getrandom/futex) returns fixed keys for the sender's empty storage map. ruint add / compare run for real.
//!
//! Domain splits (no assertion is weakened; the complement domains have their own harnesses, which FAIL on the tree
//! as received and are reported as findings in NOTES_c02.md):
//!   c02_env_*            assume  base fee + priority fee < 2^256  and  not(authorization list on a create tx)
//!   c02_env_{london,prague}_fee_sum_wraps : the first complement  (validate_tx wraps the U256 sum -> spurious
//!                        GasPriceLessThanBasefee for a transaction whose max fee >= base fee)
//!   c02_env_prague_setcode_create         : the second complement (EIP-7702 nil destination is accepted)
//!   c02_state_*          assume  not(Cancun+ and max_fee_per_blob_gas x blob gas >= 2^256)
//!   c02_state_cancun_blob_fee_wraps       : its complement (saturating product: wrong error class, or accepted
//!                        when the balance is 2^256-1)
#![cfg(kani)]
use crate::util::*;
use revm::db::EmptyDB;
use revm::handler::mainnet::validate_initial_tx_gas;
use revm_primitives::{
    AccessListItem, Account, AccountInfo, AccountStatus, Address, Authorization, AuthorizationList, BlobExcessGasAndPrice,
    BlockEnv, Bytecode, Bytes, CfgEnv, EVMError, Eip7702Bytecode, Env, InvalidHeader, InvalidTransaction,
    RecoveredAuthority, RecoveredAuthorization, SignedAuthorization, Spec, SpecId, TxEnv, TxKind, B256, U256,
};

// fork ordinals written out (mainnet build, no optimism feature)
const HOMESTEAD: u8 = 2;
const ISTANBUL: u8 = 9;
const BERLIN: u8 = 11;
const LONDON: u8 = 12;
const MERGE: u8 = 15;
const SHANGHAI: u8 = 16;
const CANCUN: u8 = 17;
const PRAGUE: u8 = 18;

// ------------------------------------------------------------------ limb arithmetic of the reference (no ruint)
type W = [u64; 4];

fn w_lt(a: W, b: W) -> bool {
    if a[3] != b[3] {
        a[3] < b[3]
    } else if a[2] != b[2] {
        a[2] < b[2]
    } else if a[1] != b[1] {
        a[1] < b[1]
    } else {
        a[0] < b[0]
    }
}
fn w_eq(a: W, b: W) -> bool {
    (a[0] == b[0]) & (a[1] == b[1]) & (a[2] == b[2]) & (a[3] == b[3])
}
/// a + b, and whether the true sum is >= 2^256
fn w_add(a: W, b: W) -> (W, bool) {
    let mut o = [0u64; 4];
    let mut c = 0u128;
    let mut i = 0;
    while i < 4 {
        let s = a[i] as u128 + b[i] as u128 + c;
        o[i] = s as u64;
        c = s >> 64;
        i += 1;
    }
    (o, c != 0)
}
/// a * m (schoolbook, one 64x64->128 product per limb), and whether the true product is >= 2^256
fn w_mul64(a: W, m: u64) -> (W, bool) {
    let mut o = [0u64; 4];
    let mut c = 0u128;
    let mut i = 0;
    while i < 4 {
        let p = a[i] as u128 * m as u128 + c;
        o[i] = p as u64;
        c = p >> 64;
        i += 1;
    }
    (o, c != 0)
}
/// the 32 bytes as four words, without a 32-step loop or memcmp
fn words(b: &[u8; 32]) -> W {
    let mut o = [0u64; 4];
    let mut k = 0;
    while k < 4 {
        let j = 8 * k;
        o[k] = u64::from_le_bytes([b[j], b[j + 1], b[j + 2], b[j + 3], b[j + 4], b[j + 5], b[j + 6], b[j + 7]]);
        k += 1;
    }
    o
}
fn w64(x: u64) -> W {
    [x, 0, 0, 0]
}
fn w128(x: u128) -> W {
    [x as u64, (x >> 64) as u64, 0, 0]
}

// ------------------------------------------------------------------ stubs (ruint's multiply kernels do not unwind in CBMC)
// The two 256-bit products of the balance rule (gas_limit x gas_price, max_fee_per_blob_gas x blob gas) are computed
// ONCE by the harness with the exact schoolbook product `w_mul64` and handed to the code through these stand-ins, so
// that code and reference work on the same product bits ("compare structure, not two multipliers"; ruint's multiply is
// trusted). Each stand-in ASSERTS that the code multiplies exactly the operands the rule prescribes, in either order.
static mut CM_A: W = [0; 4]; // checked_mul: expected operands, product mod 2^256, overflow flag
static mut CM_B: W = [0; 4];
static mut CM_P: W = [0; 4];
static mut CM_O: bool = false;
static mut SM_A: W = [0; 4]; // saturating_mul: the same
static mut SM_B: W = [0; 4];
static mut SM_P: W = [0; 4];
static mut SM_O: bool = false;

fn same_limbs<const LIMBS: usize>(x: &[u64; LIMBS], e: W) -> bool {
    let mut ok = LIMBS == 4;
    let mut i = 0;
    while i < LIMBS && i < 4 {
        ok &= x[i] == e[i];
        i += 1;
    }
    ok
}
fn to_uint<const BITS: usize, const LIMBS: usize>(p: W) -> revm_primitives::ruint::Uint<BITS, LIMBS> {
    let mut out = [0u64; LIMBS];
    let mut i = 0;
    while i < LIMBS && i < 4 {
        out[i] = p[i];
        i += 1;
    }
    revm_primitives::ruint::Uint::from_limbs(out)
}
/// stand-in for `ruint::Uint::checked_mul`
pub fn stub_checked_mul<const BITS: usize, const LIMBS: usize>(
    a: revm_primitives::ruint::Uint<BITS, LIMBS>,
    b: revm_primitives::ruint::Uint<BITS, LIMBS>,
) -> Option<revm_primitives::ruint::Uint<BITS, LIMBS>> {
    let (x, y) = (a.as_limbs(), b.as_limbs());
    unsafe {
        let gas = (same_limbs(x, CM_A) && same_limbs(y, CM_B)) || (same_limbs(x, CM_B) && same_limbs(y, CM_A));
        // the blob-fee product may be taken with checked_mul as well as with saturating_mul
        let blob = (same_limbs(x, SM_A) && same_limbs(y, SM_B)) || (same_limbs(x, SM_B) && same_limbs(y, SM_A));
        assert!(gas || blob, "stub domain: checked_mul called on operands other than (gas_limit, gas_price) or (max_fee_per_blob_gas, total blob gas)");
        if gas {
            if CM_O { None } else { Some(to_uint(CM_P)) }
        } else if SM_O {
            None
        } else {
            Some(to_uint(SM_P))
        }
    }
}
/// stand-in for `ruint::Uint::saturating_mul`
pub fn stub_saturating_mul<const BITS: usize, const LIMBS: usize>(
    a: revm_primitives::ruint::Uint<BITS, LIMBS>,
    b: revm_primitives::ruint::Uint<BITS, LIMBS>,
) -> revm_primitives::ruint::Uint<BITS, LIMBS> {
    let (x, y) = (a.as_limbs(), b.as_limbs());
    unsafe {
        assert!(
            (same_limbs(x, SM_A) && same_limbs(y, SM_B)) || (same_limbs(x, SM_B) && same_limbs(y, SM_A)),
            "stub domain: saturating_mul called on operands other than max_fee_per_blob_gas and the total blob gas"
        );
        if SM_O {
            revm_primitives::ruint::Uint::MAX
        } else {
            to_uint(SM_P)
        }
    }
}

/// stand-in for `std::hash::RandomState::new` (reads OS randomness through getrandom/futex, which Kani cannot model).
/// The only map built here is the sender's EMPTY storage map, which is never hashed into; the keys are irrelevant.
pub fn stub_random_state() -> std::hash::RandomState {
    // RandomState is two u64 SipHash keys
    unsafe { core::mem::transmute::<[u64; 2], std::hash::RandomState>([0, 0]) }
}

// ------------------------------------------------------------------ symbolic inputs (all drawn unconditionally, in one place)
pub struct In {
    // cfg
    cfg_chain_id: u64,
    limit_some: bool,
    limit: usize,
    max_blobs_cancun: u8,
    max_blobs_prague: u8,
    // block
    block_gas_limit: W,
    basefee: W,
    prevrandao_some: bool,
    blob_env_some: bool,
    blob_gasprice: u128,
    excess_blob_gas: u64,
    // tx
    gas_limit: u64,
    gas_price: W,
    create: bool,
    value: W,
    data: [u8; 8],
    data_len: usize,
    nonce_some: bool,
    nonce: u64,
    chain_some: bool,
    chain_id: u64,
    al_items: usize,
    al_keys: usize,
    prio_some: bool,
    prio: W,
    n_blobs: usize,
    blob_ver: [u8; 2],
    blob_fee_some: bool,
    blob_fee: W,
    auth_kind: u8, // 0 None, 1 Some(Recovered []), 2 Some(Signed []), 3 Some(Recovered [1]), 4 Some(Signed [1])
    // sender
    balance: W,
    acc_nonce: u64,
    code_kind: u8, // 0 LegacyRaw(empty), 1 default LegacyAnalyzed (empty), 2 LegacyRaw(1..=3 bytes), 3 Eip7702
    code_len: usize,
    code_bytes: [u8; 3],
    status: u8,
}

pub fn any_in() -> In {
    let i = In {
        cfg_chain_id: kani::any(),
        limit_some: kani::any(),
        limit: kani::any(),
        max_blobs_cancun: kani::any(),
        max_blobs_prague: kani::any(),
        block_gas_limit: kani::any(),
        basefee: kani::any(),
        prevrandao_some: kani::any(),
        blob_env_some: kani::any(),
        blob_gasprice: kani::any(),
        excess_blob_gas: kani::any(),
        gas_limit: kani::any(),
        gas_price: kani::any(),
        create: kani::any(),
        value: kani::any(),
        data: kani::any(),
        data_len: kani::any(),
        nonce_some: kani::any(),
        nonce: kani::any(),
        chain_some: kani::any(),
        chain_id: kani::any(),
        al_items: kani::any(),
        al_keys: kani::any(),
        prio_some: kani::any(),
        prio: kani::any(),
        n_blobs: kani::any(),
        blob_ver: kani::any(),
        blob_fee_some: kani::any(),
        blob_fee: kani::any(),
        auth_kind: kani::any(),
        balance: kani::any(),
        acc_nonce: kani::any(),
        code_kind: kani::any(),
        code_len: kani::any(),
        code_bytes: kani::any(),
        status: kani::any(),
    };
    kani::assume(i.data_len <= 8);
    kani::assume(i.al_items <= 1 && i.al_keys <= 2);
    kani::assume(i.n_blobs <= 2);
    kani::assume(i.auth_kind <= 4);
    kani::assume(i.code_kind <= 3);
    kani::assume(1 <= i.code_len && i.code_len <= 3);
    i
}

fn u(x: W) -> U256 {
    U256::from_limbs(x)
}

const CODE_HASH: [u8; 32] = [
    0xa1, 2, 3, 4, 5, 6, 7, 8, 9, 10, 11, 12, 13, 14, 15, 16, 17, 18, 19, 20, 21, 22, 23, 24, 25, 26, 27, 28, 29, 30, 31, 0x5e,
];
static DELEGATION: [u8; 23] = [0xef, 0x01, 0x00, 1, 2, 3, 4, 5, 6, 7, 8, 9, 10, 11, 12, 13, 14, 15, 16, 17, 18, 19, 20];

fn one_authorization() -> Authorization {
    Authorization { chain_id: U256::ZERO, address: Address::ZERO, nonce: 0 }
}

/// The real `Env`, every field of `CfgEnv` / `BlockEnv` / `TxEnv` set explicitly.
pub fn build_env(i: &In) -> Env {
    let mut cfg = CfgEnv::default(); // #[non_exhaustive]: cannot be built by literal; every field is overwritten
    cfg.chain_id = i.cfg_chain_id;
    cfg.limit_contract_code_size = if i.limit_some { Some(i.limit) } else { None };
    let mut sched = Vec::with_capacity(2);
    sched.push((SpecId::CANCUN, 0u8, i.max_blobs_cancun));
    sched.push((SpecId::PRAGUE, 0u8, i.max_blobs_prague));
    cfg.blob_target_and_max_count = sched;

    let block = BlockEnv {
        number: U256::ZERO,
        coinbase: Address::ZERO,
        timestamp: U256::ZERO,
        gas_limit: u(i.block_gas_limit),
        basefee: u(i.basefee),
        difficulty: U256::ZERO,
        prevrandao: if i.prevrandao_some { Some(B256::ZERO) } else { None },
        blob_excess_gas_and_price: if i.blob_env_some {
            Some(BlobExcessGasAndPrice { excess_blob_gas: i.excess_blob_gas, blob_gasprice: i.blob_gasprice })
        } else {
            None
        },
    };

    // calldata: a leaked 8-byte symbolic array viewed at a symbolic length (no copy)
    let data: &'static [u8; 8] = Box::leak(Box::new(i.data));
    let mut access_list = Vec::with_capacity(1);
    if i.al_items >= 1 {
        let mut keys = Vec::with_capacity(2);
        if i.al_keys >= 1 {
            keys.push(B256::ZERO);
        }
        if i.al_keys >= 2 {
            keys.push(B256::ZERO);
        }
        access_list.push(AccessListItem { address: Address::ZERO, storage_keys: keys });
    }
    let mut blob_hashes = Vec::with_capacity(2);
    if i.n_blobs >= 1 {
        let mut h = [0u8; 32];
        h[0] = i.blob_ver[0];
        blob_hashes.push(B256::new(h));
    }
    if i.n_blobs >= 2 {
        let mut h = [0u8; 32];
        h[0] = i.blob_ver[1];
        blob_hashes.push(B256::new(h));
    }
    let authorization_list = match i.auth_kind {
        0 => None,
        1 => Some(AuthorizationList::Recovered(Vec::new())),
        2 => Some(AuthorizationList::Signed(Vec::new())),
        3 => {
            let mut v = Vec::with_capacity(1);
            v.push(RecoveredAuthorization::new_unchecked(one_authorization(), RecoveredAuthority::Invalid));
            Some(AuthorizationList::Recovered(v))
        }
        _ => {
            let mut v = Vec::with_capacity(1);
            v.push(SignedAuthorization::new_unchecked(one_authorization(), 0, U256::ZERO, U256::ZERO));
            Some(AuthorizationList::Signed(v))
        }
    };
    let tx = TxEnv {
        caller: Address::ZERO,
        gas_limit: i.gas_limit,
        gas_price: u(i.gas_price),
        transact_to: if i.create { TxKind::Create } else { TxKind::Call(Address::ZERO) },
        value: u(i.value),
        data: Bytes::from_static(&data[..i.data_len]),
        nonce: if i.nonce_some { Some(i.nonce) } else { None },
        chain_id: if i.chain_some { Some(i.chain_id) } else { None },
        access_list,
        gas_priority_fee: if i.prio_some { Some(u(i.prio)) } else { None },
        blob_hashes,
        max_fee_per_blob_gas: if i.blob_fee_some { Some(u(i.blob_fee)) } else { None },
        authorization_list,
    };
    Env { cfg, block, tx }
}

/// The sender account: symbolic balance / nonce / status flags, code of one of four kinds, empty storage.
pub fn build_account(i: &In) -> Account {
    let code = match i.code_kind {
        0 => Bytecode::LegacyRaw(Bytes::new()),
        1 => Bytecode::default(),
        2 => {
            let b: &'static [u8; 3] = Box::leak(Box::new(i.code_bytes));
            Bytecode::LegacyRaw(Bytes::from_static(&b[..i.code_len]))
        }
        _ => Bytecode::Eip7702(Eip7702Bytecode {
            delegated_address: Address::ZERO,
            version: 0,
            raw: Bytes::from_static(&DELEGATION),
        }),
    };
    Account {
        info: AccountInfo { balance: u(i.balance), nonce: i.acc_nonce, code_hash: B256::new(CODE_HASH), code: Some(code) },
        storage: Default::default(),
        status: AccountStatus::from_bits_retain(i.status),
    }
}

// ------------------------------------------------------------------ reference rules
fn has_auth(i: &In) -> bool {
    i.auth_kind != 0
}
fn auth_len(i: &In) -> u64 {
    if i.auth_kind >= 3 {
        1
    } else {
        0
    }
}

/// Header rules: EIP-4399 (prevrandao from the Merge), EIP-4844 (excess blob gas from Cancun).
struct BlockRules {
    prevrandao_missing: bool,
    excess_blob_gas_missing: bool,
}
fn ref_block(s: u8, i: &In) -> BlockRules {
    BlockRules { prevrandao_missing: s >= MERGE && !i.prevrandao_some, excess_blob_gas_missing: s >= CANCUN && !i.blob_env_some }
}

/// Stateless transaction rules. A field is `true` when that rule is BROKEN.
struct TxRules {
    chain_id: bool,        // EIP-155
    gas_over_block: bool,  // tx gas limit above block gas limit
    access_list: bool,     // EIP-2930 list before Berlin
    prio_gt_max: bool,     // EIP-1559 max_priority_fee_per_gas > max_fee_per_gas
    below_basefee: bool,   // EIP-1559 max_fee_per_gas (or legacy gas price) < base fee
    initcode: bool,        // EIP-3860
    blob_fields: bool,     // EIP-4844 fields before Cancun / blob hashes on a non-blob transaction
    blob_price: bool,      // EIP-4844 max_fee_per_blob_gas < blob base fee
    blob_empty: bool,      // EIP-4844 zero blobs
    blob_create: bool,     // EIP-4844 `to` must not be nil
    blob_version: bool,    // EIP-4844 versioned hash version byte
    blob_count: bool,      // EIP-4844 / EIP-7840 too many blobs
    auth_fields: bool,     // EIP-7702 list before Prague
    auth_empty: bool,      // EIP-7702 empty list
    auth_with_blob: bool,  // one transaction cannot be both a blob and a set-code transaction
    auth_create: bool,     // EIP-7702 `destination` must not be nil
}
impl TxRules {
    fn any(&self) -> bool {
        self.chain_id
            | self.gas_over_block
            | self.access_list
            | self.prio_gt_max
            | self.below_basefee
            | self.initcode
            | self.blob_fields
            | self.blob_price
            | self.blob_empty
            | self.blob_create
            | self.blob_version
            | self.blob_count
            | self.auth_fields
            | self.auth_empty
            | self.auth_with_blob
            | self.auth_create
    }
}
fn ref_tx(s: u8, i: &In) -> TxRules {
    let blob_tx = s >= CANCUN && i.blob_fee_some;
    let max_blobs = if s >= PRAGUE { i.max_blobs_prague } else { i.max_blobs_cancun } as usize;
    let max_initcode: usize = if i.limit_some {
        if i.limit > usize::MAX / 2 { usize::MAX } else { 2 * i.limit }
    } else {
        49152
    };
    let bad_version = (i.n_blobs >= 1 && i.blob_ver[0] != 0x01) || (i.n_blobs >= 2 && i.blob_ver[1] != 0x01);
    TxRules {
        chain_id: i.chain_some && i.chain_id != i.cfg_chain_id,
        gas_over_block: w_lt(i.block_gas_limit, w64(i.gas_limit)),
        access_list: s < BERLIN && i.al_items > 0,
        prio_gt_max: s >= LONDON && i.prio_some && w_lt(i.gas_price, i.prio),
        below_basefee: s >= LONDON && w_lt(i.gas_price, i.basefee),
        initcode: s >= SHANGHAI && i.create && i.data_len > max_initcode,
        blob_fields: if s < CANCUN { i.blob_fee_some || i.n_blobs > 0 } else { !i.blob_fee_some && i.n_blobs > 0 },
        blob_price: blob_tx && w_lt(i.blob_fee, w128(i.blob_gasprice)),
        blob_empty: blob_tx && i.n_blobs == 0,
        blob_create: blob_tx && i.create,
        blob_version: blob_tx && bad_version,
        blob_count: blob_tx && i.n_blobs > max_blobs,
        auth_fields: s < PRAGUE && has_auth(i),
        auth_empty: s >= PRAGUE && has_auth(i) && auth_len(i) == 0,
        auth_with_blob: s >= PRAGUE && has_auth(i) && (i.blob_fee_some || i.n_blobs > 0),
        auth_create: s >= PRAGUE && has_auth(i) && i.create,
    }
}

/// Rules against the sender's state.
struct StateRules {
    sender_has_code: bool, // EIP-3607 (EIP-7702: a delegation designation is not "code" for this rule)
    nonce_high: bool,
    nonce_low: bool,
    cost_overflow: bool, // gas_limit*max_fee + value (+ blob_gas*max_fee_per_blob_gas from Cancun) >= 2^256
    cost: W,             // that sum when it fits
    lack_of_funds: bool, // the sum fits and exceeds the balance
    blob_fee_wraps: bool, // Cancun+: max_fee_per_blob_gas x total blob gas alone is >= 2^256 (domain split of body_state)
}
fn ref_state(s: u8, i: &In) -> StateRules {
    let (gas_cost, o1) = w_mul64(i.gas_price, i.gas_limit);
    // GAS_PER_BLOB = 2^17
    let blob_gas = 131072 * i.n_blobs as u64;
    let (blob_cost, o3) = w_mul64(i.blob_fee, blob_gas);
    unsafe {
        CM_A = w64(i.gas_limit);
        CM_B = i.gas_price;
        CM_P = gas_cost;
        CM_O = o1;
        SM_A = i.blob_fee;
        SM_B = w64(blob_gas);
        SM_P = blob_cost;
        SM_O = o3;
    }
    let (c1, o2) = w_add(gas_cost, i.value);
    let mut cost = c1;
    let mut overflow = o1 | o2;
    if s >= CANCUN && i.blob_fee_some {
        let (c2, o4) = w_add(c1, blob_cost);
        cost = c2;
        overflow = overflow | o3 | o4;
    }
    StateRules {
        sender_has_code: i.code_kind == 2,
        nonce_high: i.nonce_some && i.nonce > i.acc_nonce,
        nonce_low: i.nonce_some && i.nonce < i.acc_nonce,
        cost_overflow: overflow,
        cost,
        lack_of_funds: !overflow && w_lt(i.balance, cost),
        blob_fee_wraps: s >= CANCUN && i.blob_fee_some && o3,
    }
}

/// Intrinsic gas (yellow paper G_transaction / G_txcreate (EIP-2) / calldata (EIP-2028) / EIP-2930 / EIP-3860 /
/// EIP-7702) and the EIP-7623 floor.
fn ref_gas(s: u8, i: &In) -> (u64, u64) {
    let mut z = 0u64;
    let mut nz = 0u64;
    let mut k = 0;
    while k < i.data_len {
        if i.data[k] == 0 {
            z += 1
        } else {
            nz += 1
        }
        k += 1;
    }
    let mut g: u64 = 21000 + 4 * z + if s >= ISTANBUL { 16 } else { 68 } * nz;
    if i.create && s >= HOMESTEAD {
        g += 32000;
    }
    if s >= BERLIN {
        let keys = if i.al_items >= 1 { i.al_keys as u64 } else { 0 };
        g += 2400 * i.al_items as u64 + 1900 * keys;
    }
    if s >= SHANGHAI && i.create {
        g += 2 * ((i.data_len as u64 + 31) / 32);
    }
    let mut floor = 0u64;
    if s >= PRAGUE {
        g += 25000 * auth_len(i);
        floor = 21000 + 10 * (z + 4 * nz);
    }
    (g, floor)
}

/// Reachability witness that only applies to some instantiations (all `kani::cover!` of a harness must be satisfiable).
macro_rules! cov {
    ($applies:expr, $cond:expr) => {
        kani::cover!(!($applies) || ($cond))
    };
}

// ------------------------------------------------------------------ harness bodies (generic over the Spec type)
/// validate_block_env then validate_tx, in the order `validate_env` runs them (validate_tx relies on the header check).
/// `dom` splits the input space (the three parts together are the whole space):
///   MAIN      : base fee + priority fee < 2^256 and not (authorization list present on a create transaction)
///   FEE_WRAPS : London+, priority fee given and base fee + priority fee >= 2^256
///   SETCODE_CREATE : Prague+, authorization list present and `transact_to` is Create (and not FEE_WRAPS)
const MAIN: u8 = 0;
const FEE_WRAPS: u8 = 1;
const SETCODE_CREATE: u8 = 2;
fn body_env<S: Spec>(s: u8, dom: u8) {
    let i = any_in();
    assert!(S::SPEC_ID as u8 == s, "spec ordinal");
    let fee_wraps = s >= LONDON && i.prio_some && w_add(i.basefee, i.prio).1;
    let setcode_create = s >= PRAGUE && has_auth(&i) && i.create;
    match dom {
        MAIN => kani::assume(!fee_wraps && !setcode_create),
        FEE_WRAPS => kani::assume(fee_wraps),
        _ => kani::assume(setcode_create && !fee_wraps),
    }
    let env = build_env(&i);

    let rb = ref_block(s, &i);
    match env.validate_block_env::<S>() {
        Ok(()) => assert!(!rb.prevrandao_missing && !rb.excess_blob_gas_missing, "header accepted although a required field is missing"),
        Err(InvalidHeader::PrevrandaoNotSet) => assert!(rb.prevrandao_missing, "PrevrandaoNotSet although not required or present"),
        Err(InvalidHeader::ExcessBlobGasNotSet) => assert!(rb.excess_blob_gas_missing, "ExcessBlobGasNotSet although not required or present"),
    }
    cov!(s >= MERGE, rb.prevrandao_missing);
    cov!(s >= CANCUN, rb.excess_blob_gas_missing);

    if !rb.prevrandao_missing && !rb.excess_blob_gas_missing {
        let r = ref_tx(s, &i);
        let got = env.validate_tx::<S>();
        assert!(got.is_err() == r.any(), "validate_tx: Err iff a stateless validity rule is broken");
        match got {
            Ok(()) => {}
            Err(InvalidTransaction::InvalidChainId) => assert!(r.chain_id, "InvalidChainId but chain ids agree or none given"),
            Err(InvalidTransaction::CallerGasLimitMoreThanBlock) => assert!(r.gas_over_block, "CallerGasLimitMoreThanBlock but gas limit <= block gas limit"),
            Err(InvalidTransaction::AccessListNotSupported) => assert!(r.access_list, "AccessListNotSupported but Berlin is active or the list is empty"),
            Err(InvalidTransaction::PriorityFeeGreaterThanMaxFee) => assert!(r.prio_gt_max, "PriorityFeeGreaterThanMaxFee but priority fee <= max fee"),
            Err(InvalidTransaction::GasPriceLessThanBasefee) => assert!(r.below_basefee, "GasPriceLessThanBasefee but max fee >= base fee"),
            Err(InvalidTransaction::CreateInitCodeSizeLimit) => assert!(r.initcode, "CreateInitCodeSizeLimit but initcode within the limit"),
            Err(InvalidTransaction::BlobVersionedHashesNotSupported) => assert!(r.blob_fields, "BlobVersionedHashesNotSupported but blob fields are legal here"),
            Err(InvalidTransaction::BlobGasPriceGreaterThanMax) => assert!(r.blob_price, "BlobGasPriceGreaterThanMax but max_fee_per_blob_gas >= blob gas price"),
            Err(InvalidTransaction::EmptyBlobs) => assert!(r.blob_empty, "EmptyBlobs but the blob list is not empty"),
            Err(InvalidTransaction::BlobCreateTransaction) => assert!(r.blob_create, "BlobCreateTransaction but not a blob create"),
            Err(InvalidTransaction::BlobVersionNotSupported) => assert!(r.blob_version, "BlobVersionNotSupported but all versions are 0x01"),
            Err(InvalidTransaction::TooManyBlobs { have }) => assert!(r.blob_count && have == i.n_blobs, "TooManyBlobs but count within the schedule (or wrong count reported)"),
            Err(InvalidTransaction::AuthorizationListNotSupported) => assert!(r.auth_fields, "AuthorizationListNotSupported but Prague is active or no list"),
            Err(InvalidTransaction::EmptyAuthorizationList) => assert!(r.auth_empty, "EmptyAuthorizationList but list absent or non-empty"),
            // the crate has no dedicated variant for the nil-destination rule of EIP-7702: AuthorizationListInvalidFields covers both
            // "blob fields on a set-code transaction" and "set-code transaction without a destination"
            Err(InvalidTransaction::AuthorizationListInvalidFields) => assert!(r.auth_with_blob || r.auth_create, "AuthorizationListInvalidFields but neither blob fields nor a nil destination"),
            Err(_) => assert!(false, "validate_tx returned an error class that is not a stateless rule"),
        }
        let m = dom == MAIN;
        cov!(m, !r.any());
        cov!(m, r.chain_id);
        cov!(m, r.gas_over_block);
        cov!(m && s < BERLIN, r.access_list);
        cov!(m && s >= LONDON, r.prio_gt_max);
        cov!(m && s >= LONDON, r.below_basefee);
        cov!(m && s >= SHANGHAI, r.initcode);
        cov!(m, r.blob_fields);
        cov!(m && s >= CANCUN, r.blob_price);
        cov!(m && s >= CANCUN, r.blob_count);
        cov!(m && s >= CANCUN, r.blob_version);
        cov!(m && s >= PRAGUE, r.auth_empty);
        cov!(m && s < PRAGUE, r.auth_fields);
        cov!(m && s >= CANCUN, !r.any() && i.n_blobs == 2);
        cov!(m && s >= PRAGUE, !r.any() && i.auth_kind >= 3);
        cov!(m && s >= LONDON, !r.any() && i.prio_some && w_eq(i.gas_price, i.basefee));
    }
    core::mem::forget(env);
}

/// `dom` splits the input space in two:
///   MAIN           : not BLOB_FEE_WRAPS
///   BLOB_FEE_WRAPS : Cancun+, max_fee_per_blob_gas given and max_fee_per_blob_gas x total blob gas >= 2^256
const BLOB_FEE_WRAPS: u8 = 1;
fn body_state<S: Spec>(s: u8, dom: u8) {
    let i = any_in();
    assert!(S::SPEC_ID as u8 == s, "spec ordinal");
    let env = build_env(&i);
    let mut acc = build_account(&i);
    let code_ptr = acc.info.code.as_ref().unwrap().original_byte_slice().as_ptr();

    let r = ref_state(s, &i);
    kani::assume(r.blob_fee_wraps == (dom == BLOB_FEE_WRAPS));
    let broken = r.sender_has_code | r.nonce_high | r.nonce_low | r.cost_overflow | r.lack_of_funds;
    let got = env.validate_tx_against_state::<S>(&mut acc);
    assert!(got.is_err() == broken, "validate_tx_against_state: Err iff a sender-state rule is broken");
    match got {
        Ok(()) => {}
        Err(InvalidTransaction::RejectCallerWithCode) => assert!(r.sender_has_code, "RejectCallerWithCode but sender has no code / a delegation"),
        Err(InvalidTransaction::NonceTooHigh { tx, state }) => assert!(r.nonce_high && tx == i.nonce && state == i.acc_nonce, "NonceTooHigh but tx nonce <= account nonce (or wrong payload)"),
        Err(InvalidTransaction::NonceTooLow { tx, state }) => assert!(r.nonce_low && tx == i.nonce && state == i.acc_nonce, "NonceTooLow but tx nonce >= account nonce (or wrong payload)"),
        Err(InvalidTransaction::OverflowPaymentInTransaction) => assert!(r.cost_overflow, "OverflowPaymentInTransaction but the maximum cost fits in 256 bits"),
        Err(InvalidTransaction::LackOfFundForMaxFee { fee, balance }) => {
            assert!(r.lack_of_funds, "LackOfFundForMaxFee but balance covers the maximum cost");
            assert!(w_eq(limbs(&fee), r.cost), "LackOfFundForMaxFee reports a fee different from the maximum cost");
            assert!(w_eq(limbs(&balance), i.balance), "LackOfFundForMaxFee reports a balance different from the sender's");
            core::mem::forget((fee, balance));
        }
        Err(_) => assert!(false, "validate_tx_against_state returned an error class that is not a sender-state rule"),
    }
    // the account is untouched, whatever the verdict
    assert!(w_eq(limbs(&acc.info.balance), i.balance), "sender balance changed by validation");
    assert!(acc.info.nonce == i.acc_nonce, "sender nonce changed by validation");
    assert!(w_eq(words(&acc.info.code_hash.0), words(&CODE_HASH)), "sender code hash changed by validation");
    assert!(acc.status.bits() == i.status, "sender status flags changed by validation");
    assert!(acc.storage.len() == 0, "sender storage changed by validation");
    let code = acc.info.code.as_ref();
    assert!(code.is_some(), "sender code dropped by validation");
    let code = code.unwrap();
    let kind_ok = match (i.code_kind, code) {
        (0, Bytecode::LegacyRaw(b)) => b.len() == 0,
        (1, Bytecode::LegacyAnalyzed(a)) => a.original_len() == 0,
        (2, Bytecode::LegacyRaw(b)) => b.len() == i.code_len && b.as_ptr() == code_ptr,
        (3, Bytecode::Eip7702(e)) => e.raw.len() == 23 && e.raw.as_ptr() == code_ptr,
        _ => false,
    };
    assert!(kind_ok, "sender code changed by validation");

    let m = dom == MAIN;
    cov!(m, !broken);
    cov!(m, r.sender_has_code);
    cov!(m, !broken && i.code_kind == 3);
    cov!(m, !broken && i.code_kind == 1);
    cov!(m, r.nonce_high);
    cov!(m, r.nonce_low);
    cov!(m, r.cost_overflow);
    cov!(m, r.lack_of_funds);
    cov!(m, !broken && w_eq(r.cost, i.balance) && i.balance[2] != 0);
    cov!(m && s >= CANCUN, !broken && i.blob_fee_some && i.n_blobs == 2 && i.blob_fee[0] > 1);
    core::mem::forget(env);
    core::mem::forget(acc);
}

fn body_gas<S: Spec>(s: u8) {
    let i = any_in();
    assert!(S::SPEC_ID as u8 == s, "spec ordinal");
    let env = build_env(&i);
    let (intrinsic, floor) = ref_gas(s, &i);
    let low = intrinsic > i.gas_limit;
    let under_floor = s >= PRAGUE && floor > i.gas_limit;
    let got = validate_initial_tx_gas::<S, EmptyDB>(&env);
    assert!(got.is_err() == (low | under_floor), "validate_initial_tx_gas: Err iff gas limit < intrinsic gas or (Prague) < calldata floor");
    match got {
        Ok(g) => {
            assert!(g.initial_gas == intrinsic, "accepted with an intrinsic gas different from the EIP formula");
            assert!(g.floor_gas == floor, "accepted with a floor different from EIP-7623");
        }
        Err(EVMError::Transaction(InvalidTransaction::CallGasCostMoreThanGasLimit)) => assert!(low, "CallGasCostMoreThanGasLimit but gas limit covers intrinsic gas"),
        Err(EVMError::Transaction(InvalidTransaction::GasFloorMoreThanGasLimit)) => assert!(under_floor, "GasFloorMoreThanGasLimit but gas limit covers the floor / before Prague"),
        Err(_) => assert!(false, "validate_initial_tx_gas returned an error class that is not a gas rule"),
    }
    kani::cover!(!low && !under_floor);
    kani::cover!(low);
    cov!(s >= PRAGUE, under_floor && !low);
    kani::cover!(i.gas_limit == intrinsic && i.create && i.data_len == 8);
    kani::cover!(i.gas_limit == intrinsic && i.al_items == 1 && i.al_keys == 2);
    core::mem::forget(env);
}

macro_rules! per_spec {
    ($($spec:ident = $ord:literal: $env:ident, $state:ident, $gas:ident);* $(;)?) => {
        $(
            #[kani::proof]
            #[kani::unwind(10)]
            fn $env() {
                body_env::<revm_primitives::$spec>($ord, MAIN);
            }
            #[kani::proof]
            #[kani::unwind(10)]
            #[kani::stub(revm_primitives::ruint::Uint::checked_mul, stub_checked_mul)]
            #[kani::stub(revm_primitives::ruint::Uint::saturating_mul, stub_saturating_mul)]
            #[kani::stub(std::hash::RandomState::new, stub_random_state)]
            fn $state() {
                body_state::<revm_primitives::$spec>($ord, MAIN);
            }
            #[kani::proof]
            #[kani::unwind(10)]
            fn $gas() {
                body_gas::<revm_primitives::$spec>($ord);
            }
        )*
    };
}

per_spec! {
    FrontierSpec = 0: c02_env_frontier, c02_state_frontier, c02_gas_frontier;
    HomesteadSpec = 2: c02_env_homestead, c02_state_homestead, c02_gas_homestead;
    IstanbulSpec = 9: c02_env_istanbul, c02_state_istanbul, c02_gas_istanbul;
    BerlinSpec = 11: c02_env_berlin, c02_state_berlin, c02_gas_berlin;
    LondonSpec = 12: c02_env_london, c02_state_london, c02_gas_london;
    MergeSpec = 15: c02_env_merge, c02_state_merge, c02_gas_merge;
    ShanghaiSpec = 16: c02_env_shanghai, c02_state_shanghai, c02_gas_shanghai;
    CancunSpec = 17: c02_env_cancun, c02_state_cancun, c02_gas_cancun;
    PragueSpec = 18: c02_env_prague, c02_state_prague, c02_gas_prague;
}
// Spec types between / after the rule-change points (same rule set as their predecessor above): thorough tier.
per_spec! {
    TangerineSpec = 4: c02_env_tangerine, c02_state_tangerine, c02_gas_tangerine;
    SpuriousDragonSpec = 5: c02_env_spurious_dragon, c02_state_spurious_dragon, c02_gas_spurious_dragon;
    ByzantiumSpec = 6: c02_env_byzantium, c02_state_byzantium, c02_gas_byzantium;
    PetersburgSpec = 8: c02_env_petersburg, c02_state_petersburg, c02_gas_petersburg;
    OsakaSpec = 19: c02_env_osaka, c02_state_osaka, c02_gas_osaka;
    LatestSpec = 255: c02_env_latest, c02_state_latest, c02_gas_latest;
}

/// Complement domains of the `c02_env_*` harnesses (see `body_env`).
#[kani::proof]
#[kani::unwind(10)]
fn c02_env_london_fee_sum_wraps() {
    body_env::<revm_primitives::LondonSpec>(12, FEE_WRAPS);
}
#[kani::proof]
#[kani::unwind(10)]
fn c02_env_prague_fee_sum_wraps() {
    body_env::<revm_primitives::PragueSpec>(18, FEE_WRAPS);
}
#[kani::proof]
#[kani::unwind(10)]
fn c02_env_prague_setcode_create() {
    body_env::<revm_primitives::PragueSpec>(18, SETCODE_CREATE);
}

/// Complement domain of the `c02_state_*` harnesses (see `body_state`).
#[kani::proof]
#[kani::unwind(10)]
#[kani::stub(revm_primitives::ruint::Uint::checked_mul, stub_checked_mul)]
#[kani::stub(revm_primitives::ruint::Uint::saturating_mul, stub_saturating_mul)]
#[kani::stub(std::hash::RandomState::new, stub_random_state)]
fn c02_state_cancun_blob_fee_wraps() {
    body_state::<revm_primitives::CancunSpec>(17, BLOB_FEE_WRAPS);
}

#[kani::proof]
#[kani::unwind(10)]
#[kani::stub(std::hash::RandomState::new, stub_random_state)]
fn c02_twin_must_fail() {
    let i = any_in();
    let env = build_env(&i);
    let acc = build_account(&i);
    let _ = env.validate_block_env::<revm_primitives::CancunSpec>();
    let _ = validate_initial_tx_gas::<revm_primitives::CancunSpec, EmptyDB>(&env);
    core::mem::forget(env);
    core::mem::forget(acc);
    assert!(false);
}

