//! C14 — Dynamic gas cost formulas equal the specification for all arguments.
//! Units: every public function of revm_interpreter::gas (crates/interpreter/src/gas/calc.rs) and `num_words`.
//! Reference values are written here from the EIPs with literal numbers and u128 arithmetic,
//! not from the crate's constants.
#![cfg(kani)]
use crate::util::*;
use revm_interpreter::gas::*;
use revm_interpreter::{num_words, AccountLoad, Eip7702CodeLoad, SStoreResult, SelfDestructResult, StateLoad};
use revm_primitives::{SpecId, U256};

/// Any defined SpecId (FRONTIER..=OSAKA and LATEST).
pub fn any_spec() -> SpecId {
    let b: u8 = kani::any();
    let s = SpecId::try_from_u8(b);
    kani::assume(s.is_some());
    s.unwrap()
}

// fork ordinals written out (mainnet build, no optimism feature)
const TANGERINE: u8 = 4;
const SPURIOUS: u8 = 5;
const ISTANBUL: u8 = 9;
const BERLIN: u8 = 11;
const LONDON: u8 = 12;
const SHANGHAI: u8 = 16;
const PRAGUE: u8 = 18;
const HOMESTEAD: u8 = 2;

fn ceil32(len: u64) -> u128 {
    (len as u128 + 31) / 32
}

fn fits(x: u128) -> Option<u64> {
    if x <= u64::MAX as u128 {
        Some(x as u64)
    } else {
        None
    }
}

#[kani::proof]
fn c14_num_words() {
    let len: u64 = kani::any();
    kani::assume(len <= u64::MAX - 31);
    assert!(num_words(len) as u128 == ceil32(len), "num_words differs from ceil(len/32)");
    kani::cover!(len == u64::MAX - 31);
    kani::cover!(len % 32 == 1);
}

/// Top 31 lengths: recorded finding D6 (saturating_add(31) is one word short of ceil(len/32)).
#[kani::proof]
fn c14_num_words_top31() {
    let len: u64 = kani::any();
    kani::assume(len > u64::MAX - 31);
    assert!(num_words(len) as u128 == ceil32(len), "num_words differs from ceil(len/32) for len > 2^64-32");
}

#[kani::proof]
fn c14_word_costs() {
    let len: u64 = kani::any();
    kani::assume(len <= u64::MAX - 31);
    let w = ceil32(len);
    let mult: u64 = kani::any();
    kani::assume(mult <= 1 << 20);
    assert!(cost_per_word(len, mult) == fits(mult as u128 * w), "cost_per_word");
    assert!(verylowcopy_cost(len) == fits(3 + 3 * w), "verylowcopy_cost != 3 + 3*ceil(len/32)");
    assert!(keccak256_cost(len) == fits(30 + 6 * w), "keccak256_cost != 30 + 6*ceil(len/32)");
    assert!(create2_cost(len) == fits(32000 + 6 * w), "create2_cost != 32000 + 6*ceil(len/32)");
    kani::cover!(len > 1 << 62);
}

#[kani::proof]
fn c14_initcode_cost() {
    let len: u64 = kani::any();
    kani::assume(len <= u64::MAX - 31);
    // 2 * ceil(len/32) always fits in u64
    assert!(initcode_cost(len) as u128 == 2 * ceil32(len), "initcode_cost != 2*ceil(len/32)");
}

#[kani::proof]
fn c14_extcodecopy_cost() {
    let spec = any_spec();
    let len: u64 = kani::any();
    kani::assume(len <= u64::MAX - 31);
    let cold: bool = kani::any();
    let s = spec as u8;
    let base: u128 = if s >= BERLIN { if cold { 2600 } else { 100 } } else if s >= TANGERINE { 700 } else { 20 };
    assert!(extcodecopy_cost(spec, len, cold) == fits(base + 3 * ceil32(len)), "extcodecopy_cost");
    kani::cover!(s >= BERLIN && cold);
    kani::cover!(s < TANGERINE);
    kani::cover!(s >= TANGERINE && s < BERLIN);
}

#[kani::proof]
fn c14_log_cost() {
    let n: u8 = kani::any();
    kani::assume(n <= 4);
    let len: u64 = kani::any();
    let exact = 375u128 + 8 * len as u128 + 375 * n as u128;
    assert!(log_cost(n, len) == fits(exact), "log_cost != 375 + 8*len + 375*topics (None iff >= 2^64)");
    kani::cover!(exact > u64::MAX as u128);
    kani::cover!(exact == u64::MAX as u128);
}

#[kani::proof]
fn c14_memory_gas() {
    let w: u64 = kani::any();
    let exact = 3 * w as u128 + (w as u128 * w as u128) / 512;
    let got = memory_gas(w);
    if exact <= u64::MAX as u128 {
        assert!(got as u128 == exact, "memory_gas != 3*w + w*w/512 although the exact value fits in u64");
    } else {
        // the API has no failure value: the only sound answer is the saturated maximum (unaffordable)
        assert!(got == u64::MAX, "memory_gas returns a payable amount although the exact cost exceeds 2^64");
    }
    kani::cover!(exact > u64::MAX as u128);
    kani::cover!(w > (1 << 32) && exact <= u64::MAX as u128);
}

#[kani::proof]
fn c14_memory_gas_for_len() {
    let len: usize = kani::any();
    kani::assume(len as u64 <= u64::MAX - 31);
    let w = ceil32(len as u64);
    let exact = 3 * w + (w * w) / 512;
    kani::assume(exact <= u64::MAX as u128);
    assert!(memory_gas_for_len(len) as u128 == exact, "memory_gas_for_len");
}

fn bitlen(x: &U256) -> u64 {
    let l = x.as_limbs();
    if l[3] != 0 {
        256 - l[3].leading_zeros() as u64
    } else if l[2] != 0 {
        192 - l[2].leading_zeros() as u64
    } else if l[1] != 0 {
        128 - l[1].leading_zeros() as u64
    } else {
        64 - l[0].leading_zeros() as u64
    }
}

/// Exact stand-in for ruint's 256-bit `checked_mul` on the only operands `exp_cost` ever passes
/// (gas per byte <= 50 and a byte count <= 32): operands must fit in 64 bits (asserted, not assumed),
/// the product is then computed exactly in u128. ruint's limb loops do not unwind in CBMC.
pub fn stub_checked_mul_small<const BITS: usize, const LIMBS: usize>(
    a: revm_primitives::ruint::Uint<BITS, LIMBS>,
    b: revm_primitives::ruint::Uint<BITS, LIMBS>,
) -> Option<revm_primitives::ruint::Uint<BITS, LIMBS>> {
    let (x, y) = (a.as_limbs(), b.as_limbs());
    let mut hi = 0u64;
    let mut i = 1;
    while i < LIMBS {
        hi |= x[i] | y[i];
        i += 1;
    }
    assert!(hi == 0, "stub domain: checked_mul operand does not fit in 64 bits");
    let p = x[0] as u128 * y[0] as u128;
    let mut out = [0u64; LIMBS];
    out[0] = p as u64;
    if LIMBS > 1 {
        out[1] = (p >> 64) as u64;
    }
    Some(revm_primitives::ruint::Uint::from_limbs(out))
}

#[kani::proof]
#[kani::unwind(34)]
#[kani::stub(revm_primitives::ruint::Uint::checked_mul, stub_checked_mul_small)]
fn c14_exp_cost() {
    let spec = any_spec();
    let p = any_u256();
    let bytes = (bitlen(&p) + 7) / 8; // 0 for p == 0
    let per: u64 = if spec as u8 >= SPURIOUS { 50 } else { 10 };
    let want = 10 + per * bytes;
    assert!(exp_cost(spec, p) == Some(want), "exp_cost != 10 + (10|50) * byte_length(exponent)");
    kani::cover!(bytes == 32);
    kani::cover!(bytes == 0);
    kani::cover!(bytes == 9);
}

fn any_sstore() -> SStoreResult {
    SStoreResult { original_value: any_u256(), present_value: any_u256(), new_value: any_u256() }
}

/// EIP-2200 / EIP-2929 / EIP-3529 written as plain numbers.
fn ref_sstore_cost(s: u8, o: &U256, p: &U256, n: &U256, gas: u64, cold: bool) -> Option<u64> {
    if s >= ISTANBUL {
        if gas <= 2300 {
            return None;
        }
        let (sload, reset) = if s >= BERLIN { (100u64, 2900u64) } else { (800, 5000) };
        let mut c = if ueq(n, p) {
            sload
        } else if ueq(o, p) {
            if is_zero(o) { 20000 } else { reset }
        } else {
            sload
        };
        if s >= BERLIN && cold {
            c += 2100;
        }
        Some(c)
    } else {
        Some(if is_zero(p) && !is_zero(n) { 20000 } else { 5000 })
    }
}

fn ref_sstore_refund(s: u8, o: &U256, p: &U256, n: &U256) -> i64 {
    if s >= ISTANBUL {
        let clears: i64 = if s >= LONDON { 4800 } else { 15000 };
        let (sload, reset): (i64, i64) = if s >= BERLIN { (100, 2900) } else { (800, 5000) };
        if ueq(n, p) {
            return 0;
        }
        if ueq(o, p) {
            return if is_zero(n) { clears } else { 0 };
        }
        let mut r = 0i64;
        if !is_zero(o) {
            if is_zero(p) {
                r -= clears;
            } else if is_zero(n) {
                r += clears;
            }
        }
        if ueq(o, n) {
            if is_zero(o) {
                r += 20000 - sload;
            } else {
                r += reset - sload;
            }
        }
        r
    } else if !is_zero(p) && is_zero(n) {
        15000
    } else {
        0
    }
}

#[kani::proof]
#[kani::unwind(34)]
fn c14_sstore_cost() {
    let spec = any_spec();
    let v = any_sstore();
    let gas: u64 = kani::any();
    let cold: bool = kani::any();
    let want = ref_sstore_cost(spec as u8, &v.original_value, &v.present_value, &v.new_value, gas, cold);
    assert!(sstore_cost(spec, &v, gas, cold) == want, "sstore_cost differs from EIP-2200/2929 (incl. EIP-1706 stipend rule)");
    kani::cover!(want.is_none());
    kani::cover!(want == Some(22100));
    kani::cover!(want == Some(2900));
    kani::cover!(want == Some(800));
}

#[kani::proof]
#[kani::unwind(34)]
fn c14_sstore_refund() {
    let spec = any_spec();
    let v = any_sstore();
    let want = ref_sstore_refund(spec as u8, &v.original_value, &v.present_value, &v.new_value);
    assert!(sstore_refund(spec, &v) == want, "sstore_refund differs from EIP-2200/2929/3529");
    kani::cover!(want == 4200);
    kani::cover!(want == 19900);
    kani::cover!(want == -4800);
    kani::cover!(want == -15000 + 4200);
    kani::cover!(want == -4800 + 2800);
}

#[kani::proof]
fn c14_sload_and_warm_cold() {
    let spec = any_spec();
    let cold: bool = kani::any();
    let s = spec as u8;
    let want = if s >= BERLIN { if cold { 2100 } else { 100 } } else if s >= ISTANBUL { 800 } else if s >= TANGERINE { 200 } else { 50 };
    assert!(sload_cost(spec, cold) == want, "sload_cost");
    assert!(warm_cold_cost(cold) == if cold { 2600 } else { 100 }, "warm_cold_cost");
    let d: u8 = kani::any();
    kani::assume(d < 3);
    let deleg = match d { 0 => None, 1 => Some(false), _ => Some(true) };
    let load = Eip7702CodeLoad { state_load: StateLoad { data: (), is_cold: cold }, is_delegate_account_cold: deleg };
    let mut w = if cold { 2600 } else { 100 };
    w += match deleg { None => 0, Some(false) => 100, Some(true) => 2600 };
    assert!(warm_cold_cost_with_delegation(load) == w, "warm_cold_cost_with_delegation");
}

#[kani::proof]
fn c14_call_cost() {
    let spec = any_spec();
    let s = spec as u8;
    let value: bool = kani::any();
    let cold: bool = kani::any();
    let empty: bool = kani::any();
    let d: u8 = kani::any();
    kani::assume(d < 3);
    let deleg = match d { 0 => None, 1 => Some(false), _ => Some(true) };
    let al = AccountLoad {
        load: Eip7702CodeLoad { state_load: StateLoad { data: (), is_cold: cold }, is_delegate_account_cold: deleg },
        is_empty: empty,
    };
    let mut want: u64 = if s >= BERLIN {
        (if cold { 2600 } else { 100 }) + match deleg { None => 0, Some(false) => 100, Some(true) => 2600 }
    } else if s >= TANGERINE {
        700
    } else {
        40
    };
    if value {
        want += 9000;
    }
    if empty && (s < SPURIOUS || value) {
        want += 25000;
    }
    assert!(call_cost(spec, value, al) == want, "call_cost");
    kani::cover!(want == 2600 + 2600 + 9000 + 25000);
    kani::cover!(want == 40 + 25000);
}

#[kani::proof]
fn c14_selfdestruct_cost() {
    let spec = any_spec();
    let s = spec as u8;
    let had_value: bool = kani::any();
    let target_exists: bool = kani::any();
    let previously_destroyed: bool = kani::any();
    let cold: bool = kani::any();
    let res = StateLoad { data: SelfDestructResult { had_value, target_exists, previously_destroyed }, is_cold: cold };
    let topup = if s >= SPURIOUS { had_value && !target_exists } else { !target_exists };
    let mut want = 0u64;
    if s >= TANGERINE {
        want += 5000;
        if topup {
            want += 25000;
        }
    }
    if s >= BERLIN && cold {
        want += 2600;
    }
    assert!(selfdestruct_cost(spec, res) == want, "selfdestruct_cost");
    kani::cover!(want == 32600);
    kani::cover!(want == 0);
}

#[kani::proof]
fn c14_floor_cost() {
    let tokens: u64 = kani::any();
    kani::assume(tokens <= 1 << 40);
    assert!(calc_tx_floor_cost(tokens) as u128 == 21000 + 10 * tokens as u128, "calc_tx_floor_cost != 21000 + 10*tokens");
}

#[kani::proof]
#[kani::unwind(10)]
fn c14_tokens_in_calldata() {
    let data: [u8; 8] = kani::any();
    let len: usize = kani::any();
    kani::assume(len <= 8);
    let ist: bool = kani::any();
    let mut z = 0u64;
    let mut nz = 0u64;
    let mut i = 0;
    while i < len {
        if data[i] == 0 { z += 1 } else { nz += 1 }
        i += 1;
    }
    let want = z + nz * if ist { 4 } else { 17 };
    assert!(get_tokens_in_calldata(&data[..len], ist) == want, "get_tokens_in_calldata (EIP-2028: 16/4 gas from Istanbul, 68/4 before)");
    kani::cover!(z == 3 && nz == 5);
    kani::cover!(len == 0);
}

fn access_list(n_items: usize, k0: usize, k1: usize) -> Vec<revm_primitives::AccessListItem> {
    use revm_primitives::{AccessListItem, Address, B256};
    let mut v = Vec::with_capacity(2);
    if n_items >= 1 {
        let mut keys = Vec::with_capacity(2);
        if k0 >= 1 { keys.push(B256::ZERO); }
        if k0 >= 2 { keys.push(B256::ZERO); }
        v.push(AccessListItem { address: Address::ZERO, storage_keys: keys });
    }
    if n_items >= 2 {
        let mut keys = Vec::with_capacity(2);
        if k1 >= 1 { keys.push(B256::ZERO); }
        if k1 >= 2 { keys.push(B256::ZERO); }
        v.push(AccessListItem { address: Address::ZERO, storage_keys: keys });
    }
    v
}

/// Intrinsic gas (EIP-2028/2930/3860/7702) and calldata floor (EIP-7623) of a transaction.
#[kani::proof]
#[kani::unwind(10)]
fn c14_initial_tx_gas() {
    let spec = any_spec();
    let s = spec as u8;
    let data: [u8; 8] = kani::any();
    let len: usize = kani::any();
    let is_create: bool = kani::any();
    let n_items: usize = kani::any();
    let k0: usize = kani::any();
    let k1: usize = kani::any();
    let auth: u64 = kani::any();
    kani::assume(len <= 8 && n_items <= 2 && k0 <= 2 && k1 <= 2 && auth <= 1 << 32);
    let al = access_list(n_items, k0, k1);
    let got = calculate_initial_tx_gas(spec, &data[..len], is_create, &al, auth);

    let mut z = 0u64;
    let mut nz = 0u64;
    let mut i = 0;
    while i < len {
        if data[i] == 0 { z += 1 } else { nz += 1 }
        i += 1;
    }
    let mut want: u64 = 4 * z + if s >= ISTANBUL { 16 } else { 68 } * nz;
    let slots = (if n_items >= 1 { k0 } else { 0 } + if n_items >= 2 { k1 } else { 0 }) as u64;
    if s >= BERLIN {
        want += 2400 * n_items as u64 + 1900 * slots;
    }
    want += if is_create && s >= HOMESTEAD { 53000 } else { 21000 };
    if s >= SHANGHAI && is_create {
        want += 2 * ((len as u64 + 31) / 32);
    }
    let mut floor = 0u64;
    if s >= PRAGUE {
        want += 25000 * auth;
        let tokens = z + 4 * nz;
        floor = 21000 + 10 * tokens;
    }
    assert!(got.initial_gas == want, "intrinsic gas differs from EIP-2028/2930/3860/7702 formula");
    assert!(got.floor_gas == floor, "EIP-7623 floor differs from 21000 + 10*tokens (Prague+, calls and creates alike), 0 before");
    kani::cover!(s >= PRAGUE && is_create && nz > 0);
    kani::cover!(s >= BERLIN && n_items == 2 && k0 == 2 && k1 == 1);
    kani::cover!(s < HOMESTEAD && is_create);
    kani::cover!(s >= SHANGHAI && is_create && len > 0);
}

#[kani::proof]
fn c14_twin_must_fail() {
    let spec = any_spec();
    let v = any_sstore();
    let _ = sstore_refund(spec, &v);
    let w: u64 = kani::any();
    let _ = memory_gas(w);
    assert!(false);
}
