//! C32 — Blob fee functions match the EIP-4844 integer definitions.
//! Units: revm_primitives::{calc_excess_blob_gas, fake_exponential, calc_blob_gasprice}.
#![cfg(kani)]
use revm_primitives::{
    calc_blob_gasprice, calc_excess_blob_gas, fake_exponential, BLOB_BASE_FEE_UPDATE_FRACTION_CANCUN,
    BLOB_BASE_FEE_UPDATE_FRACTION_ELECTRA, MIN_BLOB_GASPRICE,
};

/// next excess = max(0, excess + used - target) for ALL u64 triples whose exact value fits in u64;
/// no panic (Kani keeps the dev-profile overflow checks, so a wrapping/panicking sum is a failure).
#[kani::proof]
fn c32_excess_blob_gas_all_u64() {
    let e: u64 = kani::any();
    let u: u64 = kani::any();
    let t: u64 = kani::any();
    let sum = e as u128 + u as u128;
    let exact = if sum > t as u128 { sum - t as u128 } else { 0 };
    kani::assume(exact <= u64::MAX as u128);
    let got = calc_excess_blob_gas(e, u, t);
    assert!(got as u128 == exact, "excess blob gas differs from max(0, excess+used-target)");
    kani::cover!(sum > u64::MAX as u128, "sum exceeds u64 but result fits");
    kani::cover!(exact == 0 && sum > 0);
    kani::cover!(exact > 0 && sum <= u64::MAX as u128);
}

/// The EIP-4844 recurrence over u128 (exact for the bounded numerators below: every intermediate < 2^64).
fn spec_fake_exponential(factor: u128, numerator: u128, denominator: u128) -> u128 {
    let mut i: u128 = 1;
    let mut output: u128 = 0;
    let mut acc: u128 = factor * denominator;
    while acc > 0 {
        output += acc;
        acc = (acc * numerator) / (denominator * i);
        i += 1;
    }
    output / denominator
}

fn price_vs_spec(prague: bool, max_excess: u64) {
    let excess: u64 = kani::any();
    kani::assume(excess <= max_excess);
    let d = if prague { 5007716u128 } else { 3338477u128 }; // EIP-4844 / EIP-7691 constants, written out
    let want = spec_fake_exponential(1, excess as u128, d);
    let got = calc_blob_gasprice(excess, prague);
    assert!(got == want, "blob gas price differs from the EIP-4844 fake exponential");
    assert!(got >= 1, "price below MIN_BLOB_GASPRICE");
    kani::cover!(got == 2);
    kani::cover!(excess == max_excess);
}

#[kani::proof]
#[kani::unwind(14)]
fn c32_price_cancun_le_fraction() {
    price_vs_spec(false, 3338477);
}

#[kani::proof]
#[kani::unwind(14)]
fn c32_price_prague_le_fraction() {
    price_vs_spec(true, 5007716);
}

#[kani::proof]
fn c32_constants() {
    assert!(MIN_BLOB_GASPRICE == 1);
    assert!(BLOB_BASE_FEE_UPDATE_FRACTION_CANCUN == 3338477);
    assert!(BLOB_BASE_FEE_UPDATE_FRACTION_ELECTRA == 5007716);
    // zero excess => minimum price, both schedules
    assert!(calc_blob_gasprice(0, false) == 1 && calc_blob_gasprice(0, true) == 1);
}

#[kani::proof]
fn c32_twin_must_fail() {
    let e: u64 = kani::any();
    let u: u64 = kani::any();
    kani::assume(e as u128 + u as u128 <= u64::MAX as u128);
    let _ = calc_excess_blob_gas(e, u, kani::any());
    assert!(false);
}

// ---------------------------------------------------------------------------------------------------------
// The price a block environment *stores* is the price of the (excess, schedule) it was last given — also when the
// environment object is reused. `calc_blob_gasprice` is replaced by an injective stand-in of its two arguments, so the
// harness decides WHICH arguments reach the price function on every call path (the function itself is decided above).
pub fn stub_price(excess_blob_gas: u64, is_prague: bool) -> u128 {
    ((excess_blob_gas as u128) << 1) | (is_prague as u128)
}

#[kani::proof]
#[kani::stub(revm_primitives::calc_blob_gasprice, stub_price)]
fn c32_block_env_price_follows_last_setting() {
    use revm_primitives::{BlobExcessGasAndPrice, BlockEnv};
    let (x1, p1, x2, p2): (u64, bool, u64, bool) = (kani::any(), kani::any(), kani::any(), kani::any());
    let first_is_fresh: bool = kani::any();
    let mut b = BlockEnv::default();
    if !first_is_fresh {
        b.set_blob_excess_gas_and_price(x1, p1);
        assert!(b.get_blob_excess_gas() == Some(x1) && b.get_blob_gasprice() == Some(stub_price(x1, p1)));
    }
    b.set_blob_excess_gas_and_price(x2, p2);
    assert!(b.get_blob_excess_gas() == Some(x2), "stored excess blob gas is not the one last set");
    assert!(b.get_blob_gasprice() == Some(stub_price(x2, p2)), "stored blob gas price is not the price of the (excess, schedule) last set");
    let n = BlobExcessGasAndPrice::new(x2, p2);
    assert!(n.excess_blob_gas == x2 && n.blob_gasprice == stub_price(x2, p2), "BlobExcessGasAndPrice::new does not price its own arguments");
    kani::cover!(!first_is_fresh && x1 == x2 && p1 != p2);
    kani::cover!(first_is_fresh);
}
