//! Kani proof harnesses over the real risechain/revm code (path dependencies on /repo/crates/*).
//! One module per property of /verif/properties.jsonl. Driven by /verif/bin/check.
#![allow(dead_code, unused_imports, clippy::all)]

pub mod util;

pub mod c02;
pub mod c03;
pub mod c04;
pub mod c09;
pub mod c10;
pub mod c11;
pub mod c12;
pub mod c13;
pub mod c14;
pub mod c15;
pub mod c23;
pub mod c25;
pub mod c27;
pub mod c32;
pub mod c34;
