//! C25 (kernel) — PUSHn at the end of code reads only inside the padded code buffer and pushes the EVM value.
//! Unit: revm_interpreter::instructions::stack::push::<N> on a real Interpreter over `to_analysed` code (the real 33-byte
//! zero padding), opcode at the LAST position of the code — the worst case for the unchecked `from_raw_parts(ip, N)` read.
//! Kani's pointer checks are on: a read or pointer formed outside the buffer is a failure. The pushed word must be the
//! big-endian value of the N bytes following the opcode, bytes past the end of the code counting as zero.
#![cfg(kani)]
use crate::c03::{small_stack, u};
use crate::util::*;
use revm_interpreter::analysis::to_analysed;
use revm_interpreter::instructions::stack;
use revm_interpreter::{Contract, FunctionStack, Gas, InstructionResult, Interpreter, InterpreterAction, EMPTY_SHARED_MEMORY};
use revm_primitives::{Address, Bytecode, Bytes, U256};

fn static_bytes<const L: usize>(code: &[u8; L]) -> Bytes {
    let leaked: &'static [u8; L] = Box::leak(Box::new(*code));
    Bytes::from_static(leaked)
}

/// `L` code bytes (symbolic), PUSH<N> sits at position `P` (its opcode byte is whatever the symbolic code holds there; the
/// instruction function is invoked directly, as the interpreter loop does after advancing past the opcode).
fn body_push<const L: usize, const P: usize, const N: usize>() {
    let code: [u8; L] = kani::any();
    let gas: u64 = kani::any();
    kani::assume(gas >= 3);
    let an = to_analysed(Bytecode::new_legacy(static_bytes(&code)));
    let bytes = an.bytecode().clone();
    assert!(bytes.len() == L + 33, "analysed buffer is not code + 33 bytes");
    let start = bytes.as_ptr();
    let mut it = Interpreter {
        instruction_pointer: unsafe { start.add(P + 1) },
        gas: Gas::new(gas),
        contract: Contract { input: Bytes::new(), bytecode: an, hash: None, target_address: Address::ZERO, bytecode_address: None, caller: Address::ZERO, call_value: U256::ZERO },
        instruction_result: InstructionResult::Continue,
        bytecode: bytes,
        is_eof: false,
        is_eof_init: false,
        shared_memory: EMPTY_SHARED_MEMORY,
        stack: small_stack(),
        function_stack: FunctionStack::new(),
        return_data_buffer: Bytes::new(),
        is_static: false,
        next_action: InterpreterAction::None,
    };
    let mut host = NoHost;
    stack::push::<N, NoHost>(&mut it, &mut host);
    assert!(it.instruction_result == InstructionResult::Continue);
    assert!(it.gas.remaining() == gas - 3, "PUSHn must charge 3 gas");
    assert!(it.stack.len() == 1);
    assert!(it.instruction_pointer == unsafe { start.add(P + 1 + N) }, "PUSHn must advance past its immediate");
    // expected word: bytes code[P+1 .. P+1+N], missing bytes are zero, big-endian
    let mut want = [0u64; 4];
    let mut k = 0;
    while k < N {
        let idx = P + 1 + (N - 1 - k); // k-th byte from the least significant end
        let b = if idx < L { code[idx] } else { 0 };
        want[k / 8] |= (b as u64) << (8 * (k % 8));
        k += 1;
    }
    let got = limbs(&it.stack.peek(0).unwrap());
    assert!(got == want, "PUSHn value differs from the immediate bytes (bytes past the end of code are zero)");
    kani::cover!(L < 2 || code[L - 1] != 0);
    core::mem::forget(it);
}

macro_rules! inst_p {
    ($($name:ident = ($l:literal, $p:literal, $n:literal)),* $(,)?) => {
        $(
            #[kani::proof]
            #[kani::unwind(45)]
            #[kani::solver(kissat)]
            fn $name() {
                body_push::<$l, $p, $n>();
            }
        )*
    };
}
inst_p!(
    c25_push1_last_of_1 = (1, 0, 1),
    c25_push32_last_of_1 = (1, 0, 32),
    c25_push32_last_of_3 = (3, 2, 32),
    c25_push2_first_of_3 = (3, 0, 2),
    c25_push17_mid_of_3 = (3, 1, 17),
);

#[kani::proof]
#[kani::unwind(45)]
fn c25_twin_must_fail() {
    body_push::<1, 0, 1>();
    assert!(false);
}
