//! C04 — A jump is accepted only onto a real JUMPDEST outside push data.
//! Units: revm_interpreter::analysis::to_analysed (jump-table construction, incl. the bitvec it fills),
//! JumpTable::is_valid, Contract::is_valid_jump and the real JUMP / JUMPI instruction functions.
//! Code LENGTH is concrete per harness, code BYTES, the 256-bit jump target and the JUMPI condition are symbolic.
#![cfg(kani)]
use crate::c03::{any_w, small_stack, u};
use crate::util::*;
use revm_interpreter::analysis::to_analysed;
use revm_interpreter::instructions::control;
use revm_interpreter::{Contract, FunctionStack, Gas, InstructionResult, Interpreter, InterpreterAction, EMPTY_SHARED_MEMORY};
use revm_primitives::{Address, Bytecode, Bytes, U256};

fn static_bytes<const N: usize>(code: &[u8; N]) -> Bytes {
    let leaked: &'static [u8; N] = Box::leak(Box::new(*code));
    Bytes::from_static(leaked)
}

/// Reference: t is a valid destination iff t < N, code[t] == JUMPDEST (0x5B) and t is not inside the immediate of a PUSH1..PUSH32
/// (0x60..=0x7F) found by a forward scan from position 0.
fn ref_valid<const N: usize>(code: &[u8; N], t: usize) -> bool {
    let mut valid = false;
    let mut pc = 0usize; // next instruction boundary
    let mut i = 0usize;
    while i < N {
        if i == pc {
            let op = code[i];
            if op == 0x5B && i == t {
                valid = true;
            }
            pc = if op >= 0x60 && op <= 0x7F { i + 1 + (op - 0x5F) as usize } else { i + 1 };
        }
        i += 1;
    }
    valid
}

/// Jump table of every code of length N agrees with the reference at every position (symbolic), inside and beyond the code.
fn body_table<const N: usize>() {
    let code: [u8; N] = kani::any();
    let t: usize = kani::any();
    let an = to_analysed(Bytecode::new_legacy(static_bytes(&code)));
    let table = an.legacy_jump_table().expect("analysed code has a jump table");
    let want = t < N && ref_valid(&code, t);
    assert!(table.is_valid(t) == want, "jump table differs from: target < len, byte is JUMPDEST, not inside PUSH data");
    kani::cover!(want);
    kani::cover!(N < 2 || (t < N && code[t] == 0x5B && !want), "JUMPDEST byte inside push data");
    kani::cover!(t >= N);
    core::mem::forget(an);
}

/// The real JUMP / JUMPI on an interpreter over the analysed contract: succeed (and move the instruction pointer to the
/// target) exactly when the 256-bit target is a valid destination; otherwise InvalidJump.
fn body_jump<const N: usize>() {
    let code: [u8; N] = kani::any();
    let target = any_w();
    let cond = any_w();
    let jumpi: bool = kani::any();
    let gas: u64 = kani::any();
    kani::assume(gas >= 10);
    let an = to_analysed(Bytecode::new_legacy(static_bytes(&code)));
    let bytes = an.bytecode().clone();
    let start = bytes.as_ptr();
    let mut it = Interpreter {
        instruction_pointer: start,
        gas: Gas::new(gas),
        contract: Contract { input: Bytes::new(), bytecode: an, hash: None, target_address: Address::ZERO, bytecode_address: None, caller: Address::ZERO, call_value: U256::ZERO },
        instruction_result: InstructionResult::Continue,
        bytecode: bytes,
        is_eof: false,
        is_eof_init: false,
        shared_memory: EMPTY_SHARED_MEMORY,
        stack: small_stack(),
        function_stack: FunctionStack::new(),
        return_data_buffer: Bytes::new(),
        is_static: false,
        next_action: InterpreterAction::None,
    };
    if jumpi {
        it.stack.data_mut().push(u(cond));
    }
    it.stack.data_mut().push(u(target));
    let mut host = NoHost;
    if jumpi {
        control::jumpi::<NoHost>(&mut it, &mut host);
    } else {
        control::jump::<NoHost>(&mut it, &mut host);
    }
    let small = (target[1] | target[2] | target[3]) == 0;
    let t = target[0] as usize;
    let valid = small && t < N && ref_valid(&code, t);
    let taken = !jumpi || (cond[0] | cond[1] | cond[2] | cond[3]) != 0;
    if !taken {
        assert!(it.instruction_result == InstructionResult::Continue, "JUMPI with a zero condition must fall through");
        assert!(it.instruction_pointer == start, "JUMPI with a zero condition moved the instruction pointer");
    } else if valid {
        assert!(it.instruction_result == InstructionResult::Continue, "jump onto a valid JUMPDEST was rejected");
        assert!(it.instruction_pointer == unsafe { start.add(t) }, "jump did not land on the target");
    } else {
        assert!(it.instruction_result == InstructionResult::InvalidJump, "jump to an invalid destination was accepted");
    }
    assert!(it.stack.len() == 0, "jump did not consume its operands");
    kani::cover!(taken && valid);
    kani::cover!(taken && !valid && small && t < N);
    kani::cover!(taken && !small);
    kani::cover!(!taken);
    core::mem::forget(it);
}

macro_rules! inst_n {
    ($body:ident, $unwind:literal: $($name:ident = $n:literal),* $(,)?) => {
        $(
            #[kani::proof]
            #[kani::unwind($unwind)]
            #[kani::solver(kissat)]
            fn $name() {
                $body::<$n>();
            }
        )*
    };
}
inst_n!(body_table, 45: c04_table_1 = 1, c04_table_2 = 2, c04_table_3 = 3, c04_table_4 = 4, c04_table_5 = 5, c04_table_6 = 6, c04_table_7 = 7, c04_table_8 = 8);
inst_n!(body_jump, 45: c04_jump_1 = 1, c04_jump_2 = 2, c04_jump_3 = 3, c04_jump_4 = 4, c04_jump_5 = 5, c04_jump_6 = 6);

#[kani::proof]
#[kani::unwind(45)]
fn c04_twin_must_fail() {
    body_table::<2>();
    assert!(false);
}
