"""C15 kernels (block-state database): the per-account step of committing EVM output and the reads, decided by provenance-flow symbolic
execution of the MIR bodies (lib/mirflow.py) + SMT over every path and every value of the branch inputs.

  (A) CacheState::apply_account_state: which CacheAccount operation an EVM account is dispatched to, with which arguments
  (D) State::storage (+ its closure): where the returned word comes from; State::load_cache_account: how a database answer is classified
"""
import os, re
import mir, smt, native, mirflow

REPO = os.environ.get("VERIF_REPO", "/repo")
CACHE, ZERO, INNER, ERR = 11, 12, 13, 14


def _fn(funcs, rx, sig_rx=None):
    return [f for n, fl in funcs.items() for f in fl if re.search(rx, n) and (sig_rx is None or re.search(sig_rx, f.text.split("\n")[0]))]


def _struct_fields(path, name):
    src = open(os.path.join(REPO, path)).read()
    m = re.search(r"pub struct %s(?:<[^>]*>)? \{(.*?)\n\}" % name, src, re.S)
    return re.findall(r"^\s*pub (\w+):", m.group(1), re.M) if m else []


def _call_blocks(fn, rx):
    out = []
    for b in fn.blocks.values():
        c = mir.call_of(b.term or "")
        if c and re.search(rx, c[1]):
            out.append((b.name, (c[0] or "").strip(), c))
    return out


class _Ctx:
    def __init__(self, log):
        self.log, self.duo = log, smt.Duo(timeout_s=30)
        self.failures, self.inconcl, self.samples, self._replay = [], [], [], None

    def replay(self, name):
        if self._replay is None:
            self._replay = native.call("debug", "block_state_kernel", log=self.log)
        st, outp = self._replay
        if st != "ok":
            return None, f"native scenario failed: {st} {outp[:200]}"
        return [t for t in re.findall(r"\[([^\]]*)\]", outp) if t.startswith(name + " ") and "MISMATCH" in t], None

    def unrecognised(self, name, why):
        bad, err = self.replay(name)
        if bad:
            self.failures.append(dict(id=f"c15-{name}", reproduced=True, description=f"{name}: {why}; the native scenarios disagree: {bad}"))
        else:
            self.inconcl.append(f"{name}: {why}" + (f" ({err})" if err else " (native scenarios agree)"))

    def decide(self, name, decls, asserts, order, extra, viol, witnesses, note_names, what):
        v, model, detail = self.duo.check(decls, asserts + extra + [viol], want_model_of=[f"on_{b}" for b in order] + note_names)
        self.samples.append(f"{name}: {len(order)} blocks, inputs {note_names}: a path on which {what}: {v}")
        self.log(f"[c15] {self.samples[-1]}")
        if v == "unsat":
            for wn, wq in witnesses:
                wv, _, _ = self.duo.check(decls, asserts + extra + [wq])
                if wv != "sat":
                    self.unrecognised(name, f"vacuity witness `{wn}` is {wv}")
                    return
            return
        if v != "sat":
            self.inconcl.append(f"{name}: {detail}")
            return
        path = sorted([b for b in order if re.search(r"\(on_%s true\)" % b, model)], key=lambda x: int(x[2:]))
        vals = {n_: (re.search(r"\(%s (\d+)\)" % re.escape(n_), model) or [None, "?"])[1] for n_ in note_names}
        bad, err = self.replay(name)
        desc = f"{name}: {what} on path {'>'.join(path[-8:])} with {vals}"
        if err:
            self.inconcl.append(desc + f" ({err})")
        else:
            self.failures.append(dict(id=f"c15-{name}", reproduced=bool(bad), description=desc + f" | native: {bad or 'all scenarios agree'}"))


def run_block_state_kernel(tier, log, seed):
    text = mir.dump("revm", log)
    funcs = mir.parse_functions(text)
    cx = _Ctx(log)
    # ------------------------------------------------------------------ (A) dispatch of one committed account
    cands = _fn(funcs, r"^cache::<impl at [^>]*>::apply_account_state$")
    cs_fields = _struct_fields("crates/revm/src/db/states/cache.rs", "CacheState")
    if len(cands) != 1 or "has_state_clear" not in cs_fields:
        cx.inconcl.append(f"apply_account_state: {len(cands)} MIR bodies / CacheState fields {cs_fields}")
    else:
        fn = cands[0]
        OPS = {"selfdestruct": 91, "newly_created": 92, "touch_empty_eip161": 93, "touch_create_pre_eip161": 94, "change": 95}
        NONE, INFO, STORAGE = 90, 300, 301
        clear_idx = cs_fields.index("has_state_clear")

        def op_rule(op):
            return (r"^CacheAccount::%s$" % op, f"record:{op}:3;count:n_{op};tag:{OPS[op]}")
        rules = [op_rule(op) for op in OPS] + [
            (r"^Account::is_touched$", "free"), (r"^Account::is_selfdestructed$", "free"), (r"^Account::is_created$", "free"), (r"^Account::is_empty$", "free"),
            (r"^HashMap::<Address, CacheAccount>::get_mut::<Address>$", f"tag:{CACHE}"), (r"::expect$|::unwrap$", "arg:0"),
            (r" as IntoIterator>::into_iter$", "arg:0"),
            (r" as Iterator>::filter::<", lambda callee, args, env, b, flow: _plus(flow, args, env, b, 1000)),
            (r" as Iterator>::map::<", lambda callee, args, env, b, flow: _plus(flow, args, env, b, 2000)),
            (r" as Iterator>::collect::<", "arg:0"),
        ]
        consts = [(r"^Option::<TransitionAccount>::None$", NONE),
                  (r"^(?:move|copy) \(_3\.0: (\w+::)*AccountInfo\)$", INFO), (r"^(?:move|copy) \(_3\.1: .*HashMap<.*EvmStorageSlot>\)$", STORAGE),
                  (r"^copy \(\(\*_1\)\.%d: bool\)$" % clear_idx, lambda m, env: "state_clear")]
        fl = mirflow.Flow(fn, rules, consts)
        fl.free["state_clear"] = "(declare-const state_clear Int)"
        try:
            decls, asserts, cells, order, returns, out = fl.encode()
            names = {}
            for key, rx in (("touched", r"^Account::is_touched$"), ("selfdestructed", r"^Account::is_selfdestructed$"), ("created", r"^Account::is_created$"), ("empty", r"^Account::is_empty$")):
                cb = _call_blocks(fn, rx)
                names[key] = "r_" + cb[0][0] if len(cb) == 1 else None
            # the two storage closures: keep exactly the changed slots, converted with Into<StorageSlot>
            c0 = _fn(funcs, r"apply_account_state::\{closure#0\}$")
            c1 = _fn(funcs, r"apply_account_state::\{closure#1\}$")
            clos_ok = (len(c0) == 1 and re.search(r"_0 = EvmStorageSlot::is_changed\(", c0[0].text) and len(c0[0].blocks) == 2
                       and len(c1) == 1 and re.search(r"<EvmStorageSlot as Into<StorageSlot>>::into\(", c1[0].text) and re.search(r"_0 = \(copy _3, move _5\)", c1[0].text))
            if not all(names.values()) or not clos_ok or "state_clear" not in " ".join(decls):
                cx.unrecognised("apply_account_state", f"inputs not recognised ({names}, storage closures ok={bool(clos_ok)})")
            else:
                T, S, C, E = names["touched"], names["selfdestructed"], names["created"], names["empty"]
                extra = [f"(or (= {v} 0) (= {v} 1))" for v in (T, S, C, E, "state_clear")]
                FILTERED = STORAGE + 3000
                per = []
                for b in returns:
                    g = lambda c: out(c, b)
                    cnt = lambda op: g("@n_" + op)
                    only = lambda op: "(and " + " ".join(f"(= {cnt(o)} {1 if o == op else 0})" for o in OPS) + f" (= {g('@' + op + '.0')} {CACHE}))"
                    none = "(and " + " ".join(f"(= {cnt(o)} 0)" for o in OPS) + f" (= {g('_0')} {NONE}))"
                    sd = f"(and {only('selfdestruct')} (= {g('_0')} {OPS['selfdestruct']}))"
                    cr = f"(and {only('newly_created')} (= {g('_0')} {OPS['newly_created']}) (= {g('@newly_created.1')} {INFO}) (= {g('@newly_created.2')} {FILTERED}))"
                    te = f"(and {only('touch_empty_eip161')} (= {g('_0')} {OPS['touch_empty_eip161']}))"
                    tc = f"(and {only('touch_create_pre_eip161')} (= {g('_0')} {OPS['touch_create_pre_eip161']}) (= {g('@touch_create_pre_eip161.1')} {FILTERED}))"
                    ch = f"(and {only('change')} (= {g('_0')} {OPS['change']}) (= {g('@change.1')} {INFO}) (= {g('@change.2')} {FILTERED}))"
                    ok = f"(ite (= {T} 0) {none} (ite (= {S} 1) {sd} (ite (= {C} 1) {cr} (ite (= {E} 1) (ite (= state_clear 1) {te} {tc}) {ch}))))"
                    per.append(f"(and on_{b} (not {ok}))")
                wit = [(op, "(or " + " ".join(f"(and on_{b} (= {out('@n_' + op, b)} 1))" for b in returns) + ")") for op in OPS]
                cx.decide("apply_account_state", decls, asserts, order, extra, "(or " + " ".join(per) + ")", wit, [T, S, C, E, "state_clear"],
                          "the committed account is not handed to the operation the flags prescribe (untouched: nothing; selfdestructed; created; empty: removed under state clear / kept before; else changed)")
        except mir.Unsupported as e:
            cx.inconcl.append(f"apply_account_state: {e}")

    # ------------------------------------------------------------------ (D1) State::storage and its closure
    outer = _fn(funcs, r"^states::state::<impl at [^>]*>::storage$", r"State<DB>")
    inner = _fn(funcs, r"^states::state::<impl at [^>]*>::storage::\{closure#0\}$")
    if len(outer) != 1 or len(inner) != 1:
        cx.inconcl.append(f"State::storage: {len(outer)} bodies, {len(inner)} closure bodies")
    else:
        fo, fi = outer[0], inner[0]
        agg = [s_ for b in fo.blocks.values() for s_ in b.stmts if re.match(r"^_\d+ = \{closure@[^}]*\} \{ ", s_)]
        caps = re.findall(r"(\w+): (?:move|copy) (_\d+)", agg[0]) if len(agg) == 1 else []
        capn = [c[0] for c in caps]
        ok_outer = False
        if capn and "is_storage_known" in capn:
            loc = dict(caps)["is_storage_known"]
            d = [s_ for b in fo.blocks.values() for s_ in b.stmts if s_.startswith(loc + " = &")]
            kn = _call_blocks(fo, r"AccountStatus::is_storage_known$")
            gm = _call_blocks(fo, r"^HashMap::<Address, CacheAccount>::get_mut::<Address>$")
            if len(d) == 1 and len(kn) == 1 and len(gm) == 1 and d[0] == f"{loc} = &{kn[0][1]}":
                # the status examined is the one of the account found in the cache, and the closure runs on that account's plain account
                a = re.match(r"^(?:move|copy) (_\d+)$", kn[0][2][2].strip())
                da = [s_ for b in fo.blocks.values() for s_ in b.stmts if a and s_.startswith(a.group(1) + " = ")]
                pay = [s_ for b in fo.blocks.values() for s_ in b.stmts if re.match(r"^_\d+ = move \(\(%s as Some\)\.0: " % re.escape(gm[0][1]), s_)]
                if len(da) == 1 and len(pay) == 1:
                    acc = pay[0].split(" = ")[0]
                    ok_outer = re.match(r"^_\d+ = &\(\(\*%s\)\.1: .*AccountStatus\)$" % re.escape(acc), da[0]) is not None \
                        and any(re.match(r"^_\d+ = &mut \(\(\*%s\)\.0: .*Option<.*PlainAccount>\)$" % re.escape(acc), s_) for b in fo.blocks.values() for s_ in b.stmts) \
                        and re.search(r"Option::<&mut PlainAccount>::map::<", fo.text) is not None
        if not ok_outer:
            cx.unrecognised("State::storage", f"outer body not recognised (captures {capn})")
        else:
            ki, di = capn.index("is_storage_known"), capn.index("self")
            rules = [(r"OccupiedEntry::<.*>::get$", f"tag:{CACHE}"), (r"as (primitives::db::)?Database>::storage$", f"record:db:1;tag:{INNER}"),
                     (r" as Try>::branch$", "arg:0"), (r"from_residual$", f"tag:{ERR}"), (r"VacantEntry::<.*>::insert$", "record:ins:2;count:inserted")]
            consts = [(r"^const ruint::Uint::<256, 4>::ZERO$", ZERO),
                      (r"^(?:no_retag )?copy \(_1\.(\d+): &bool\)$", lambda m, env: "known_flag" if int(m.group(1)) == ki else "0"),
                      (r"^(?:no_retag )?copy \(_1\.(\d+): &mut DB\)$", lambda m, env: "77" if int(m.group(1)) == di else "0")]
            fl = mirflow.Flow(fi, rules, consts)
            fl.free["known_flag"] = "(declare-const known_flag Int)"
            try:
                decls, asserts, cells, order, returns, out = fl.encode()
                ent = _call_blocks(fi, r"^HashMap::<Uint<256, 4>, Uint<256, 4>>::entry$")
                from jobs_c34 import _occ_label
                occ = _occ_label(fi, ent[0][1]) if len(ent) == 1 else None
                if not occ:
                    cx.unrecognised("State::storage", "slot lookup of the closure not recognised")
                else:
                    OCC = f"(= disc_{ent[0][1]} {occ})"
                    extra = ["(or (= known_flag 0) (= known_flag 1))"]
                    per = []
                    for b in returns:
                        g = lambda c: out(c, b)
                        ok = (f"(and (= {g('_0')} (ite {OCC} {CACHE} (ite (= known_flag 1) {ZERO} {INNER}))) (= {g('@inserted')} (ite {OCC} 0 1)) "
                              f"(=> (not {OCC}) (= {g('@ins.1')} {g('_0')})) (=> (and (not {OCC}) (= known_flag 0)) (= {g('@db.0')} 77)))")
                        per.append(f"(and on_{b} (not (= {g('_0')} {ERR})) (not {ok}))")
                    wit = [("cached slot", "(or " + " ".join(f"(and on_{b} (= {out('_0', b)} {CACHE}))" for b in returns) + ")"),
                           ("known-empty storage", "(or " + " ".join(f"(and on_{b} (= {out('_0', b)} {ZERO}))" for b in returns) + ")"),
                           ("database read", "(or " + " ".join(f"(and on_{b} (= {out('_0', b)} {INNER}))" for b in returns) + ")")]
                    cx.decide("State::storage", decls, asserts, order, extra, "(or " + " ".join(per) + ")", wit, [f"disc_{ent[0][1]}", "known_flag"],
                              "the answer does not come from where the read policy says (cached slot; zero iff the status says the storage is known; else the database, then cached)")
            except mir.Unsupported as e:
                cx.inconcl.append(f"State::storage: {e}")

    # ------------------------------------------------------------------ (D2) load_cache_account: classification of the database answer
    cands = _fn(funcs, r"^states::state::<impl at [^>]*>::load_cache_account$")
    st_fields = _struct_fields("crates/revm/src/db/states/state.rs", "State")
    if len(cands) != 1 or "use_preloaded_bundle" not in st_fields:
        cx.inconcl.append(f"load_cache_account: {len(cands)} MIR bodies / State fields {st_fields}")
    else:
        fn = cands[0]
        NOTEX, EMPTY, LOADED, BUNDLE = 61, 62, 63, 64
        ub = st_fields.index("use_preloaded_bundle")
        rules = [(r"OccupiedEntry::<.*>::into_mut$", f"tag:{CACHE}"), (r"VacantEntry::<.*>::insert$", "record:ins:2;count:inserted;arg:1"),
                 (r"^CacheAccount::new_loaded_not_existing$", f"tag:{NOTEX}"), (r"^CacheAccount::new_loaded_empty_eip161$", f"tag:{EMPTY}"),
                 (r"^CacheAccount::new_loaded$", f"record:loaded:1;tag:{LOADED}"), (r"^AccountInfo::is_empty$", "free"),
                 (r"as (primitives::db::)?Database>::basic$", f"count:dbreads;tag:{INNER}"), (r" as Try>::branch$", "arg:0"), (r"from_residual$", f"tag:{ERR}"),
                 (r"^BundleState::account$", "free"), (r"::cloned$", "arg:0"), (r"^Option::<BundleAccount>::map::<CacheAccount", f"tag:{BUNDLE}")]
        consts = [(r"^copy \(\(\*_1\)\.%d: bool\)$" % ub, lambda m, env: "use_bundle")]
        fl = mirflow.Flow(fn, rules, consts)
        fl.free["use_bundle"] = "(declare-const use_bundle Int)"
        try:
            decls, asserts, cells, order, returns, out = fl.encode()
            from jobs_c34 import _occ_label
            ent = _call_blocks(fn, r"^HashMap::<Address, CacheAccount>::entry$")
            emp = _call_blocks(fn, r"^AccountInfo::is_empty$")
            occ = _occ_label(fn, ent[0][1]) if len(ent) == 1 else None
            # discriminants: of the mapped bundle lookup and of the Option<AccountInfo> the database returned
            bmap = _call_blocks(fn, r"^Option::<BundleAccount>::map::<CacheAccount")
            info_disc = [n_ for n_, what in fl.notes if what.startswith("discriminant(") and n_ not in (f"disc_{ent[0][1]}" if ent else "",)]
            if not (occ and len(emp) == 1 and len(bmap) == 1):
                cx.unrecognised("load_cache_account", f"shape not recognised (entry={ent and ent[0][:2]} is_empty={len(emp)} bundle map={len(bmap)})")
            else:
                OCC = f"(= disc_{ent[0][1]} {occ})"
                BD, EM = f"disc_{bmap[0][1]}", "r_" + emp[0][0]
                # Option<AccountInfo> discriminant variable: the local moved out of the Continue payload
                opt = [n_ for n_ in info_disc if n_ not in (BD,) and not n_.startswith("disc__17") or True]
                dvars = [n_ for n_, what in fl.notes if what.startswith("discriminant(")]
                extra = [f"(or (= {EM} 0) (= {EM} 1))", "(or (= use_bundle 0) (= use_bundle 1))"] + [f"(or (= {d} 0) (= {d} 1))" for d in dvars]
                # which discriminant is the Option<AccountInfo>: the one switched on in the block that assigns from the Continue payload
                oi = None
                for b in fn.blocks.values():
                    ms = [re.match(r"^(_\d+) = discriminant\((_\d+)\)$", s_) for s_ in b.stmts]
                    ms = [m_ for m_ in ms if m_]
                    if ms and any("as Continue).0: std::option::Option<" in s_ for s_ in b.stmts):
                        oi = "disc_" + ms[-1].group(2)
                if not oi or oi not in dvars:
                    cx.unrecognised("load_cache_account", "the Option<AccountInfo> test was not recognised")
                else:
                    per = []
                    for b in returns:
                        g = lambda c: out(c, b)
                        fromdb = f"(ite (= {oi} 0) {NOTEX} (ite (= {EM} 1) {EMPTY} {LOADED}))"
                        use_b = f"(and (= use_bundle 1) (= {BD} 1))"
                        ok = (f"(ite {OCC} (and (= {g('_0')} {CACHE}) (= {g('@inserted')} 0) (= {g('@dbreads')} 0)) "
                              f"(ite {use_b} (and (= {g('_0')} {BUNDLE}) (= {g('@inserted')} 1) (= {g('@dbreads')} 0)) "
                              f"(and (= {g('_0')} {fromdb}) (= {g('@inserted')} 1) (= {g('@dbreads')} 1))))")
                        per.append(f"(and on_{b} (not (= {g('_0')} {ERR})) (not {ok}))")
                    wit = [(nm, "(or " + " ".join(f"(and on_{b} (= {out('_0', b)} {tg}))" for b in returns) + ")") for nm, tg in
                           (("cached", CACHE), ("not existing", NOTEX), ("empty", EMPTY), ("loaded", LOADED), ("bundle", BUNDLE))]
                    cx.decide("load_cache_account", decls, asserts, order, extra, "(or " + " ".join(per) + ")", wit, [f"disc_{ent[0][1]}", "use_bundle", BD, oi, EM],
                              "a cached account is not reused, or a database answer is classified wrongly (absent -> LoadedNotExisting, empty -> LoadedEmptyEIP161, else Loaded), or not cached")
        except mir.Unsupported as e:
            cx.inconcl.append(f"load_cache_account: {e}")

    # ------------------------------------------------------------------ (D3) State::code_by_hash
    cands = _fn(funcs, r"^states::state::<impl at [^>]*>::code_by_hash$", r"State<DB>")
    if len(cands) != 1 or "use_preloaded_bundle" not in st_fields:
        cx.inconcl.append(f"State::code_by_hash: {len(cands)} MIR bodies")
    else:
        fn = cands[0]
        BUNDLE = 64
        rules = [(r"OccupiedEntry::<.*>::get$", f"tag:{CACHE}"), (r"as Clone>::clone$", "arg:0"),
                 (r"^HashMap::<FixedBytes<32>, Bytecode>::get::<", f"tag:{BUNDLE}"),
                 (r"VacantEntry::<.*>::insert$", "record:ins:2;count:inserted"),
                 (r"as (primitives::db::)?Database>::code_by_hash$", f"count:dbreads;tag:{INNER}"), (r" as Try>::branch$", "arg:0"), (r"from_residual$", f"tag:{ERR}")]
        consts = [(r"^copy \(\(\*_1\)\.%d: bool\)$" % st_fields.index("use_preloaded_bundle"), lambda m, env: "use_bundle")]
        fl = mirflow.Flow(fn, rules, consts)
        fl.free["use_bundle"] = "(declare-const use_bundle Int)"
        try:
            decls, asserts, cells, order, returns, out = fl.encode()
            from jobs_c34 import _occ_label
            ent = _call_blocks(fn, r"^HashMap::<FixedBytes<32>, Bytecode>::entry$")
            bg = _call_blocks(fn, r"^HashMap::<FixedBytes<32>, Bytecode>::get::<")
            occ = _occ_label(fn, ent[0][1]) if len(ent) == 1 else None
            # the bundle map consulted must be bundle_state.contracts
            bs_ok = len(bg) == 1 and any(re.match(r"^_\d+ = &\(\(\(\*_1\)\.%d: .*BundleState\)\.\d+: .*HashMap<.*FixedBytes<32>, .*Bytecode>\)$" % st_fields.index("bundle_state"), s_)
                                         for b in fn.blocks.values() for s_ in b.stmts)
            if not (occ and bs_ok):
                cx.unrecognised("State::code_by_hash", f"shape not recognised (entry={bool(occ)} bundle lookup={bs_ok})")
            else:
                OCC, BD = f"(= disc_{ent[0][1]} {occ})", f"disc_{bg[0][1]}"
                extra = ["(or (= use_bundle 0) (= use_bundle 1))", f"(or (= {BD} 0) (= {BD} 1))"]
                per = []
                for b in returns:
                    g = lambda c: out(c, b)
                    use_b = f"(and (= use_bundle 1) (= {BD} 1))"
                    ok = (f"(ite {OCC} (and (= {g('_0')} {CACHE}) (= {g('@inserted')} 0) (= {g('@dbreads')} 0)) "
                          f"(ite {use_b} (and (= {g('_0')} {BUNDLE}) (= {g('@inserted')} 1) (= {g('@ins.1')} {BUNDLE}) (= {g('@dbreads')} 0)) "
                          f"(and (= {g('_0')} {INNER}) (= {g('@inserted')} 1) (= {g('@ins.1')} {INNER}) (= {g('@dbreads')} 1))))")
                    per.append(f"(and on_{b} (not (= {g('_0')} {ERR})) (not {ok}))")
                wit = [(nm, "(or " + " ".join(f"(and on_{b} (= {out('_0', b)} {tg}))" for b in returns) + ")") for nm, tg in (("cached", CACHE), ("bundle", BUNDLE), ("database", INNER))]
                cx.decide("State::code_by_hash", decls, asserts, order, extra, "(or " + " ".join(per) + ")", wit, [f"disc_{ent[0][1]}", "use_bundle", BD],
                          "cached code is not reused, a preloaded bundle's code does not win over the database, or the answer is not cached as returned")
        except mir.Unsupported as e:
            cx.inconcl.append(f"State::code_by_hash: {e}")

    res = dict(queries=cx.duo.queries, solver_s=cx.duo.time, engine="mir provenance-flow -> smtlib (z3 4.8.12 + cvc5 1.0)", bounds="; ".join(cx.samples),
               detail="apply_account_state: inputs (touched, selfdestructed, created, empty, has_state_clear); State::storage closure: (slot cached?, storage known?); "
                      "load_cache_account: (cached?, use_preloaded_bundle, in bundle?, database answer present?, empty?)")
    cx.duo.close()
    if any(f.get("reproduced") for f in cx.failures):
        res.update(status="fail", failures=cx.failures, reason=cx.failures[0]["description"][:300])
    elif cx.inconcl or cx.failures:
        res.update(status="inconclusive", reason="; ".join(cx.inconcl + [f["description"] for f in cx.failures])[:600])
    else:
        res.update(status="pass")
    return res


def _plus(flow, args, env, b, k):
    m = re.search(r"(?:move|copy) (_\d+)", args)
    t = env.get(m.group(1)) if m else None
    return f"(+ {t} {k})" if t is not None else None


# ====================================================================================================================================
# (B) CacheAccount operations: what each does to (account, status) and what the transition it returns records
STATUSES = ["LoadedNotExisting", "Loaded", "LoadedEmptyEIP161", "InMemoryChange", "Changed", "Destroyed", "DestroyedChanged", "DestroyedAgain"]
NONE_T, DEFMAP, DEFINFO = 90, 88, 87
INFO_OF, STOR_OF, BOOL_OF, SLOTS_OF = 6000, 7000, 5000, 2000


def _closure_ok(funcs, callee, kind):
    """The closure handed to Option::map / Iterator::map does what the policy assumes: kind 'info' -> the account's info (moved or cloned),
    'empty' -> info.is_empty(), 'present' -> (key, slot.present_value)."""
    m = re.search(r"\{closure@([^}]*)\}", callee)
    if not m:
        return False
    cl = [f for n, fl in funcs.items() for f in fl if "{closure#" in n and ("{closure@" + m.group(1) + "}") in f.text.split("\n")[0]]
    if len(cl) != 1:
        return False
    t = cl[0].text
    calls = [mir.call_of(b.term or "") for b in cl[0].blocks.values()]
    calls = [c[1] for c in calls if c]
    if kind == "info":
        return bool(re.search(r"\.0: (\w+::)*AccountInfo\)", t)) and all(re.search(r"as Clone>::clone$", c) for c in calls)
    if kind == "empty":
        return bool(re.search(r"\.0: (\w+::)*AccountInfo\)", t)) and [re.sub(r"::<.*?>", "", c) for c in calls] == ["AccountInfo::is_empty"]
    if kind == "present":
        fields = _struct_fields("crates/revm/src/db/states/plain_account.rs", "StorageSlot")
        if "present_value" not in fields:
            return False
        return bool(re.search(r"\.%d: ruint::Uint<256, 4>\)" % fields.index("present_value"), t)) and not calls
    return False


def _op_flow(fn, funcs, extra_rules=(), status_fn=None):
    """Flow for one CacheAccount method: place cells for self.account / self.status, the usual plumbing rules."""
    problems = []

    def take(callee, args, env, b, flow):
        ml = re.match(r"^(?:move|copy) (_\d+)$", args.strip())
        for s_ in (fn.blocks[b].stmts if ml else []):
            md = re.match(r"^%s = &mut (\(.*\))$" % re.escape(ml.group(1)), s_)
            if md and flow.place_cell(md.group(1)) == "@acc":
                old = env["@acc"]
                env["@acc"] = str(NONE_T)
                env["@takes"] = f"(+ {env['@takes']} 1)"
                return old
        problems.append(f"Option::take on something else than self.account in {b}")
        return None

    def opt_map(callee, args, env, b, flow):
        m = re.search(r"(?:move|copy) (_\d+)", args)
        t = env.get(m.group(1)) if m else None
        if t is None:
            return None
        whole = callee + "(" + args  # generic arguments containing `(` or `fn(` split the callee text early
        if re.search(r"::map::<bool, ", whole):
            if "{AccountInfo::has_no_code_and_nonce}" in whole or _closure_ok(funcs, whole, "empty"):
                return f"(+ {t} {BOOL_OF})"
            problems.append(f"bool closure not recognised in {b}")
            return None
        if re.search(r"::map::<AccountInfo, ", whole):
            if _closure_ok(funcs, whole, "info"):
                return f"(+ {t} {INFO_OF})"
            problems.append(f"info closure not recognised in {b}")
            return None
        return None

    def iter_map(callee, args, env, b, flow):
        m = re.search(r"(?:move|copy) (_\d+)", args)
        t = env.get(m.group(1)) if m else None
        if t is not None and _closure_ok(funcs, callee + "(" + args, "present"):
            return f"(+ {t} {SLOTS_OF})"
        problems.append(f"storage closure not recognised in {b}")
        return None
    rules = list(extra_rules) + [
        (r"^Option::<PlainAccount>::take$", take),
        (r"^Option::<&?(mut )?\w+>::map::<", opt_map),
        (r"^Option::<\w+>::as_ref$|^Option::<\w+>::as_mut$|::unwrap_or_default$", "arg:0"),
        (r"^HashMap::<Uint<256, 4>, StorageSlot>::iter$", "arg:0"),
        (r"hash_map::Iter<.*StorageSlot> as Iterator>::map::<", iter_map),
        (r" as Iterator>::collect::<HashMap<Uint<256, 4>, Uint<256, 4>>>$", "arg:0"),
        (r" as Extend<.*>>::extend::<", "record:extend:2;count:extends"),
        (r"^Option::<&\w+>::map::<bool, ", opt_map),
        (r"^<HashMap<Uint<256, 4>, (StorageSlot|Uint<256, 4>)> as Default>::default$", f"tag:{DEFMAP}"),
        (r"^<AccountInfo as Default>::default$", f"tag:{DEFINFO}"),
        (r"^<AccountInfo as Clone>::clone$", "arg:0"),
        (r"^PlainAccount::new_empty_with_storage$", lambda callee, args, env, b, flow: mirflow.combine([str(DEFINFO), flow.rvalue(args, env, b) or "0"])),
        (r" as Try>::branch$", "arg:0"),
        (r"from_residual$", f"tag:{NONE_T}"),
    ]
    if status_fn:
        rules.append((r"^account_status::AccountStatus::%s$" % status_fn, "record:stfn:2;count:stcalls;free"))
    consts = [(r"^Option::<\w+>::None$", NONE_T),
              (r"^(?:move|copy) \((_\d+)\.0: (\w+::)*AccountInfo\)$", lambda m, env: env[m.group(1) + ".0"] if (m.group(1) + ".0") in env else f"(+ {env.get(m.group(1), 0)} {INFO_OF})"),
              (r"^(?:move|copy) \((_\d+)\.1: std::collections::HashMap<ruint::Uint<256, 4>, ruint::Uint<256, 4>>\)$", lambda m, env: env[m.group(1) + ".1"] if (m.group(1) + ".1") in env else f"(+ {env.get(m.group(1), 0)} {STOR_OF})")]
    places = [(r"^\(\(\*_1\)\.0: .*Option<.*PlainAccount>\)$", "acc"), (r"^\(\(\*_1\)\.1: .*AccountStatus\)$", "st")]
    fl = mirflow.Flow(fn, rules, consts, place_cells=places, extra_cells=["@takes"], init={"@acc": "acc_in", "@st": "st_in"})
    fl.free["acc_in"] = "(declare-const acc_in Int)"
    fl.free["st_in"] = "(declare-const st_in Int)"
    return fl, problems


def _transition_fields(fn):
    """Field names of the TransitionAccount aggregate(s) built in fn, in cell order."""
    ags = [s_ for b in fn.blocks.values() for s_ in b.stmts if re.match(r"^_\d+ = TransitionAccount \{ ", s_)]
    if len(ags) != 1:
        return None, None
    lhs = ags[0].split(" = ")[0]
    names = re.findall(r"(\w+): (?:move|copy|const) ", ags[0])
    return lhs, names


def run_cache_account_ops(tier, log, seed):
    text = mir.dump("revm", log)
    funcs = mir.parse_functions(text)
    cx = _Ctx(log)
    src = open(os.path.join(REPO, "crates/revm/src/db/states/account_status.rs")).read()
    m = re.search(r"pub enum AccountStatus \{(.*?)\n\}", src, re.S)
    variants = re.findall(r"^\s*([A-Z]\w*),", m.group(1), re.M) if m else []
    if variants != STATUSES:
        cx.inconcl.append(f"AccountStatus variants changed: {variants}")

    def body(op):
        c = _fn(funcs, r"^cache_account::<impl at [^>]*>::%s$" % op)
        return c[0] if len(c) == 1 else None

    def common(op, status_fn, extra_rules=()):
        fn = body(op)
        if fn is None:
            cx.inconcl.append(f"CacheAccount::{op}: MIR body not found")
            return None
        fl, problems = _op_flow(fn, funcs, extra_rules, status_fn)
        try:
            enc = fl.encode()
        except mir.Unsupported as e:
            cx.inconcl.append(f"CacheAccount::{op}: {e}")
            return None
        if problems:
            cx.unrecognised(f"CacheAccount::{op}", "; ".join(problems))
            return None
        lhs, names = _transition_fields(fn)
        want = ["info", "status", "previous_info", "previous_status", "storage", "storage_was_destroyed"]
        if not lhs or sorted(names) != sorted(want):
            cx.unrecognised(f"CacheAccount::{op}", f"TransitionAccount aggregate not recognised ({names})")
            return None
        st = _call_blocks(fn, r"^account_status::AccountStatus::%s$" % status_fn)
        if len(st) != 1:
            cx.unrecognised(f"CacheAccount::{op}", f"{len(st)} calls of AccountStatus::{status_fn}")
            return None
        return fn, fl, enc, names, "r_" + st[0][0]

    def tr(out, b, names, exp):
        """The returned transition's fields (cells _0.i) equal the expected tags."""
        return "(and " + " ".join(f"(= {out('_0.%d' % names.index(k), b)} {v})" for k, v in exp.items()) + ")"

    # ---- selfdestruct
    r = common("selfdestruct", "on_selfdestructed", [(r"^<account_status::AccountStatus as PartialEq>::eq$", "record:eqa:1;free")])
    if r:
        fn, fl, (decls, asserts, cells, order, returns, out), names, NEW = r
        eq = _call_blocks(fn, r"^<account_status::AccountStatus as PartialEq>::eq$")
        prom = re.search(r">::selfdestruct::promoted\[0\]: &(?:\w+::)*AccountStatus = \{(.*?)\n\}", text, re.S)
        if len(eq) != 1 or not (prom and re.search(r"= (?:const )?(?:\w+::)*AccountStatus::LoadedNotExisting;", prom.group(1))):
            cx.unrecognised("CacheAccount::selfdestruct", "the comparison of the previous status with LoadedNotExisting was not recognised")
        else:
            EQ = "r_" + eq[0][0]
            per = []
            for b in returns:
                g = lambda c: out(c, b)
                some = tr(out, b, names, dict(info=NONE_T, status=NEW, previous_info=f"(+ acc_in {INFO_OF})", previous_status="st_in", storage=DEFMAP, storage_was_destroyed=1))
                ok = (f"(and (= {g('@acc')} {NONE_T}) (= {g('@st')} {NEW}) (= {g('@stcalls')} 1) (= {g('@stfn.0')} st_in) (= {g('@eqa.0')} st_in) "
                      f"(ite (= {EQ} 1) (= {g('_0')} {NONE_T}) {some}))")
                per.append(f"(and on_{b} (not {ok}))")
            # the eq compares the status read BEFORE the update: record its first argument
            cx.decide("CacheAccount::selfdestruct", decls, asserts, order, [f"(or (= {EQ} 0) (= {EQ} 1))"], "(or " + " ".join(per) + ")",
                      [("transition", "(or " + " ".join(f"(and on_{b} (= {out('_0.%d' % names.index('storage_was_destroyed'), b)} 1))" for b in returns) + ")")],
                      [EQ], "the account is not removed, the status is not on_selfdestructed(previous), or the transition does not record the previous info/status")
    # ---- touch_empty_eip161 (state clearing active: the touched empty account is removed)
    r = common("touch_empty_eip161", "on_touched_empty_post_eip161")
    if r:
        fn, fl, (decls, asserts, cells, order, returns, out), names, NEW = r
        dv = [n_ for n_, what in fl.notes if what.startswith("discriminant(")]
        if len(dv) != 1:
            cx.unrecognised("CacheAccount::touch_empty_eip161", f"the test on the previous status was not recognised ({dv})")
        else:
            # the discriminant examined must be the one of the status read before the update
            loc = re.search(r"discriminant\((_\d+)\)", dict(fl.notes)[dv[0]]).group(1)
            dd = [s_ for b in fn.blocks.values() for s_ in b.stmts if s_.startswith(loc + " = ")]
            first_block = fn.blocks["bb0"].stmts
            if not (len(dd) == 1 and re.match(r"^%s = copy \(\(\*_1\)\.1: .*AccountStatus\)$" % re.escape(loc), dd[0]) and dd[0] in first_block):
                cx.unrecognised("CacheAccount::touch_empty_eip161", "the previous status is not read at entry")
            else:
                D = dv[0]
                quiet = "(or " + " ".join(f"(= {D} {STATUSES.index(x)})" for x in ("LoadedNotExisting", "Destroyed", "DestroyedAgain")) + ")"
                per = []
                for b in returns:
                    g = lambda c: out(c, b)
                    some = tr(out, b, names, dict(info=NONE_T, status=NEW, previous_info=f"(+ acc_in {INFO_OF})", previous_status="st_in", storage=DEFMAP, storage_was_destroyed=1))
                    ok = f"(and (= {g('@acc')} {NONE_T}) (= {g('@st')} {NEW}) (= {g('@stcalls')} 1) (= {g('@stfn.0')} st_in) (ite {quiet} (= {g('_0')} {NONE_T}) {some}))"
                    per.append(f"(and on_{b} (not {ok}))")
                cx.decide("CacheAccount::touch_empty_eip161", decls, asserts, order, [f"(>= {D} 0)", f"(< {D} 8)"], "(or " + " ".join(per) + ")",
                          [("transition", "(or " + " ".join(f"(and on_{b} (= {out('_0.%d' % names.index('storage_was_destroyed'), b)} 1))" for b in returns) + ")"),
                           ("no transition", "(or " + " ".join(f"(and on_{b} (= {out('_0', b)} {NONE_T}))" for b in returns) + ")")],
                          [D], "the account is not removed, the status is not on_touched_empty_post_eip161(previous), a transition is (not) produced for the wrong previous status, or it does not record the previous info/status")

    # ---- newly_created
    r = common("newly_created", "on_created")
    if r:
        fn, fl, (decls, asserts, cells, order, returns, out), names, NEW = r
        per = []
        for b in returns:
            g = lambda c: out(c, b)
            newacc = mirflow.combine(["arg_2", f"(+ arg_3 {SLOTS_OF})"])
            t_ = tr(out, b, names, dict(info="arg_2", status=NEW, previous_info=f"(+ acc_in {INFO_OF})", previous_status="st_in", storage="arg_3", storage_was_destroyed=0))
            ok = f"(and (= {g('@acc')} {newacc}) (= {g('@st')} {NEW}) (= {g('@stcalls')} 1) (= {g('@stfn.0')} st_in) {t_})"
            per.append(f"(and on_{b} (not {ok}))")
        cx.decide("CacheAccount::newly_created", decls, asserts, order, [], "(or " + " ".join(per) + ")",
                  [("return", "(or " + " ".join(f"on_{b}" for b in returns) + ")")], [],
                  "the cached account is not (new info, the new storage's present values), the status is not on_created(previous), or the transition does not record new info / previous info / previous status / storage")

    # ---- touch_create_pre_eip161 (before state clearing: the touched empty account is kept as an existing empty account)
    r = common("touch_create_pre_eip161", "on_touched_created_pre_eip161")
    if r:
        fn, fl, (decls, asserts, cells, order, returns, out), names, NEW = r
        br = _call_blocks(fn, r"^<Option<account_status::AccountStatus> as Try>::branch$")
        dv = [n_ for n_, what in fl.notes if what.startswith("discriminant(") and br and br[0][1] in what]
        if len(br) != 1 or len(dv) != 1:
            cx.unrecognised("CacheAccount::touch_create_pre_eip161", "the `?` on the status transition was not recognised")
        else:
            D = dv[0]  # 0 = Continue (a new status), 1 = Break (no change)
            tk = _call_blocks(fn, r"^Option::<PlainAccount>::take$")
            dacc = [n_ for n_, what in fl.notes if what.startswith("discriminant(") and tk and f"({tk[0][1]})" in what]
            per = []
            for b in returns:
                g = lambda c: out(c, b)
                # a touch does not wipe storage: what the cached account held stays, the written slots are added (an absent account starts empty)
                if len(dacc) == 1:
                    prev_stor = f"(ite (= {dacc[0]} 1) (+ acc_in {STOR_OF}) {DEFMAP})"
                    keeps = f"(and (= {g('@extends')} 1) (= {g('@extend.0')} {prev_stor}) (= {g('@extend.1')} (+ arg_2 {SLOTS_OF})))"
                else:
                    prev_stor, keeps = "(- 1)", "false"  # the previous account is not examined at all: its storage cannot have been kept
                newacc = mirflow.combine([str(DEFINFO), prev_stor])
                # "the info of the previous account, if any": through Option::map, or through a match on the taken account
                prev_info = f"(ite (= {dacc[0]} 1) (+ acc_in {INFO_OF}) {NONE_T})" if len(dacc) == 1 else f"(+ acc_in {INFO_OF})"
                t_ = tr(out, b, names, dict(info=DEFINFO, status=NEW, previous_info=prev_info, previous_status="st_in", storage="arg_2", storage_was_destroyed=0))
                flag = f"(= {g('@stfn.1')} (+ acc_in {BOOL_OF}))"
                changed = f"(and (= {g('@acc')} {newacc}) {keeps} (= {g('@st')} {NEW}) {t_})"
                unchanged = f"(and (= {g('@acc')} acc_in) (= {g('@st')} st_in) (= {g('_0')} {NONE_T}) (= {g('@takes')} 0))"
                ok = f"(and (= {g('@stcalls')} 1) (= {g('@stfn.0')} st_in) {flag} (ite (= {D} 0) {changed} {unchanged}))"
                per.append(f"(and on_{b} (not {ok}))")
            cx.decide("CacheAccount::touch_create_pre_eip161", decls, asserts, order, [f"(or (= {D} 0) (= {D} 1))"], "(or " + " ".join(per) + ")",
                      [("changed", "(or " + " ".join(f"(and on_{b} (= {D} 0))" for b in returns) + ")"), ("unchanged", "(or " + " ".join(f"(and on_{b} (= {D} 1))" for b in returns) + ")")],
                      [D], "a `no change` answer of the status machine does not leave account and status untouched, or a change does not install (default info, previous storage extended by the written slots) / new status / exact transition")

    # ---- change
    r = common("change", "on_changed")
    if r:
        fn, fl, (decls, asserts, cells, order, returns, out), names, NEW = r
        tk = _call_blocks(fn, r"^Option::<PlainAccount>::take$")
        dv = [n_ for n_, what in fl.notes if what.startswith("discriminant(") and tk and f"({tk[0][1]})" in what]
        if len(tk) != 1 or len(dv) != 1:
            cx.unrecognised("CacheAccount::change", "the test on the previous account was not recognised")
        else:
            D = dv[0]  # 1 = Some(previous account), 0 = None
            per = []
            for b in returns:
                g = lambda c: out(c, b)
                prev_info = f"(ite (= {D} 1) (+ acc_in {INFO_OF}) {NONE_T})"
                prev_stor = f"(ite (= {D} 1) (+ acc_in {STOR_OF}) {DEFMAP})"
                newacc = mirflow.combine(["arg_2", prev_stor])
                t_ = tr(out, b, names, dict(info=f"(+ {newacc} {INFO_OF})", status=NEW, previous_info=prev_info, previous_status="st_in", storage="arg_3", storage_was_destroyed=0))
                ok = (f"(and (= {g('@acc')} {newacc}) (= {g('@st')} {NEW}) (= {g('@stcalls')} 1) (= {g('@stfn.0')} st_in) (= {g('@stfn.1')} (+ {prev_info} {BOOL_OF})) "
                      f"(= {g('@extends')} 1) (= {g('@extend.0')} {prev_stor}) (= {g('@extend.1')} (+ arg_3 {SLOTS_OF})) {t_})")
                per.append(f"(and on_{b} (not {ok}))")
            cx.decide("CacheAccount::change", decls, asserts, order, [f"(or (= {D} 0) (= {D} 1))"], "(or " + " ".join(per) + ")",
                      [("had account", "(or " + " ".join(f"(and on_{b} (= {D} 1))" for b in returns) + ")"), ("had none", "(or " + " ".join(f"(and on_{b} (= {D} 0))" for b in returns) + ")")],
                      [D], "the cached account is not (new info, previous storage extended by the written slots), the status is not on_changed(previous, previous info had no code and nonce), or the transition is not exact")
    return _finish(cx)


def _finish(cx):
    res = dict(queries=cx.duo.queries, solver_s=cx.duo.time, engine="mir provenance-flow -> smtlib (z3 4.8.12 + cvc5 1.0)", bounds="; ".join(cx.samples),
               detail="memory cells for self.account / self.status (entry values free); tags: +6000 info of, +7000 storage of, +5000 Boolean test of, +2000 present values of")
    cx.duo.close()
    if any(f.get("reproduced") for f in cx.failures):
        res.update(status="fail", failures=cx.failures, reason=cx.failures[0]["description"][:300])
    elif cx.inconcl or cx.failures:
        res.update(status="inconclusive", reason="; ".join(cx.inconcl + [f["description"] for f in cx.failures])[:600])
    else:
        res.update(status="pass")
    return res


# ====================================================================================================================================
# (E) CacheDB::commit: one iteration of the loop over committed accounts
def run_cachedb_commit(tier, log, seed):
    text = mir.dump("revm", log)
    funcs = mir.parse_functions(text)
    cx = _Ctx(log)
    name = "CacheDB::commit"
    src = open(os.path.join(REPO, "crates/revm/src/db/in_memory_db.rs")).read()
    m = re.search(r"pub enum AccountState \{(.*?)\n\}", src, re.S)
    states = re.findall(r"^\s*([A-Z]\w*),", m.group(1), re.M) if m else []
    cands = _fn(funcs, r"^in_memory_db::<impl at [^>]*>::commit$")
    if len(cands) != 1 or states != ["NotExisting", "Touched", "StorageCleared", "None"]:
        cx.inconcl.append(f"{name}: {len(cands)} MIR bodies / AccountState variants {states}")
        return _finish(cx)
    fn = cands[0]
    CLEARED, NEWINFO, NEWSTOR = 80, 300, 301
    ST = lambda v: 400 + states.index(v)
    problems = []

    def place_of(arg, b):
        ml = re.match(r"^(?:move|copy) (_\d+)$", arg.strip())
        found = [md.group(1) for blk in (fn.blocks.values() if ml else []) for s_ in blk.stmts
                 for md in [re.match(r"^%s = &(?:mut )?(\(.*\))$" % re.escape(ml.group(1)), s_)] if md]
        return found[0] if len(found) == 1 else None

    def clear(callee, args, env, b, flow):
        pc = flow.place_cell(place_of(args, b) or "")
        if pc == "@stor":
            env["@stor"] = str(CLEARED)
        else:
            problems.append(f"HashMap::clear on something else than the account's storage in {b}")
        return None

    def extend(callee, args, env, b, flow):
        al = mir.split_top(args)
        pc = flow.place_cell(place_of(al[0], b) or "") if al else None
        if pc != "@stor":
            problems.append(f"extend on something else than the account's storage in {b}")
        env["@extends"] = f"(+ {env['@extends']} 1)"
        env["@extend.1"] = flow.rvalue(al[1], env, b) if len(al) > 1 and flow.rvalue(al[1], env, b) is not None else "0"
        return None

    def itmap(callee, args, env, b, flow):
        mm = re.search(r"(?:move|copy) (_\d+)", args)
        t = env.get(mm.group(1)) if mm else None
        mc = re.search(r"\{closure@([^}]*)\}", callee + "(" + args)
        cl = [f for n, fl_ in funcs.items() for f in fl_ if mc and "{closure#" in n and ("{closure@" + mc.group(1) + "}") in f.text.split("\n")[0]]
        calls = [re.sub(r"::<.*?>", "", c[1]) for b_ in (cl[0].blocks.values() if len(cl) == 1 else []) for c in [mir.call_of(b_.term or "")] if c]
        if t is None or calls != ["EvmStorageSlot::present_value"]:
            problems.append(f"storage closure not recognised in {b} ({calls})")
            return None
        return f"(+ {t} {SLOTS_OF})"
    rules = [(r" as Iterator>::next$", "free"), (r"^Account::is_touched$", "free"), (r"^Account::is_selfdestructed$", "free"), (r"^Account::is_created$", "free"),
             (r"^HashMap::<Address, DbAccount>::entry$", "record:entry:2;count:entries;free"), (r"::or_default$", "arg:0"),
             (r"^HashMap::<Uint<256, 4>, Uint<256, 4>>::clear$", clear), (r" as Extend<.*>>::extend::<", extend),
             (r" as IntoIterator>::into_iter$", "arg:0"), (r"hash_map::IntoIter<Uint<256, 4>, EvmStorageSlot> as Iterator>::map::<", itmap),
             (r"insert_contract$", "count:contracts"), (r"^<AccountInfo as Default>::default$", f"tag:{DEFINFO}")]
    consts = [(r"^AccountState::(\w+)$", lambda m_, env: str(ST(m_.group(1))) if m_.group(1) in states else "0"),
              (r"^(?:move|copy) \(_\d+\.0: (\w+::)*AccountInfo\)$", NEWINFO), (r"^(?:move|copy) \(_\d+\.1: .*HashMap<.*EvmStorageSlot>\)$", NEWSTOR),
              (r"^copy \(\(\(_\d+ as Some\)\.0: \(.*Address, .*Account\)\)\.0: (\w+::)*Address\)$", 302)]
    places = [(r"^\(\(\*_\d+\)\.0: (\w+::)*AccountInfo\)$", "info"), (r"^\(\(\*_\d+\)\.1: (\w+::)*AccountState\)$", "state"),
              (r"^\(\(\*_\d+\)\.2: std::collections::HashMap<ruint::Uint<256, 4>, ruint::Uint<256, 4>>\)$", "stor")]
    fl = mirflow.Flow(fn, rules, consts, place_cells=places, extra_cells=["@extends", "@extend.1"], init={"@info": "info_in", "@state": "state_in", "@stor": "stor_in"})
    for v in ("info_in", "state_in", "stor_in"):
        fl.free[v] = f"(declare-const {v} Int)"
    # a helper over the previous state becomes its truth table (same mechanism as the CacheDB read policy)
    from jobs_e3 import _bool_table_of_state_helper
    for b in fn.blocks.values():
        c = mir.call_of(b.term or "")
        if c and re.search(r"^AccountState::\w+$", re.sub(r"::<.*?>", "", c[1])):
            tbl = _bool_table_of_state_helper(funcs, c[1], len(states))
            if tbl is not None:
                fl.call_rules.append(("^" + re.escape(c[1]) + "$", "state-table:" + ",".join(map(str, tbl))))
    nxt = _call_blocks(fn, r" as Iterator>::next$")
    if len(nxt) != 1:
        cx.unrecognised(name, f"{len(nxt)} iterator steps")
        return _finish(cx)
    try:
        decls, asserts, cells, order, ends, out = fl.encode(start=nxt[0][0], cut_loops=True)
    except mir.Unsupported as e:
        cx.inconcl.append(f"{name}: {e}")
        return _finish(cx)
    t_, sd_, cr_ = _call_blocks(fn, r"^Account::is_touched$"), _call_blocks(fn, r"^Account::is_selfdestructed$"), _call_blocks(fn, r"^Account::is_created$")
    dstate = [n_ for n_, what in fl.notes if what.startswith("discriminant(") and "AccountState" in what]
    if problems or not (len(t_) == 1 and len(sd_) == 1 and len(cr_) == 1 and len(dstate) <= 1 and fl.loop_backs):
        cx.unrecognised(name, "; ".join(problems) or f"shape not recognised (touched={len(t_)} selfdestructed={len(sd_)} created={len(cr_)} previous-state tests={dstate})")
        return _finish(cx)
    N, T, SD, CR = f"disc_{nxt[0][1]}", "r_" + t_[0][0], "r_" + sd_[0][0], "r_" + cr_[0][0]
    extra = [f"(or (= {v} 0) (= {v} 1))" for v in (N, T, SD, CR)]
    if dstate:
        D = dstate[0]
        extra += [f"(>= {D} 0)", f"(< {D} {len(states)})"]
        keep = "(or " + " ".join(f"(= {D} {states.index(x)})" for x in ("StorageCleared", "NotExisting")) + ")"
    else:
        D, keep = None, "false"
    per = []
    for b in ends:
        g = lambda c: out(c, b)
        back = fn.blocks[b].term == "loopback"
        same = f"(and (= {g('@info')} info_in) (= {g('@state')} state_in) (= {g('@stor')} stor_in) (= {g('@extends')} 0) (= {g('@entries')} 0))"
        one_entry = f"(and (= {g('@entries')} 1) (= {g('@entry.1')} 302))"
        destroyed = f"(and {one_entry} (= {g('@info')} {DEFINFO}) (= {g('@state')} {ST('NotExisting')}) (= {g('@stor')} {CLEARED}) (= {g('@extends')} 0))"
        written = (f"(and {one_entry} (= {g('@info')} {NEWINFO}) (= {g('@contracts')} 1) (= {g('@extends')} 1) (= {g('@extend.1')} (+ {NEWSTOR} {SLOTS_OF})) "
                   f"(ite (= {CR} 1) (and (= {g('@state')} {ST('StorageCleared')}) (= {g('@stor')} {CLEARED})) "
                   f"(and (= {g('@state')} (ite {keep} {ST('StorageCleared')} {ST('Touched')})) (= {g('@stor')} stor_in))))")
        step = f"(ite (= {T} 0) {same} (ite (= {SD} 1) {destroyed} {written}))"
        ok = f"(ite (= {N} 0) (and {same} {'false' if back else 'true'}) (and {step} {'true' if back else 'false'}))"
        per.append(f"(and on_{b} (not {ok}))")
    wit = [("destroyed", "(or " + " ".join(f"(and on_{b} (= {out('@state', b)} {ST('NotExisting')}))" for b in ends) + ")"),
           ("written", "(or " + " ".join(f"(and on_{b} (= {out('@extends', b)} 1))" for b in ends) + ")"),
           ("exit", "(or " + " ".join(f"(and on_{b} (= {N} 0))" for b in ends) + ")")]
    cx.decide(name, decls, asserts, order, extra, "(or " + " ".join(per) + ")", wit, [N, T, SD, CR] + ([D] if D else []),
              "one committed account is not applied as the flags prescribe (untouched: nothing; selfdestructed: info reset, storage cleared, NotExisting; created: storage cleared and "
              "StorageCleared; otherwise info replaced, written slots added, and `storage known empty` (StorageCleared / NotExisting) preserved as StorageCleared, else Touched)")
    return _finish(cx)
