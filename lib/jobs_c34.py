"""C34 warming kernel: JournaledState::load_account / sload and the pre-warming of load_accounts, decided by provenance-flow symbolic
execution of their MIR (lib/mirflow.py) + SMT over every path and every value of the branch conditions."""
import os, re
import mir, smt, native, mirflow

REPO = os.environ.get("VERIF_REPO", "/repo")
CACHE, ZERO, INNER, ERR = 11, 12, 13, 14
J_ACCOUNT_WARMED, J_STORAGE_WARMED, J_OTHER = 31, 32, 39


def _journal_tag(m, env):
    return str({"AccountWarmed": J_ACCOUNT_WARMED, "StorageWarmed": J_STORAGE_WARMED}.get(m.group(1), J_OTHER))


def _first_operand(callee, args, env, b, flow):
    m = re.search(r"(?:move|copy) (_\d+)", args)
    return env.get(m.group(1)) if m else None


def _occ_label(fn, loc):
    for b in fn.blocks.values():
        mm = re.match(r"^switchInt\(move (_\d+)\)", b.term or "")
        if mm and f"{mm.group(1)} = discriminant({loc})" in b.stmts:
            for lab, dst in mir.successors(b.term):
                if lab != "otherwise" and re.search(r"\(%s as (Occupied|Some)\)" % re.escape(loc), " ".join(fn.blocks[dst].stmts)):
                    return lab
    return None


def _vacant_label(fn, loc):
    for b in fn.blocks.values():
        mm = re.match(r"^switchInt\(move (_\d+)\)", b.term or "")
        if mm and f"{mm.group(1)} = discriminant({loc})" in b.stmts:
            for lab, dst in mir.successors(b.term):
                if lab != "otherwise" and re.search(r"\(%s as (Vacant|None)\)" % re.escape(loc), " ".join(fn.blocks[dst].stmts)):
                    return lab
    return None


def _call_block(fn, rx):
    out = []
    for b in fn.blocks.values():
        c = mir.call_of(b.term or "")
        if c and re.search(rx, c[1]):
            out.append((b.name, (c[0] or "").strip()))
    return out


def _model_vals(model, names):
    out = {}
    for n in names:
        mm = re.search(r"\(%s (\(- \d+\)|\d+)\)" % re.escape(n), model or "")
        out[n] = mm.group(1) if mm else "?"
    return out


def run_warm_kernel(tier, log, seed):
    text = mir.dump("revm", log)
    funcs = mir.parse_functions(text)
    duo = smt.Duo(timeout_s=30)
    failures, inconcl, samples = [], [], []
    cache = {}

    def replay(name):
        if "r" not in cache:
            cache["r"] = native.call("debug", "warm_kernel", log=log)
        st, outp = cache["r"]
        if st != "ok":
            return None, f"native scenario failed: {st} {outp[:200]}"
        bad = [t for t in re.findall(r"\[([^\]]*)\]", outp) if t.startswith(name + " ") and "MISMATCH" in t]
        return bad, None

    def unrecognised(name, why):
        """The shape is not the one the policy is written for: nothing is concluded from the encoding; the native scenarios decide whether
        the real function misbehaves (reported) or not (inconclusive)."""
        bad, err = replay(name)
        if bad:
            failures.append(dict(id=f"warm-{name}", reproduced=True, description=f"{name}: {why}; the native scenarios disagree with the access rules: {bad}"))
        else:
            inconcl.append(f"{name}: {why}" + (f" ({err})" if err else " (native scenarios agree)"))

    def decide(name, fl, decls, asserts, order, extra, viol, witnesses, note_names):
        v, model, detail = duo.check(decls, asserts + extra + [viol], want_model_of=[f"on_{b}" for b in order] + note_names)
        samples.append(f"{name}: {len(order)} blocks, free={note_names}: a path that breaks the warming policy: {v}")
        log(f"[c34] {samples[-1]}")
        if v == "unsat":
            for wname, wq in witnesses:  # vacuity guard: the encoding must admit the ordinary paths
                wv, _, _ = duo.check(decls, asserts + extra + [wq])
                if wv != "sat":
                    unrecognised(name, f"vacuity witness `{wname}` is {wv}")
                    return
            return
        if v != "sat":
            inconcl.append(f"{name}: {detail}")
            return
        path = sorted([b for b in order if re.search(r"\(on_%s true\)" % b, model)], key=lambda x: int(x[2:]))
        desc = f"{name}: warming policy broken on path {'>'.join(path[-8:])} with {_model_vals(model, note_names)}"
        bad, err = replay(name)
        if err:
            inconcl.append(f"{name}: {err}")
        else:
            failures.append(dict(id=f"warm-{name}", reproduced=bool(bad), description=desc + f" | native: {bad or 'all scenarios agree'}"))

    base_rules = [
        (r"OccupiedEntry::<.*>::into_mut$|OccupiedEntry::<.*>::get_mut$", f"tag:{CACHE}"),
        (r" as Try>::branch$", "arg:0"),
        (r"::map_err::<", _first_operand),  # the callee text contains `fn(..)`, which confuses the generic argument split
        (r"from_residual$", f"tag:{ERR}"),
        (r"^Vec::<JournalEntry>::push$", "record:push:2;count:journal"),
        (r"VacantEntry::<.*>::insert$", "record:ins:2;count:inserted"),
    ]
    consts = [(r"^JournalEntry::(\w+) \{", _journal_tag), (r"^const ruint::Uint::<256, 4>::ZERO$", ZERO),
              (r"^copy \(\(\*(_\d+)\)\.(\d+): ruint::Uint<256, 4>\)$", lambda m, env: f"(+ (* 100 {env.get(m.group(1), 0)}) {m.group(2)})")]

    # ------------------------------------------------------------------ load_account
    cands = [f for n, fl in funcs.items() for f in fl if re.search(r"^journaled_state::<impl at [^>]*>::load_account$", n)]
    if len(cands) != 1:
        inconcl.append(f"load_account: {len(cands)} MIR bodies")
    else:
        fn = cands[0]
        rules = base_rules + [(r"^Account::mark_warm$", "free"), (r"^HashSet::<Address>::contains::<Address>$", "free")]
        fl = mirflow.Flow(fn, rules, consts)
        try:
            decls, asserts, cells, order, returns, out = fl.encode()
            entry = _call_block(fn, r"^HashMap::<Address, Account>::entry$")
            mw, cont = _call_block(fn, r"^Account::mark_warm$"), _call_block(fn, r"^HashSet::<Address>::contains::<Address>$")
            occ = _occ_label(fn, entry[0][1]) if len(entry) == 1 else None
            if not (occ and len(mw) == 1 and len(cont) == 1 and "_0.1" in cells):
                unrecognised("load_account", f"shape not recognised (entry={entry} occ={occ} mark_warm={mw} contains={cont} result field={'_0.1' in cells})")
            else:
                MW, CT, OCC = "r_" + mw[0][0], "r_" + cont[0][0], f"(= disc_{entry[0][1]} {occ})"
                extra = [f"(or (= {MW} 0) (= {MW} 1))", f"(or (= {CT} 0) (= {CT} 1))"]
                exp_cold = f"(ite {OCC} {MW} (- 1 {CT}))"
                per = []
                for b in returns:
                    cold, cnt, pushed, ins = out("_0.1", b), out("@journal", b), out("@push.1", b), out("@inserted", b)
                    ok = (f"(and (= {cold} {exp_cold}) (= {cnt} (ite (= {cold} 0) 0 1)) (=> (= {cnt} 1) (= {pushed} {J_ACCOUNT_WARMED})) "
                          f"(= {ins} (ite {OCC} 0 1)))")
                    per.append(f"(and on_{b} (not (= {out('_0', b)} {ERR})) (not {ok}))")
                wit = [("cold first access", "(or " + " ".join(f"(and on_{b} (not (= {out('_0', b)} {ERR})) (= {out('_0.1', b)} 1) (not {OCC}))" for b in returns) + ")"),
                       ("warm repeat access", "(or " + " ".join(f"(and on_{b} (= {out('_0.1', b)} 0) {OCC})" for b in returns) + ")")]
                decide("load_account", fl, decls, asserts, order, extra, "(or " + " ".join(per) + ")", wit, [f"disc_{entry[0][1]}", MW, CT])
        except mir.Unsupported as e:
            inconcl.append(f"load_account: {e}")

    # ------------------------------------------------------------------ sload
    src = open(os.path.join(REPO, "crates/primitives/src/state.rs")).read()
    m = re.search(r"pub struct EvmStorageSlot \{(.*?)\n\}", src, re.S)
    fields = re.findall(r"^\s*pub (\w+):", m.group(1), re.M) if m else []
    cands = [f for n, fl in funcs.items() for f in fl if re.search(r"^journaled_state::<impl at [^>]*>::sload$", n)]
    if len(cands) != 1 or "present_value" not in fields:
        inconcl.append(f"sload: {len(cands)} MIR bodies / EvmStorageSlot fields {fields}")
    else:
        fn = cands[0]
        PV = 100 * CACHE + fields.index("present_value")
        rules = base_rules + [(r"^EvmStorageSlot::mark_warm$", "free"), (r"^Account::is_created$", "free"),
                              (r"as (primitives::db::)?Database>::storage$", f"tag:{INNER}"), (r"^EvmStorageSlot::new$", "arg:0"),
                              (r"^StateLoad::<.*>::new$", "record:load:2")]
        fl = mirflow.Flow(fn, rules, consts)
        try:
            decls, asserts, cells, order, returns, out = fl.encode()
            entry = _call_block(fn, r"^HashMap::<Uint<256, 4>, EvmStorageSlot>::entry$")
            mw, cr, ld = _call_block(fn, r"^EvmStorageSlot::mark_warm$"), _call_block(fn, r"^Account::is_created$"), _call_block(fn, r"^StateLoad::<.*>::new$")
            occ = _occ_label(fn, entry[0][1]) if len(entry) == 1 else None
            if not (occ and len(mw) == 1 and len(cr) == 1 and len(ld) == 1):
                unrecognised("sload", f"shape not recognised (entry={entry} occ={occ} mark_warm={mw} is_created={cr} StateLoad::new={ld})")
            else:
                MW, CR, OCC = "r_" + mw[0][0], "r_" + cr[0][0], f"(= disc_{entry[0][1]} {occ})"
                extra = [f"(or (= {MW} 0) (= {MW} 1))", f"(or (= {CR} 0) (= {CR} 1))"]
                per = []
                for b in returns:
                    val, cold, cnt, pushed, ins, insv = out("@load.0", b), out("@load.1", b), out("@journal", b), out("@push.1", b), out("@inserted", b), out("@ins.1", b)
                    ok = (f"(and (= {val} (ite {OCC} {PV} (ite (= {CR} 0) {INNER} {ZERO}))) (= {cold} (ite {OCC} {MW} 1)) "
                          f"(= {cnt} (ite (= {cold} 0) 0 1)) (=> (= {cnt} 1) (= {pushed} {J_STORAGE_WARMED})) "
                          f"(= {ins} (ite {OCC} 0 1)) (=> (not {OCC}) (= {insv} {val})))")
                    per.append(f"(and on_{b} (not (= {out('_0', b)} {ERR})) (not {ok}))")
                wit = [("cold first read from the database", "(or " + " ".join(f"(and on_{b} (not (= {out('_0', b)} {ERR})) (= {out('@load.0', b)} {INNER}) (= {out('@load.1', b)} 1))" for b in returns) + ")"),
                       ("cached slot", "(or " + " ".join(f"(and on_{b} (= {out('@load.0', b)} {PV}))" for b in returns) + ")"),
                       ("newly created account reads zero", "(or " + " ".join(f"(and on_{b} (= {out('@load.0', b)} {ZERO}))" for b in returns) + ")")]
                decide("sload", fl, decls, asserts, order, extra, "(or " + " ".join(per) + ")", wit, [f"disc_{entry[0][1]}", MW, CR])
        except mir.Unsupported as e:
            inconcl.append(f"sload: {e}")

    # ------------------------------------------------------------------ load_accounts (transaction-level pre-warming)
    cands = [f for n, fl in funcs.items() for f in fl if n.split("::")[-1] == "load_accounts" and "impl at" not in n and "Context<" in f.text.split("\n")[0]]
    if len(cands) != 1:
        inconcl.append(f"load_accounts: {len(cands)} MIR bodies")
    else:
        fn = cands[0]
        COINBASE, BLOCKHASH = 41, 42
        gates = {}

        def enabled(callee, args, env, b, flow):
            mm = re.search(r"SpecId::(\w+)", args)
            if not mm:  # the constant is first stored in a local: `_7 = SHANGHAI;` / `_14 = SpecId::PRAGUE;`
                ml = re.match(r"^(?:move|copy) (_\d+)$", args.strip())
                for s_ in (fn.blocks[b].stmts if ml else []):
                    md = re.match(r"^%s = (?:const )?(?:\w+::)*([A-Z_0-9]+)$" % re.escape(ml.group(1)), s_)
                    if md:
                        mm = md
            nm = flow.fresh("en_" + (mm.group(1) if mm else b), f"SPEC::enabled({args})")
            gates[mm.group(1) if mm else b] = nm
            return nm

        def ins(callee, args, env, b, flow):
            al = mir.split_top(args)
            t = flow.rvalue(al[1], env, b) if len(al) > 1 else None
            t = t if t is not None else "0"
            env["@cb"] = f"(+ {env['@cb']} (ite (= {t} {COINBASE}) 1 0))"
            env["@bh"] = f"(+ {env['@bh']} (ite (= {t} {BLOCKHASH}) 1 0))"
            env["@oth"] = f"(+ {env['@oth']} (ite (or (= {t} {COINBASE}) (= {t} {BLOCKHASH})) 0 1))"
            return None
        rules = [(r"as Spec>::enabled$", enabled), (r"^HashSet::<Address>::insert$", ins),
                 (r"load_access_list$", "count:acl;free"), (r" as Try>::branch$", "arg:0"), (r"from_residual$", f"tag:{ERR}")]
        cns = [(r"^copy \(.*BlockEnv\)\.(\d+): (\w+::)*Address\)$", lambda m, env: str(COINBASE) if _blockenv_field(m.group(1)) == "coinbase" else "0"),
               (r"^const (\w+::)*BLOCKHASH_STORAGE_ADDRESS$", BLOCKHASH)]
        fl = mirflow.Flow(fn, rules, cns, extra_cells=["@cb", "@bh", "@oth"])
        try:
            decls, asserts, cells, order, returns, out = fl.encode()
            if not ("SHANGHAI" in gates and "PRAGUE" in gates):
                unrecognised("load_accounts", f"SPEC::enabled gates found: {sorted(gates)} (expected SHANGHAI and PRAGUE)")
            else:
                S, P = gates["SHANGHAI"], gates["PRAGUE"]
                extra = [f"(or (= {S} 0) (= {S} 1))", f"(or (= {P} 0) (= {P} 1))", f"(=> (= {P} 1) (= {S} 1))"]
                extra += [f"(or (= {g} 0) (= {g} 1))" for g in gates.values()]
                per = []
                for b in returns:
                    ok = f"(and (= {out('@cb', b)} {S}) (= {out('@bh', b)} {P}) (= {out('@oth', b)} 0) (= {out('@acl', b)} 1))"
                    per.append(f"(and on_{b} (not {ok}))")
                wit = [("coinbase pre-warmed", "(or " + " ".join(f"(and on_{b} (= {out('@cb', b)} 1))" for b in returns) + ")"),
                       ("pre-Shanghai: nothing pre-warmed", "(or " + " ".join(f"(and on_{b} (= {out('@cb', b)} 0) (= {out('@bh', b)} 0))" for b in returns) + ")")]
                decide("load_accounts", fl, decls, asserts, order, extra, "(or " + " ".join(per) + ")", wit, sorted(gates.values()))
        except mir.Unsupported as e:
            inconcl.append(f"load_accounts: {e}")

    # ------------------------------------------------------------------ initial_account_load (access-list / authority pre-loading): prefix and one loop iteration
    cands = [f for n, fl in funcs.items() for f in fl if re.search(r"^journaled_state::<impl at [^>]*>::initial_account_load$", n)]
    if len(cands) != 1:
        inconcl.append(f"initial_account_load: {len(cands)} MIR bodies")
    else:
        fn = cands[0]
        KEY = 55
        rules = base_rules[:0] + [
            (r" as Iterator>::next$", f"count:nexts;tag:{KEY}"),
            (r"OccupiedEntry::<.*Address, Account>::into_mut$", f"tag:{CACHE}"),
            (r"as (primitives::db::)?Database>::basic$", f"count:dbbasic;tag:{INNER}"),
            (r"as (primitives::db::)?Database>::storage$", f"record:dbstor:3;count:dbstors;tag:{INNER}"),
            (r"::map_err::<", _first_operand), (r" as Try>::branch$", "arg:0"), (r"from_residual$", f"tag:{ERR}"),
            (r"^HashMap::<Uint<256, 4>, EvmStorageSlot>::entry$", "record:entry:2;free"),
            (r"^EvmStorageSlot::new$", "arg:0"),
            (r"VacantEntry::<.*Uint<256, 4>, EvmStorageSlot>::insert$", "record:slotins:2;count:slotinserted"),
            (r"VacantEntry::<.*Address, Account>::insert$", "record:accins:2;count:accinserted;tag:21"),
        ]
        try:
            # (1) prefix: no successful return without having entered (and left) the key loop; account reused or loaded exactly once
            fl = mirflow.Flow(fn, rules, consts)
            decls, asserts, cells, order, ends, out = fl.encode(cut_loops=True)
            entry = _call_block(fn, r"^HashMap::<Address, Account>::entry$")
            occ = _occ_label(fn, entry[0][1]) if len(entry) == 1 else None
            nxt = _call_block(fn, r" as Iterator>::next$")
            if not (occ and len(nxt) == 1 and fl.loop_backs):
                unrecognised("initial_account_load", f"shape not recognised (entry={entry} next calls={len(nxt)} loops={len(fl.loop_backs)})")
            else:
                OCC = f"(= disc_{entry[0][1]} {occ})"
                rets = [b for b in ends if fn.blocks[b].term == "return"]
                per = []
                for b in rets:
                    g = lambda c: out(c, b)
                    ok = (f"(and (= {g('@nexts')} 1) (ite {OCC} (and (= {g('_0')} {CACHE}) (= {g('@dbbasic')} 0) (= {g('@accinserted')} 0)) "
                          f"(and (= {g('_0')} 21) (= {g('@dbbasic')} 1) (= {g('@accinserted')} 1))))")
                    per.append(f"(and on_{b} (not (= {g('_0')} {ERR})) (not {ok}))")
                wit = [("cached account", "(or " + " ".join(f"(and on_{b} (= {out('_0', b)} {CACHE}))" for b in rets) + ")"),
                       ("loaded account", "(or " + " ".join(f"(and on_{b} (= {out('_0', b)} 21))" for b in rets) + ")")]
                decide("initial_account_load", fl, decls, asserts, order, [], "(or " + " ".join(per) + ")", wit, [f"disc_{entry[0][1]}"])
                # (2) one iteration of the key loop, from the block that asks the iterator for the next key
                header = nxt[0][0]
                fl2 = mirflow.Flow(fn, rules, consts)
                decls, asserts, cells, order, ends, out = fl2.encode(start=header, cut_loops=True)
                sl = _call_block(fn, r"^HashMap::<Uint<256, 4>, EvmStorageSlot>::entry$")
                svac = _vacant_label(fn, sl[0][1]) if len(sl) == 1 else None
                socc = {"0": "1", "1": "0"}.get(svac)
                if not (socc and len(fl2.loop_backs) >= 1):
                    unrecognised("initial_account_load", f"key loop not recognised (slot entry={sl}, back edges={len(fl2.loop_backs)})")
                else:
                    N, S = f"disc_{nxt[0][1]}", f"disc_{sl[0][1]}"
                    extra = [f"(or (= {N} 0) (= {N} 1))", f"(or (= {S} 0) (= {S} 1))"]
                    per = []
                    for b in ends:
                        g = lambda c: out(c, b)
                        is_back = fn.blocks[b].term == "loopback"
                        idle = f"(and (= {g('@dbstors')} 0) (= {g('@slotinserted')} 0))"
                        load = (f"(and (= {g('@dbstors')} 1) (= {g('@dbstor.1')} arg_2) (= {g('@dbstor.2')} {KEY}) (= {g('@entry.1')} {KEY}) "
                                f"(or (= {g('_0')} {ERR}) (and (= {g('@slotinserted')} 1) (= {g('@slotins.1')} {INNER}))))")
                        # the loop is left (a plain return that is not an error) only when the keys are exhausted; a key is followed by another round
                        shape = f"(ite (= {N} 0) (and {idle} {'false' if is_back else 'true'}) (and (ite (= {S} {socc}) {idle} {load}) {'true' if is_back else '(= ' + g('_0') + ' ' + str(ERR) + ')'}))"
                        per.append(f"(and on_{b} (not {shape}))")
                    wit = [("key loaded from the database", "(or " + " ".join(f"(and on_{b} (= {out('@slotinserted', b)} 1))" for b in ends) + ")"),
                           ("keys exhausted", "(or " + " ".join(f"(and on_{b} (= {N} 0))" for b in ends) + ")")]
                    decide("initial_account_load", fl2, decls, asserts, order, extra, "(or " + " ".join(per) + ")", wit, [N, S])
        except mir.Unsupported as e:
            inconcl.append(f"initial_account_load: {e}")

    q, tm = duo.queries, duo.time
    duo.close()
    res = dict(queries=q, solver_s=tm, engine="mir provenance-flow -> smtlib (z3 4.8.12 + cvc5 1.0)", bounds="; ".join(samples),
               detail="initial_account_load: every successful return went through the key loop; cached account reused, absent one loaded once; per key: present slot kept, "
                      "absent slot read from the database for (address, key) and inserted; load_account: is_cold = mark_warm() of a present entry | !warm_preloaded.contains(address) of an absent one; AccountWarmed journalled iff cold; "
                      "sload: value = present_value of a present slot | database (zero for an account created in this transaction), cold = mark_warm() | true, "
                      "StorageWarmed journalled iff cold, absent slot inserted with the value returned; load_accounts: coinbase pre-warmed iff SHANGHAI, "
                      "BLOCKHASH_STORAGE_ADDRESS iff PRAGUE, nothing else, access list loaded exactly once")
    if any(f.get("reproduced") for f in failures):
        res.update(status="fail", failures=failures, reason=failures[0]["description"][:300])
    elif inconcl or failures:
        res.update(status="inconclusive", reason="; ".join(inconcl + [f["description"] for f in failures])[:600])
    else:
        res.update(status="pass")
    return res


_BLOCKENV = []


def _blockenv_field(idx):
    if not _BLOCKENV:
        src = open(os.path.join(REPO, "crates/primitives/src/env.rs")).read()
        m = re.search(r"pub struct BlockEnv \{(.*?)\n\}", src, re.S)
        _BLOCKENV.extend(re.findall(r"^\s*pub (\w+):", m.group(1), re.M) if m else ["?"])
    i = int(idx)
    return _BLOCKENV[i] if i < len(_BLOCKENV) else "?"
