"""Build and call /verif/native (the real functions on concrete inputs, debug + release profiles)."""
import os, subprocess, fcntl, time, shutil

VERIF = os.path.dirname(os.path.dirname(os.path.abspath(__file__)))
NATIVE = os.path.join(VERIF, "native")
TARGET = os.environ.get("VERIF_NATIVE_TARGET", os.path.join(VERIF, ".scratch", "native-target"))
_built = set()


def build(profile, log=print):
    if profile in _built:
        return
    os.makedirs(TARGET, exist_ok=True)
    if not os.path.exists(os.path.join(NATIVE, "Cargo.lock")):
        shutil.copy("/repo/Cargo.lock", os.path.join(NATIVE, "Cargo.lock"))
    env = dict(os.environ, CARGO_NET_OFFLINE="true", CARGO_TARGET_DIR=TARGET, CARGO_TERM_COLOR="never")
    env.pop("RUSTUP_TOOLCHAIN", None)
    cmd = ["cargo", "build", "--offline"] + (["--release"] if profile == "release" else [])
    t0 = time.time()
    with open(os.path.join(TARGET, ".verif-native.lock"), "w") as lk:
        fcntl.flock(lk, fcntl.LOCK_EX)
        p = subprocess.run(cmd, cwd=NATIVE, env=env, stdout=subprocess.PIPE, stderr=subprocess.STDOUT, text=True)
    if p.returncode != 0:
        raise RuntimeError("native tool build failed:\n" + p.stdout[-3000:])
    log(f"[native] built {profile} in {time.time()-t0:.1f}s")
    _built.add(profile)


def call(profile, *args, log=print):
    """Returns ('ok', text) or ('panic', message)."""
    build(profile, log)
    exe = os.path.join(TARGET, "release" if profile == "release" else "debug", "revm-verif-native")
    p = subprocess.run([exe] + [str(a) for a in args], stdout=subprocess.PIPE, stderr=subprocess.PIPE, text=True, timeout=120)
    out = p.stdout.strip().split("\n")[-1] if p.stdout.strip() else ""
    if out.startswith("ok "):
        return "ok", out[3:]
    if out.startswith("panic"):
        return "panic", out[6:]
    return "error", (p.stdout + p.stderr)[-500:]
