"""C27: coherence of the Bytecode accessors, for every variant: original_bytes and original_byte_slice take the same source, len / is_empty /
hash_slow derive from original_byte_slice, the analysed form cuts its padded buffer at original_len. Provenance-flow over MIR + SMT."""
import os, re
import mir, smt, native, mirflow

REPO = os.environ.get("VERIF_REPO", "/repo")
VARIANT_TAG = {"LegacyRaw": 500, "LegacyAnalyzed": 510, "Eof": 520, "Eip7702": 530}
SLICE, LEN, EMPTYQ, HASH, KEMPTY = 700, 10000, 20000, 30000, 800


def _fn(funcs, rx):
    return [f for n, fl in funcs.items() for f in fl if re.search(rx, n)]


def run_accessor_coherence(tier, log, seed):
    text = mir.dump("primitives", log)
    funcs = mir.parse_functions(text)
    duo = smt.Duo(timeout_s=30)
    failures, inconcl, samples = [], [], []
    cache = {}

    def replay(name):
        if "r" not in cache:
            cache["r"] = native.call("debug", "bytecode_accessors", log=log)
        st, outp = cache["r"]
        if st != "ok":
            return None, f"native scenario failed: {st} {outp[:200]}"
        return [t for t in re.findall(r"\[([^\]]*)\]", outp) if "MISMATCH" in t and (name in t or t.startswith("bytecode "))], None

    def verdict(name, v, model, detail, desc):
        samples.append(f"{name}: {desc}: {v}")
        log(f"[c27] {samples[-1]}")
        if v == "unsat":
            return
        bad, err = replay(name)
        if err:
            inconcl.append(f"{name}: {err}")
        elif v == "sat" or v == "unrecognised":
            failures.append(dict(id=f"c27-{name}", reproduced=bool(bad), description=f"Bytecode::{name}: {desc} | native: {bad or 'all scenarios agree'}"))
        else:
            inconcl.append(f"{name}: {detail}")
    src = open(os.path.join(REPO, "crates/primitives/src/bytecode.rs")).read()
    m = re.search(r"pub enum Bytecode \{(.*?)\n\}", src, re.S)
    variants = re.findall(r"^\s*([A-Z]\w*)\(", m.group(1), re.M) if m else []
    if variants != ["LegacyRaw", "LegacyAnalyzed", "Eof", "Eip7702"]:
        inconcl.append(f"Bytecode variants changed: {variants}")
    imp = r"^bytecode::<impl at crates/primitives/src/bytecode\.rs:[^>]*>::%s$"

    # ---- the two "original bytes" accessors: same source per variant
    def var_field(m_, env):
        return str(VARIANT_TAG.get(m_.group(1), 0))
    consts = [(r"^&\(\(\(\*_1\) as (\w+)\)\.0: ", var_field)]
    rules = [(r"as Deref>::deref$|as Clone>::clone$", "arg:0"),
             (r"^LegacyAnalyzedBytecode::original_byte_slice$|^LegacyAnalyzedBytecode::original_bytes$", lambda c, a, env, b, fl: _plus1(fl, a, env, b)),
             (r"^Eof::raw$|^Eip7702Bytecode::raw$", lambda c, a, env, b, fl: _plus1(fl, a, env, b))]
    want = {i: VARIANT_TAG[v] + (0 if v == "LegacyRaw" else 1) for i, v in enumerate(["LegacyRaw", "LegacyAnalyzed", "Eof", "Eip7702"])}
    for acc in ("original_byte_slice", "original_bytes"):
        c = _fn(funcs, imp % acc)
        if len(c) != 1:
            verdict(acc, "unrecognised", "", "", f"{len(c)} MIR bodies")
            continue
        fl = mirflow.Flow(c[0], rules, consts)
        try:
            decls, asserts, cells, order, returns, out = fl.encode()
        except mir.Unsupported as e:
            verdict(acc, "unrecognised", "", "", str(e))
            continue
        dv = [n_ for n_, what in fl.notes if what == "discriminant((*_1))"]
        if len(dv) != 1:
            verdict(acc, "unrecognised", "", "", "no match on the variant")
            continue
        D = dv[0]
        exp = str(want[3])
        for i in (2, 1, 0):
            exp = f"(ite (= {D} {i}) {want[i]} {exp})"
        viol = "(or " + " ".join(f"(and on_{b} (not (= {out('_0', b)} {exp})))" for b in returns) + ")"
        v, model, detail = duo.check(decls, asserts + [f"(>= {D} 0)", f"(< {D} 4)", viol])
        verdict(acc, v, model, detail, "a variant whose original bytes are not taken from (LegacyRaw: the bytes; LegacyAnalyzed: its original_* accessor; Eof / Eip7702: raw())")
    # ---- len / is_empty / hash_slow derive from original_byte_slice
    consts2 = [(r"^PtrMetadata\((?:copy|move) (_\d+)\)$", lambda m_, env: f"(+ {env.get(m_.group(1), 0)} {LEN})"),
               (r"^Eq\((?:copy|move) (_\d+), const 0_usize\)$", lambda m_, env: f"(+ {env.get(m_.group(1), 0)} {EMPTYQ})"),
               (r"^const (\w+::)*KECCAK_EMPTY$", KEMPTY)]
    rules2 = [(r"^bytecode::Bytecode::original_byte_slice$|^Bytecode::original_byte_slice$", f"tag:{SLICE}"),
              (r"^bytecode::Bytecode::len$|^Bytecode::len$", f"tag:{SLICE + LEN}"),
              (r"^bytecode::Bytecode::is_empty$|^Bytecode::is_empty$", "free"),
              (r"keccak256::<", lambda c, a, env, b, fl: _plusk(fl, a, env, b, HASH))]
    for acc, expect in (("len", str(SLICE + LEN)), ("is_empty", str(SLICE + LEN + EMPTYQ))):
        c = _fn(funcs, imp % acc)
        if len(c) != 1:
            verdict(acc, "unrecognised", "", "", f"{len(c)} MIR bodies")
            continue
        fl = mirflow.Flow(c[0], rules2, consts2)
        try:
            decls, asserts, cells, order, returns, out = fl.encode()
        except mir.Unsupported as e:
            verdict(acc, "unrecognised", "", "", str(e))
            continue
        viol = "(or " + " ".join(f"(and on_{b} (not (= {out('_0', b)} {expect})))" for b in returns) + ")"
        v, model, detail = duo.check(decls, asserts + [viol])
        verdict(acc, v, model, detail, "the result is not derived from original_byte_slice() (its length / its length compared with zero)")
    c = _fn(funcs, imp % "hash_slow")
    if len(c) != 1:
        verdict("hash_slow", "unrecognised", "", "", f"{len(c)} MIR bodies")
    else:
        fl = mirflow.Flow(c[0], rules2, consts2)
        try:
            decls, asserts, cells, order, returns, out = fl.encode()
            em = [(b.name) for b in c[0].blocks.values() for cc in [mir.call_of(b.term or "")] if cc and re.search(r"Bytecode::is_empty$", cc[1])]
            if len(em) != 1:
                verdict("hash_slow", "unrecognised", "", "", "no is_empty test")
            else:
                E = "r_" + em[0]
                viol = "(or " + " ".join(f"(and on_{b} (not (= {out('_0', b)} (ite (= {E} 0) {SLICE + HASH} {KEMPTY}))))" for b in returns) + ")"
                v, model, detail = duo.check(decls, asserts + [f"(or (= {E} 0) (= {E} 1))", viol])
                verdict("hash_slow", v, model, detail, "the hash is not KECCAK_EMPTY for empty code / keccak256(original_byte_slice()) otherwise")
        except mir.Unsupported as e:
            verdict("hash_slow", "unrecognised", "", "", str(e))
    # ---- the analysed form: both accessors cut the (padded) buffer at original_len
    fields = re.search(r"pub struct LegacyAnalyzedBytecode \{(.*?)\n\}", open(os.path.join(REPO, "crates/primitives/src/bytecode/legacy.rs")).read(), re.S)
    fnames = re.findall(r"^\s*(?:pub )?(\w+):", fields.group(1), re.M) if fields else []
    if fnames[:2] != ["bytecode", "original_len"]:
        inconcl.append(f"LegacyAnalyzedBytecode fields {fnames}")
    else:
        consts3 = [(r"^(?:&|copy )\(\(\*_1\)\.0: (\w+::)*Bytes\)$", 600), (r"^copy \(\(\*_1\)\.1: usize\)$", 601),
                   (r"^RangeTo::<usize> \{ end: (?:move|copy) (_\d+) \}$", lambda m_, env: f"(+ {env.get(m_.group(1), 0)} 40000)")]
        rules3 = [(r"as Deref>::deref$", "arg:0"),
                  (r"Bytes::slice::<RangeTo<usize>>$|as Index<RangeTo<usize>>>::index$", lambda c_, a, env, b, fl: mirflow.combine([fl.rvalue(x, env, b) or "0" for x in mir.split_top(a)[:2]]))]
        for acc in ("original_byte_slice", "original_bytes"):
            c = _fn(funcs, r"^bytecode::legacy::<impl at [^>]*>::%s$" % acc)
            if len(c) != 1:
                verdict("analysed " + acc, "unrecognised", "", "", f"{len(c)} MIR bodies")
                continue
            fl = mirflow.Flow(c[0], rules3, consts3)
            try:
                decls, asserts, cells, order, returns, out = fl.encode()
            except mir.Unsupported as e:
                verdict("analysed " + acc, "unrecognised", "", "", str(e))
                continue
            expect = mirflow.combine(["600", "40601"])
            viol = "(or " + " ".join(f"(and on_{b} (not (= {out('_0', b)} {expect})))" for b in returns) + ")"
            v, model, detail = duo.check(decls, asserts + [viol])
            verdict("analysed " + acc, v, model, detail, "the result is not the buffer cut at ..original_len")
    q, tm = duo.queries, duo.time
    duo.close()
    res = dict(queries=q, solver_s=tm, engine="mir provenance-flow -> smtlib (z3 4.8.12 + cvc5 1.0)", bounds="; ".join(samples),
               detail="all four Bytecode variants (symbolic discriminant); accessors original_byte_slice, original_bytes, len, is_empty, hash_slow and the two accessors of LegacyAnalyzedBytecode")
    if any(f.get("reproduced") for f in failures):
        res.update(status="fail", failures=failures, reason=failures[0]["description"][:300])
    elif inconcl or failures:
        res.update(status="inconclusive", reason="; ".join(inconcl + [f["description"] for f in failures])[:600])
    else:
        res.update(status="pass")
    return res


def _plus1(fl, args, env, b):
    return _plusk(fl, args, env, b, 1)


def _plusk(fl, args, env, b, k):
    m = re.search(r"(?:move|copy) (_\d+)", args)
    t = env.get(m.group(1)) if m else None
    return f"(+ {t} {k})" if t is not None else None
