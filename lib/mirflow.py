"""E3b: provenance-flow symbolic execution of a loop-free MIR body.

Every local (and every tuple field that is assigned separately) carries an integer *tag* that says where its value comes from
(for instance: the cache, the constant zero, the wrapped database, an error).  The body is executed symbolically block by block:
assignments copy tags, calls produce the tag a rule table assigns to the callee (or a fresh unknown), `discriminant(P)` is a free
integer per place, `switchInt` constrains the edge taken.  The result is one SMT formula over block/edge Booleans, tag cells and the
free discriminants; the caller adds the negated policy (`tag(_0)` as a function of the discriminants) and asks for a path.

Nothing here knows about a particular function: the rule table and the policy are supplied by the job."""
import re
import mir

TRUE, FALSE = 1, 0


def _key(place):
    """Canonical cell key of an operand/place text, most specific first: `(_37.1: T)` -> ['_37.1', '_37']; `(*_15)` -> ['_15'];
    `((_20 as Continue).0: T)` -> ['_20']."""
    p = place.strip()
    p = re.sub(r"^(?:copy|move) ", "", p)
    m = re.match(r"^\((_\d+)\.(\d+): [^()]*(?:\([^()]*\)[^()]*)*\)$", p)
    if m:
        return [f"{m.group(1)}.{m.group(2)}", m.group(1)]
    m = re.search(r"_\d+", p)
    return [m.group(0)] if m else []


def _aggregate_parts(rv):
    """Operands of a tuple `(a, b)` or struct/variant aggregate `Path { f: a, g: b }` rvalue, in field order; None if not an aggregate."""
    rv = rv.strip()
    m = re.match(r"^\((.*)\)$", rv)
    if m and not re.match(r"^\(_\d+\.\d+: ", rv) and not rv.startswith("(*") and not rv.startswith("((") and " as " not in rv.split(",")[0]:
        return mir.split_top(m.group(1))
    m = re.match(r"^[A-Za-z_][\w:<>&', ]*? \{ (.*) \}$", rv)
    if m:
        parts = []
        for p in mir.split_top(m.group(1)):
            parts.append(p.split(": ", 1)[1] if ": " in p else p)
        return parts
    return None


_PRIMES = (7, 13, 17, 19, 23, 29, 31, 37, 41, 43)


def combine(parts):
    """Tag of an aggregate built from parts (order-sensitive)."""
    return "(+ 1000003 " + " ".join(f"(* {_PRIMES[i % len(_PRIMES)]} {p})" for i, p in enumerate(parts)) + ")"


class Flow:
    def __init__(self, fn, call_rules, const_rules, unknown_tag=0, extra_cells=(), store_rules=(), place_cells=(), init=None, store_records=()):
        """call_rules: [(regex on the full callee text, 'tag:<n>' | 'arg:<i>' | 'free')]; const_rules: [(regex on rvalue, n)]."""
        self.fn, self.call_rules, self.const_rules = fn, call_rules, const_rules
        self.free = {}      # name -> declaration
        self.notes = []     # what each free variable stands for
        self.unknown_tag = unknown_tag
        self.extra_cells = list(extra_cells)
        self.store_rules = list(store_rules)  # [(regex on the left-hand side of a store through a projection, counter cell name)]
        self.store_records = list(store_records)  # [(regex on the stored-to place with group 1 = base local, name)]: counts the store, keeps base and value
        self.place_cells = list(place_cells)  # [(regex on a place text, cell name)]: memory cells for fields reached through a reference (e.g. `(*_1).0`)
        self.init = dict(init or {})          # cell -> term at function entry (default: 0 for `@` cells, free for locals)

    def fresh(self, name, what):
        name = re.sub(r"[^A-Za-z0-9_]", "_", name)
        if name not in self.free:
            self.free[name] = f"(declare-const {name} Int)"
            self.notes.append((name, what))
        return name

    def disc_var(self, place):
        return self.fresh("disc_" + place, f"discriminant({place})")

    def place_cell(self, place):
        place = place.strip()
        for rx, nm in self.place_cells:
            if re.search(rx, place):
                return "@" + nm
        return None

    def rvalue(self, rv, env, b):
        rv = rv.strip()
        mp = re.match(r"^(?:no_retag )?(?:copy |move |&mut |&)(\(.*\))$", rv)
        if mp and self.place_cells:
            pc = self.place_cell(mp.group(1))
            if pc and pc in env:
                return env[pc]
        for rx, n in self.const_rules:  # job-specific readings first (they may name the `no_retag` form)
            mm = re.search(rx, rv)
            if mm:
                return n(mm, env) if callable(n) else str(n)
        rv = re.sub(r"^no_retag ", "", rv)
        if rv == "const true":
            return str(TRUE)
        if rv == "const false":
            return str(FALSE)
        for rx, n in self.const_rules:
            mm = re.search(rx, rv)
            if mm:
                return n(mm, env) if callable(n) else str(n)
        m = re.match(r"^discriminant\((.*)\)$", rv)
        if m:
            if (m.group(1) + "#d") in env:
                return env[m.group(1) + "#d"]
            return self.disc_var(m.group(1))
        m = re.match(r"^const (-?\d+)_\w+$", rv)
        if m:
            return m.group(1) if not m.group(1).startswith("-") else f"(- {m.group(1)[1:]})"
        m = re.match(r"^Not\((?:move|copy) (_\d+)\)$", rv)
        if m and m.group(1) in env:
            return f"(- 1 {env[m.group(1)]})"
        # enum / struct constructor with one payload operand: Result::Ok(move _14), Option::Some(..)
        m = re.match(r"^[\w:<>, '()&\[\]]*?::(Ok|Some|Err)\((.*)\)$", rv)
        if m:
            return self.rvalue(m.group(2), env, b)
        if re.match(r"^(?:copy|move) ", rv) or re.match(r"^&(?:mut )?", rv) or rv.startswith("("):
            for k in _key(re.sub(r"^&(?:mut )?", "", rv)):
                if k in env:
                    return env[k]
        return None

    def encode(self, start="bb0", cut_loops=False):
        """Returns (decls, asserts, cells, blocks, ends, out_term) where out_term(cell, block) is the value at the block's exit.
        With cut_loops every back edge (found by a depth-first search from `start`) is redirected to a fresh empty pseudo block, which is
        then one of the `ends` (self.loop_backs lists them): the encoding describes every path up to its first return to a loop header -
        from `start` = bb0 that is the loop-free prefix plus one entry into each loop, from `start` = a loop header it is one iteration."""
        from jobs_e3 import has_cycle
        fn = self.fn
        blocks, work = set(), [start]
        while work:
            b = work.pop()
            if b in blocks or b not in fn.blocks:
                continue
            blocks.add(b)
            for lab, s_ in mir.successors(fn.blocks[b].term):
                if not lab.startswith("unwind"):
                    work.append(s_)
        es = []
        for b in sorted(blocks, key=lambda x: int(x[2:])):
            for lab, s_ in mir.successors(fn.blocks[b].term):
                if not lab.startswith("unwind") and s_ in blocks:
                    es.append((b, lab, s_))
        self.loop_backs = []
        if cut_loops:
            adj = {}
            for e in es:
                adj.setdefault(e[0], []).append(e)
            color, back = {}, []

            def dfs(u):
                color[u] = 1
                for e in adj.get(u, []):
                    if color.get(e[2]) == 1:
                        back.append(e)
                    elif e[2] not in color:
                        dfs(e[2])
                color[u] = 2
            dfs(start)
            for i, e in enumerate(back):
                pseudo = f"bb{90000 + i}"
                blk = mir.Block(pseudo)
                blk.term = "loopback"
                fn.blocks[pseudo] = blk
                blocks.add(pseudo)
                es[es.index(e)] = (e[0], e[1], pseudo)
                self.loop_backs.append((pseudo, e[0], e[2]))
        else:
            ok_start = start == "bb0"
            if (ok_start and has_cycle(blocks, es)) or (not ok_start):
                if not ok_start:
                    raise mir.Unsupported("a start block other than bb0 needs cut_loops")
                raise mir.Unsupported("CFG has a cycle")
        order = sorted(blocks, key=lambda x: int(x[2:]))
        # cells: every local that is assigned, plus tuple fields assigned through an aggregate
        cells = set()
        for b in order:
            blk = fn.blocks[b]
            for s in blk.stmts + [blk.term or ""]:
                m = re.match(r"^(_\d+) = (.*)$", s)
                if m:
                    cells.add(m.group(1))
                    parts = _aggregate_parts(m.group(2))
                    if parts:
                        for i, _ in enumerate(parts):
                            cells.add(f"{m.group(1)}.{i}")
        changed = True
        while changed:  # fields travel with whole-local moves: `_a = move _b`, `_0 = Result::Ok(move _b)`
            changed = False
            for b in order:
                for s in fn.blocks[b].stmts:
                    m = re.match(r"^(_\d+) = (?:.*::(?:Ok|Some)\()?(?:copy|move) (_\d+)\)?$", s)
                    if m:
                        for c in list(cells):
                            if c.startswith(m.group(2) + ".") and (m.group(1) + c[len(m.group(2)):]) not in cells:
                                cells.add(m.group(1) + c[len(m.group(2)):])
                                changed = True
        # a local that is matched on keeps its discriminant in a cell of its own: set by `Some(..)` / `None` / `Ok(..)` / `Err(..)` constructors,
        # copied by moves, a free variable (named disc__N, as before) when the local is the result of a call
        self._dlocals = set()
        for b in order:
            for s_ in fn.blocks[b].stmts:
                md = re.match(r"^_\d+ = discriminant\((_\d+)\)$", s_)
                if md:
                    self._dlocals.add(md.group(1))
        cells.update(l + "#d" for l in self._dlocals)
        cells.update(self.extra_cells)
        cells.update("@" + nm for _, nm in self.store_rules)
        cells.update("@" + nm for _, nm in self.place_cells)
        for _, nm in self.store_records:
            cells.update(["@" + nm, "@" + nm + ".base", "@" + nm + ".val"])
        for rx, act in self.call_rules:
            for a_ in ([] if callable(act) else act.split(";")):
                if a_.startswith("record:"):
                    for i in range(int(a_.split(":")[2])):
                        cells.add(f"@{a_.split(':')[1]}.{i}")
                elif a_.startswith("count:"):
                    cells.add(f"@{a_.split(':')[1]}")
        cells = sorted(cells)
        cv = lambda c, b: "c" + c.replace(".", "f").replace("@", "R").replace("#", "D") + "_" + b
        decls = [f"(declare-const on_{b} Bool)" for b in order] + [f"(declare-const {cv(c, b)} Int)" for c in cells for b in order]
        evar = {e: f"e{i}" for i, e in enumerate(es)}
        decls += [f"(declare-const {v} Bool)" for v in evar.values()]
        asserts = [f"on_{start}"] + [f"(= {cv(c, start)} {self.init.get(c, 0)})" for c in cells if c.startswith("@")]
        if start == "bb0":  # an argument that is re-assigned later is a cell: it starts as the argument's value
            for a_, _t in fn.args:
                if a_ in cells:
                    asserts.append(f"(= {cv(a_, start)} {self.fresh('arg' + a_, 'argument ' + a_)})")
        exit_env, edge_cond = {}, {}
        for b in order:
            blk = fn.blocks[b]
            env = {c: cv(c, b) for c in cells}
            for a_, _t in fn.args:  # arguments that are never re-assigned are the same free constant everywhere
                if a_ not in env:
                    env[a_] = self.fresh("arg" + a_, f"argument {a_}")
            for s in blk.stmts:
                m = re.match(r"^(_\d+) = (.*)$", s)
                if not m:
                    ms = re.match(r"^(\(.*\)) = (.*)$", s)
                    pc = self.place_cell(ms.group(1)) if ms and self.place_cells else None
                    if pc:
                        t = self.rvalue(ms.group(2), env, b)
                        env[pc] = t if t is not None else self.fresh(f"u_{b}_store_{len(self.free)}", f"unknown value stored to {ms.group(1)[:40]} in {b}")
                    for rx, nm in self.store_records:
                        ms = re.match(r"^(\(.*\)) = (.*)$", s)
                        mr = re.search(rx, ms.group(1)) if ms else None
                        if mr:
                            env["@" + nm] = f"(+ {env['@' + nm]} 1)"
                            env["@" + nm + ".base"] = env.get(mr.group(1), "0")
                            tv = self.rvalue(ms.group(2), env, b)
                            env["@" + nm + ".val"] = tv if tv is not None else self.fresh(f"u_{b}_sv_{len(self.free)}", f"unknown value stored in {b}")
                    for rx, nm in self.store_rules:
                        ms = re.match(r"^(\(.*\)) = (.*)$", s)
                        if ms and re.search(rx, ms.group(1)):
                            env["@" + nm] = f"(+ {env['@' + nm]} 1)"
                    continue
                lhs, rv = m.groups()
                parts = _aggregate_parts(rv)
                if parts and f"{lhs}.0" in env and not any(re.search(rx, rv) for rx, _ in self.const_rules):
                    for i, part in enumerate(parts):
                        t = self.rvalue(part, env, b)
                        env[f"{lhs}.{i}"] = t if t is not None else self.fresh(f"u_{b}_{lhs}_{i}", f"unknown value {part} in {b}")
                    # the aggregate as a whole: a linear combination of its parts (the job builds the expected value the same way, see `combine`)
                    env[lhs] = combine([env[f"{lhs}.{i}"] for i in range(len(parts))])
                    continue
                t = self.rvalue(rv, env, b)
                env[lhs] = t if t is not None else self.fresh(f"u_{b}{lhs}", f"unknown rvalue `{rv[:60]}` in {b}")
                if (lhs + "#d") in env:
                    mk = re.match(r"^[\w:<>, '()&\[\]]*?::(Some|None|Ok|Err)\b", rv)
                    mv = re.match(r"^(?:copy|move) (_\d+)$", rv)
                    if mk:
                        env[lhs + "#d"] = {"Some": "1", "None": "0", "Ok": "0", "Err": "1"}[mk.group(1)]
                    elif mv and (mv.group(1) + "#d") in env:
                        env[lhs + "#d"] = env[mv.group(1) + "#d"]
                    else:
                        env[lhs + "#d"] = self.disc_var(lhs)
                msrc = re.match(r"^(?:.*::(?:Ok|Some)\()?(?:copy|move) (_\d+)\)?$", rv)
                for c in cells:  # a whole-local assignment supersedes stale field cells (fields travel with a whole-local move)
                    if c.startswith(lhs + "."):
                        src_c = (msrc.group(1) + c[len(lhs):]) if msrc else None
                        env[c] = env[src_c] if src_c in env else env[lhs]
            term = blk.term or ""
            c = mir.call_of(term)
            if c:
                dest, callee, args = c
                val = None
                for rx, acts in self.call_rules:
                    if not re.search(rx, callee):
                        continue
                    if callable(acts):
                        val = acts(callee, args, env, b, self)
                        break
                    for act in acts.split(";"):
                        if act.startswith("record:"):
                            _, nm, cnt = act.split(":")
                            al = mir.split_top(args) if args.strip() else []
                            for i in range(int(cnt)):
                                t_ = self.rvalue(al[i], env, b) if i < len(al) else None
                                env[f"@{nm}.{i}"] = t_ if t_ is not None else self.fresh(f"u_{b}_{nm}_{i}", f"unknown argument {i} of {callee[:50]} in {b}")
                            continue
                        if act.startswith("count:"):
                            nm = act.split(":")[1]
                            env[f"@{nm}"] = f"(+ {env['@' + nm]} 1)"
                            continue
                        if act.startswith("tag:"):
                            val = act[4:]
                        elif act.startswith("arg:"):
                            a = mir.split_top(args)[int(act[4:])] if args.strip() else ""
                            val = self.rvalue(a, env, b)
                        elif act.startswith("state-table:"):
                            tbl = act.split(":", 1)[1].split(",")
                            a = mir.split_top(args)[0]
                            mm_ = re.match(r"^(?:move|copy) (_\d+)$", a.strip())
                            place = None
                            if mm_:
                                for bb_ in fn.blocks.values():
                                    for s_ in bb_.stmts:
                                        m2 = re.match(r"^%s = &(.*)$" % re.escape(mm_.group(1)), s_)
                                        if m2:
                                            place = m2.group(1)
                            if place:
                                dv = self.disc_var(place)
                                val = str(tbl[-1])
                                for i_ in range(len(tbl) - 2, -1, -1):
                                    val = f"(ite (= {dv} {i_}) {tbl[i_]} {val})"
                        elif act == "free":
                            val = self.fresh(f"r_{b}", f"result of {callee[:70]} in {b}")
                    break
                if val is None:
                    val = self.fresh(f"r_{b}", f"result of {callee[:70]} in {b}")
                mm = re.match(r"^(_\d+)$", (dest or "").strip())
                if mm and (mm.group(1) + "#d") in env:
                    env[mm.group(1) + "#d"] = self.disc_var(mm.group(1))
                if mm:
                    env[mm.group(1)] = val
                    for cc in cells:
                        if cc.startswith(mm.group(1) + "."):
                            env[cc] = val
            m = re.match(r"^switchInt\((?:move|copy) (_\d+)\)", term)
            if m:
                sel = env.get(m.group(1))
                labs = [lab for lab, _ in mir.successors(term) if lab != "otherwise"]
                for e in es:
                    if e[0] != b or sel is None:
                        continue
                    if e[1] == "otherwise":
                        if labs:
                            edge_cond[e] = "(and " + " ".join(f"(not (= {sel} {l}))" for l in labs) + " true)"
                    else:
                        edge_cond[e] = f"(= {sel} {e[1]})"
            exit_env[b] = env
        outs = {b: [e for e in es if e[0] == b] for b in order}
        ins = {b: [e for e in es if e[2] == b] for b in order}

        def one(vs):
            if not vs:
                return "false"
            if len(vs) == 1:
                return vs[0]
            return "(and (or " + " ".join(vs) + ") " + " ".join(f"(not (and {vs[i]} {vs[j]}))" for i in range(len(vs)) for j in range(i + 1, len(vs))) + ")"
        returns = [b for b in order if fn.blocks[b].term in ("return", "loopback")]
        for b in order:
            o = [evar[e] for e in outs[b]]
            if o:
                asserts.append(f"(=> on_{b} {one(o)})")
                asserts.append(f"(=> (not on_{b}) (not (or {' '.join(o)} false)))")
            for e in outs[b]:
                eqs = " ".join(f"(= {cv(c, e[2])} {exit_env[b][c]})" for c in cells)
                cond = edge_cond.get(e, "")
                asserts.append(f"(=> {evar[e]} (and on_{e[2]} {eqs} {cond}))")
            if b != start:
                asserts.append(f"(=> on_{b} {one([evar[e] for e in ins[b]])})")
        asserts.append(one([f"on_{b}" for b in returns]))
        decls += list(self.free.values())
        return decls, asserts, cells, order, returns, (lambda c, b: exit_env[b].get(c))
