"""C06, the revert side: what JournaledState::journal_revert does for each kind of journal entry (one iteration of its loop, back edges cut), and the
bookkeeping of checkpoint / checkpoint_commit / checkpoint_revert. Provenance-flow symbolic execution of MIR (lib/mirflow.py) + SMT over every path."""
import os, re
import mir, smt, native, mirflow

REPO = os.environ.get("VERIF_REPO", "/repo")
ACC, BAL, NONCE, SLOT = 500000, 1, 2, 700000


def _calls(fn, rx):
    out = []
    for b in fn.blocks.values():
        c = mir.call_of(b.term or "")
        if c and re.search(rx, c[1]):
            out.append((b.name, (c[0] or "").strip(), c))
    return out


def _variants():
    src = open(os.path.join(REPO, "crates/revm/src/journaled_state.rs")).read()
    m = re.search(r"pub enum JournalEntry \{(.*?)\n\}", src, re.S)
    body = re.sub(r"//[^\n]*", "", m.group(1)) if m else ""
    out = []
    for vm in re.finditer(r"(\w+)\s*\{([^}]*)\}", body):
        out.append((vm.group(1), re.findall(r"(\w+)\s*:", vm.group(2))))
    return out


class _Cx:
    def __init__(self, log):
        self.log, self.duo = log, smt.Duo(timeout_s=40)
        self.failures, self.inconcl, self.samples, self._r = [], [], [], None

    def replay(self, name):
        if self._r is None:
            self._r = native.call("debug", "journal_roundtrip", log=self.log)
        st, outp = self._r
        if st != "ok":
            return None, f"native scenario failed: {st} {outp[:200]}"
        return [t for t in re.findall(r"\[([^\]]*)\]", outp) if "MISMATCH" in t and (t.startswith(name + " ") or t.startswith("roundtrip "))], None

    def unrecognised(self, name, why):
        bad, err = self.replay(name)
        if bad:
            self.failures.append(dict(id=name, reproduced=True, description=f"{name}: {why}; the native round trips disagree: {bad[:3]}"))
        else:
            self.inconcl.append(f"{name}: {why}" + (f" ({err})" if err else " (native round trips agree)"))

    def decide(self, name, decls, asserts, order, extra, viol, witnesses, note_names, what):
        v, model, detail = self.duo.check(decls, asserts + extra + [viol], want_model_of=[f"on_{b}" for b in order] + note_names)
        self.samples.append(f"{name}: {len(order)} blocks, inputs {note_names}: a path on which {what}: {v}")
        self.log(f"[c06] {self.samples[-1]}")
        if v == "unsat":
            for wn, wq in witnesses:
                wv, _, _ = self.duo.check(decls, asserts + extra + [wq])
                if wv != "sat":
                    self.unrecognised(name, f"vacuity witness `{wn}` is {wv}")
                    return
            return
        if v != "sat":
            self.inconcl.append(f"{name}: {detail}")
            return
        path = sorted([b for b in order if re.search(r"\(on_%s true\)" % b, model)], key=lambda x: int(x[2:]))
        vals = {n_: (re.search(r"\(%s (\d+)\)" % re.escape(n_), model) or [None, "?"])[1] for n_ in note_names}
        bad, err = self.replay(name)
        desc = f"{name}: {what} on path {'>'.join(path[-8:])} with {vals}"
        if err:
            self.inconcl.append(desc + f" ({err})")
        else:
            self.failures.append(dict(id=name, reproduced=bool(bad), description=desc + f" | native: {bad[:3] if bad else 'all round trips agree'}"))

    def finish(self, detail):
        res = dict(queries=self.duo.queries, solver_s=self.duo.time, engine="mir provenance-flow -> smtlib (z3 4.8.12 + cvc5 1.0)", bounds="; ".join(self.samples), detail=detail)
        self.duo.close()
        if any(f.get("reproduced") for f in self.failures):
            res.update(status="fail", failures=self.failures, reason=self.failures[0]["description"][:300])
        elif self.inconcl or self.failures:
            res.update(status="inconclusive", reason="; ".join(self.inconcl + [f["description"] for f in self.failures])[:600])
        else:
            res.update(status="pass")
        return res


DETAIL = ("journal_revert, one entry: AccountWarmed -> the account is marked cold; AccountTouched -> untouched (the RIPEMD precompile quirk of Spurious Dragon excepted); "
          "AccountDestroyed -> destroyed flag as recorded, balance given back to the account and taken from the target if it is another account; BalanceTransfer -> amount back "
          "from `to` to `from`; NonceChange -> nonce - 1; AccountCreated -> not created, nonce 0 (slot warmth untouched); StorageWarmed -> slot cold; StorageChanged -> present value := recorded "
          "value; TransientStorageChange -> recorded value re-inserted, or the key removed if it was zero; CodeChange -> code hash KECCAK_EMPTY, code None; and nothing else. "
          "checkpoint: remembers logs.len() and journal.len(), depth + 1, one fresh journal vector; checkpoint_commit: depth - 1 only; checkpoint_revert: depth - 1, journal_revert "
          "over the journal vectors after the checkpoint in reverse order, logs and journal truncated to the remembered lengths")


def run_journal_revert(tier, log, seed):
    text = mir.dump("revm", log)
    funcs = mir.parse_functions(text)
    cx = _Cx(log)
    variants = _variants()
    vnames = [v for v, _ in variants]
    want = ["AccountWarmed", "AccountDestroyed", "AccountTouched", "BalanceTransfer", "NonceChange", "AccountCreated", "StorageChanged", "StorageWarmed", "TransientStorageChange", "CodeChange"]
    cands = [f for n, fl in funcs.items() for f in fl if re.search(r"^journaled_state::<impl at [^>]*>::journal_revert$", n)]
    if len(cands) != 1 or sorted(vnames) != sorted(want):
        cx.inconcl.append(f"journal_revert: {len(cands)} MIR bodies / JournalEntry variants {vnames}")
        return cx.finish(DETAIL)
    fn = cands[0]
    K = {v: i for i, v in enumerate(vnames)}
    F = {(v, f): 1000 + 10 * K[v] + j for v, fs in variants for j, f in enumerate(fs)}
    name = "journal_revert"
    EVENTS = ["mark_cold", "unmark_touch", "mark_selfdestruct", "unmark_selfdestruct", "unmark_created", "slot_mark_cold", "add", "sub", "t_remove", "t_insert", "all_slots_cold"]
    problems = []

    def ev(nm, nargs, argmap=None):
        """count an event and keep its (up to two) arguments"""
        def f(callee, args, env, b, flow):
            al = mir.split_top(args)
            env["@" + nm] = f"(+ {env['@' + nm]} 1)"
            for i in range(nargs):
                t = flow.rvalue(al[i], env, b) if i < len(al) else None
                env[f"@{nm}.{i}"] = t if t is not None else "0"
            return None
        return f

    def foreach(callee, args, env, b, flow):
        whole = callee + "(" + args
        mc = re.search(r"\{closure@([^}]*)\}", whole)
        cls = [f_ for n, fl_ in funcs.items() for f_ in fl_ if mc and "{closure#" in n and ("{closure@" + mc.group(1) + "}") in f_.text.split("\n")[0]]
        calls = [re.sub(r"::<.*?>", "", c[1]) for bb in (cls[0].blocks.values() if len(cls) == 1 else []) for c in [mir.call_of(bb.term or "")] if c]
        if calls != ["EvmStorageSlot::mark_cold"]:
            problems.append(f"for_each closure is not slot.mark_cold(): {calls}")
        m = re.search(r"(?:move|copy) (_\d+)", args)
        env["@all_slots_cold"] = f"(+ {env['@all_slots_cold']} 1)"
        env["@all_slots_cold.0"] = env.get(m.group(1), "0") if m else "0"
        return None
    rules = [
        (r" as Iterator>::next$", "free"),
        (r"^HashMap::<Address, Account>::get_mut::<Address>$", lambda c, a, env, b, fl: f"(+ {ACC} {fl.rvalue(mir.split_top(a)[1], env, b) or 0})"),
        (r"^Option::<&mut \w+>::unwrap$", "arg:0"),
        (r"^HashMap::<Uint<256, 4>, EvmStorageSlot>::get_mut::<Uint<256, 4>>$", lambda c, a, env, b, fl: mirflow.combine([str(SLOT)] + [fl.rvalue(x, env, b) or "0" for x in mir.split_top(a)[:2]])),
        (r"^HashMap::<Uint<256, 4>, EvmStorageSlot>::values_mut$", "arg:0"),
        (r"ValuesMut<.*> as Iterator>::for_each::<", foreach),
        (r"^Account::mark_cold$", ev("mark_cold", 1)), (r"^Account::unmark_touch$", ev("unmark_touch", 1)),
        (r"^Account::mark_selfdestruct$", ev("mark_selfdestruct", 1)), (r"^Account::unmark_selfdestruct$", ev("unmark_selfdestruct", 1)),
        (r"^Account::unmark_created$", ev("unmark_created", 1)), (r"^EvmStorageSlot::mark_cold$", ev("slot_mark_cold", 1)),
        (r"^<Uint<256, 4> as AddAssign>::add_assign$", ev("add", 2)), (r"^<Uint<256, 4> as SubAssign>::sub_assign$", ev("sub", 2)),
        (r"^HashMap::<\(Address, Uint<256, 4>\), Uint<256, 4>>::remove::<", ev("t_remove", 2)),
        (r"^HashMap::<\(Address, Uint<256, 4>\), Uint<256, 4>>::insert$", ev("t_insert", 3)),
        (r"^ruint::cmp::<impl Uint<256, 4>>::is_zero$|Uint<256, 4>>::is_zero$", "record:zero:1;free"),
        (r"^<Address as PartialEq>::(eq|ne)$", "record:addrcmp:2;free"),
    ]
    consts = [
        (r"^(?:copy|move) \(\(_\d+ as AccountDestroyed\)\.%d: bool\)$" % dict(variants)["AccountDestroyed"].index("was_destroyed"), lambda m_, env: "wasd"),
        (r"^(?:copy|move) \(\(_\d+ as (\w+)\)\.(\d+): ", lambda m_, env: str(1000 + 10 * K.get(m_.group(1), 90) + int(m_.group(2)))),
        (r"^&mut \(\(\(\*(_\d+)\)\.0: (\w+::)*AccountInfo\)\.0: ruint::Uint<256, 4>\)$", lambda m_, env: f"(+ {env.get(m_.group(1), 0)} {BAL})"),
        (r"^&mut \(\(\*(_\d+)\)\.1: std::collections::HashMap<ruint::Uint<256, 4>, (\w+::)*EvmStorageSlot>\)$", lambda m_, env: env.get(m_.group(1), "0")),
        (r"^SubWithOverflow\(copy \(\(\(\*(_\d+)\)\.0: (\w+::)*AccountInfo\)\.1: u64\), const 1_u64\)$", lambda m_, env: f"(- (+ {env.get(m_.group(1), 0)} {NONCE}) 1)"),
        (r"^const (\w+::)*KECCAK_EMPTY$", 77), (r"^Option::<Bytecode>::None$", 78), (r"^const 0_u64$", 79),
        (r"^const (\w+::)*journal_revert::promoted\[0\]$", 88),
    ]
    srecs = [(r"^\(\(\(\*(_\d+)\)\.0: (?:\w+::)*AccountInfo\)\.1: u64\)$", "st_nonce"),
             (r"^\(\(\(\*(_\d+)\)\.0: (?:\w+::)*AccountInfo\)\.2: .*FixedBytes<32>\)$", "st_hash"),
             (r"^\(\(\(\*(_\d+)\)\.0: (?:\w+::)*AccountInfo\)\.3: .*Option<.*Bytecode>\)$", "st_code"),
             (r"^\(\(\*(_\d+)\)\.1: ruint::Uint<256, 4>\)$", "st_present"),
             (r"^\(\(\(\*(_\d+)\)\.0: (?:\w+::)*AccountInfo\)\.0: ruint::Uint<256, 4>\)$", "st_balance")]
    extra_cells = ["@" + e for e in EVENTS] + [f"@{e}.{i}" for e in EVENTS for i in range(3)]
    fl = mirflow.Flow(fn, rules, consts, extra_cells=extra_cells, store_records=srecs, store_rules=[(r"^\(", "anystore")])
    fl.free["wasd"] = "(declare-const wasd Int)"
    nxt = _calls(fn, r" as Iterator>::next$")
    prom = re.search(r">::journal_revert::promoted\[0\]: &(?:\w+::)*Address = \{(.*?)\n\}", text, re.S)
    rev = re.search(r"IntoIter<JournalEntry> as Iterator>::rev\(", fn.text)
    if len(nxt) != 1 or not rev:
        cx.unrecognised(name, f"loop not recognised (next calls={len(nxt)}, entries walked in reverse={bool(rev)})")
        return cx.finish(DETAIL)
    try:
        decls, asserts, cells, order, ends, out = fl.encode(start=nxt[0][0], cut_loops=True)
    except mir.Unsupported as e:
        cx.inconcl.append(f"{name}: {e}")
        return cx.finish(DETAIL)
    dv = {what: n_ for n_, what in fl.notes if what.startswith("discriminant(")}
    N = f"disc_{nxt[0][1]}"
    kinds = [n_ for what, n_ in dv.items() if n_ != N]
    zero, cmps = _calls(fn, r"is_zero$"), _calls(fn, r"^<Address as PartialEq>::(eq|ne)$")
    if problems or len(kinds) != 1 or len(zero) != 1 or len(cmps) != 2 or not (prom and re.search(r"PRECOMPILE3|precompile", prom.group(1), re.I)):
        cx.unrecognised(name, "; ".join(problems) or f"shape not recognised (entry-kind tests={len(kinds)}, is_zero tests={len(zero)}, address comparisons={len(cmps)}, precompile constant={bool(prom)})")
        return cx.finish(DETAIL)
    KD, Z = kinds[0], "r_" + zero[0][0]
    eqc = [c for c in cmps if c[2][1].endswith("::eq")]
    nec = [c for c in cmps if c[2][1].endswith("::ne")]
    if len(eqc) != 1 or len(nec) != 1:
        cx.unrecognised(name, "the two address comparisons are not one `==` (precompile quirk) and one `!=` (destroyed account vs target)")
        return cx.finish(DETAIL)
    EQP, NE = "r_" + eqc[0][0], "r_" + nec[0][0]
    SPUR = "arg_4"
    extra = [f"(or (= {v} 0) (= {v} 1))" for v in (N, Z, EQP, NE, SPUR)] + [f"(>= {KD} 0)", f"(< {KD} {len(vnames)})"]
    acc = lambda v, f: f"(+ {ACC} {F[(v, f)]})"
    slot = lambda v: mirflow.combine([str(SLOT), acc(v, "address"), str(F[(v, "key")])])

    def only(g, spec):
        """exactly the listed events (name -> [args]) and stores (name -> (base, val)) happened"""
        parts = []
        for e in EVENTS:
            if e in spec:
                parts.append(f"(= {g('@' + e)} 1)")
                for i, a in enumerate(spec[e]):
                    if a is not None:
                        parts.append(f"(= {g(f'@{e}.{i}')} {a})")
            else:
                parts.append(f"(= {g('@' + e)} 0)")
        nst = 0
        for sname in ("st_nonce", "st_hash", "st_code", "st_present", "st_balance"):
            if sname in spec:
                nst += 1
                parts.append(f"(= {g('@' + sname)} 1)")
                parts.append(f"(= {g('@' + sname + '.base')} {spec[sname][0]})")
                if spec[sname][1] is not None:
                    parts.append(f"(= {g('@' + sname + '.val')} {spec[sname][1]})")
            else:
                parts.append(f"(= {g('@' + sname)} 0)")
        parts.append(f"(= {g('@anystore')} {nst})")
        return "(and " + " ".join(parts) + ")"
    per = []
    for b in ends:
        g = lambda c, b=b: out(c, b)
        back = fn.blocks[b].term == "loopback"
        exp = {
            "AccountWarmed": only(g, {"mark_cold": [acc("AccountWarmed", "address")]}),
            "AccountTouched": f"(ite (and (= {SPUR} 1) (= {EQP} 1)) {only(g, {})} {only(g, {'unmark_touch': [acc('AccountTouched', 'address')]})})",
            "AccountDestroyed": "(and (= {wd} {wdf}) (ite (= {wd} 1) (ite (= {ne} 1) {a1} {a0}) (ite (= {ne} 1) {b1} {b0})))".format(
                wd="wasd", wdf="wasd", ne=NE,
                a1=only(g, {"mark_selfdestruct": [acc("AccountDestroyed", "address")], "add": [f"(+ {acc('AccountDestroyed', 'address')} {BAL})", str(F[("AccountDestroyed", "had_balance")])],
                            "sub": [f"(+ {acc('AccountDestroyed', 'target')} {BAL})", str(F[("AccountDestroyed", "had_balance")])]}),
                a0=only(g, {"mark_selfdestruct": [acc("AccountDestroyed", "address")], "add": [f"(+ {acc('AccountDestroyed', 'address')} {BAL})", str(F[("AccountDestroyed", "had_balance")])]}),
                b1=only(g, {"unmark_selfdestruct": [acc("AccountDestroyed", "address")], "add": [f"(+ {acc('AccountDestroyed', 'address')} {BAL})", str(F[("AccountDestroyed", "had_balance")])],
                            "sub": [f"(+ {acc('AccountDestroyed', 'target')} {BAL})", str(F[("AccountDestroyed", "had_balance")])]}),
                b0=only(g, {"unmark_selfdestruct": [acc("AccountDestroyed", "address")], "add": [f"(+ {acc('AccountDestroyed', 'address')} {BAL})", str(F[("AccountDestroyed", "had_balance")])]})),
            "BalanceTransfer": only(g, {"add": [f"(+ {acc('BalanceTransfer', 'from')} {BAL})", str(F[("BalanceTransfer", "balance")])],
                                        "sub": [f"(+ {acc('BalanceTransfer', 'to')} {BAL})", str(F[("BalanceTransfer", "balance")])]}),
            "NonceChange": only(g, {"st_nonce": (acc("NonceChange", "address"), f"(- (+ {acc('NonceChange', 'address')} {NONCE}) 1)")}),
            # the warm/cold status of the account's slots is not this entry's business: slots warmed in the reverted frame have StorageWarmed entries of their
            # own, slots warm before the creation (access list, earlier access) must stay warm
            "AccountCreated": only(g, {"unmark_created": [acc("AccountCreated", "address")], "st_nonce": (acc("AccountCreated", "address"), "79")}),
            "StorageWarmed": only(g, {"slot_mark_cold": [slot("StorageWarmed")]}),
            "StorageChanged": only(g, {"st_present": (slot("StorageChanged"), str(F[("StorageChanged", "had_value")]))}),
            "TransientStorageChange": "(ite (= {z} 1) {rm} {ins})".format(
                z=Z, rm=only(g, {"t_remove": [None, mirflow.combine([str(F[("TransientStorageChange", "address")]), str(F[("TransientStorageChange", "key")])])]}),
                ins=only(g, {"t_insert": [None, mirflow.combine([str(F[("TransientStorageChange", "address")]), str(F[("TransientStorageChange", "key")])]), str(F[("TransientStorageChange", "had_value")])]})),
            "CodeChange": only(g, {"st_hash": (acc("CodeChange", "address"), "77"), "st_code": (acc("CodeChange", "address"), "78")}),
        }
        chain = only(g, {}) + " ; unreachable"
        body = "false"
        for v in reversed(vnames):
            body = f"(ite (= {KD} {K[v]}) {exp[v]} {body})"
        ok = f"(ite (= {N} 0) (and {only(g, {})} {'false' if back else 'true'}) (and {body} {'true' if back else 'false'}))"
        per.append(f"(and on_{b} (not {ok}))")
    # `wasd`: the recorded was_destroyed flag is what selects mark / unmark
    wd_switch = [b for b in fn.blocks.values() if re.match(r"^switchInt\(copy (_\d+)\)", b.term or "") and
                 any(re.match(r"^%s = copy \(\(_\d+ as AccountDestroyed\)\.%d: bool\)$" % (re.escape(re.match(r"^switchInt\(copy (_\d+)\)", b.term).group(1)), dict(variants)["AccountDestroyed"].index("was_destroyed")), s_)
                     for bb in fn.blocks.values() for s_ in bb.stmts)]
    if len(wd_switch) != 1:
        cx.unrecognised(name, "the was_destroyed flag of AccountDestroyed does not select mark / unmark")
        return cx.finish(DETAIL)
    extra.append("(or (= wasd 0) (= wasd 1))")
    wit = [(v, "(or " + " ".join(f"(and on_{b} (= {KD} {K[v]}) (= {N} 1))" for b in ends) + ")") for v in vnames] + [("exit", "(or " + " ".join(f"(and on_{b} (= {N} 0))" for b in ends) + ")")]
    cx.decide(name, decls, asserts, order, extra, "(or " + " ".join(per) + ")", wit, [N, KD, Z, EQP, NE, SPUR, "wasd"],
              "an entry is not undone exactly as its kind prescribes (right account / slot / key, the recorded value, nothing else touched)")
    return cx.finish(DETAIL)


def _struct_fields(name):
    src = open(os.path.join(REPO, "crates/revm/src/journaled_state.rs")).read()
    m = re.search(r"pub struct %s \{(.*?)\n\}" % name, src, re.S)
    return re.findall(r"^\s*(?:pub )?(\w+):", m.group(1), re.M) if m else []


def run_checkpoint_bookkeeping(tier, log, seed):
    text = mir.dump("revm", log)
    funcs = mir.parse_functions(text)
    cx = _Cx(log)
    jf, cf = _struct_fields("JournaledState"), _struct_fields("JournalCheckpoint")
    if not all(x in jf for x in ("state", "transient_storage", "logs", "depth", "journal")) or cf != ["log_i", "journal_i"]:
        cx.inconcl.append(f"JournaledState fields {jf} / JournalCheckpoint fields {cf}")
        return cx.finish(DETAIL)
    LOGS, DEPTH, JOURNAL, STATE, TRANS = jf.index("logs"), jf.index("depth"), jf.index("journal"), jf.index("state"), jf.index("transient_storage")
    LLEN, JLEN = 3001, 3002

    def body(nm):
        c = [f for n, fl in funcs.items() for f in fl if re.search(r"^journaled_state::<impl at [^>]*>::%s$" % nm, n)]
        return c[0] if len(c) == 1 else None
    depth_rules = [(r"^(Add|Sub)WithOverflow\(copy \(\(\*_1\)\.%d: usize\), const 1_usize\)$" % DEPTH, lambda m_, env: f"({'+' if m_.group(1) == 'Add' else '-'} {env['@depth']} 1)")]
    places = [(r"^\(\(\*_1\)\.%d: usize\)$" % DEPTH, "depth")]

    def ref_const(idx, tag):
        return (r"^&(?:mut )?\(\(\*_1\)\.%d: " % idx, tag)
    base_consts = depth_rules + [ref_const(LOGS, 31), ref_const(JOURNAL, 32), ref_const(STATE, 33), ref_const(TRANS, 34)]
    # ---- checkpoint
    fn = body("checkpoint")
    name = "checkpoint"
    if fn is None:
        cx.unrecognised(name, "MIR body not found")
    else:
        rules = [(r"^Vec::<Log>::len$", lambda c, a, env, b, fl: str(LLEN) if fl.rvalue(a, env, b) == "31" else None),
                 (r"^Vec::<Vec<JournalEntry>>::len$", lambda c, a, env, b, fl: str(JLEN) if fl.rvalue(a, env, b) == "32" else None),
                 (r"^<Vec<JournalEntry> as Default>::default$", "tag:35"), (r"^Vec::<Vec<JournalEntry>>::push$", "record:push:2;count:pushes")]
        fl = mirflow.Flow(fn, rules, base_consts, place_cells=places, init={"@depth": "depth_in"}, store_rules=[(r"^\(", "stores")])
        fl.free["depth_in"] = "(declare-const depth_in Int)"
        try:
            decls, asserts, cells, order, returns, out = fl.encode()
            per = []
            for b in returns:
                g = lambda c: out(c, b)
                ok = (f"(and (= {g('_0.0')} {LLEN}) (= {g('_0.1')} {JLEN}) (= {g('@depth')} (+ depth_in 1)) (= {g('@pushes')} 1) (= {g('@push.0')} 32) (= {g('@push.1')} 35) (= {g('@stores')} 1))")
                per.append(f"(and on_{b} (not {ok}))")
            cx.decide(name, decls, asserts, order, [], "(or " + " ".join(per) + ")", [("return", "(or " + " ".join(f"on_{b}" for b in returns) + ")")], [],
                      "the checkpoint does not remember (logs.len(), journal.len()), or depth is not raised by one, or not exactly one fresh journal vector is pushed")
        except (mir.Unsupported, KeyError) as e:
            cx.unrecognised(name, f"not encodable: {e}")
    # ---- checkpoint_commit
    fn = body("checkpoint_commit")
    name = "checkpoint_commit"
    if fn is None:
        cx.unrecognised(name, "MIR body not found")
    else:
        fl = mirflow.Flow(fn, [(r".", "count:calls")], base_consts, place_cells=places, init={"@depth": "depth_in"}, store_rules=[(r"^\(", "stores")])
        fl.free["depth_in"] = "(declare-const depth_in Int)"
        try:
            decls, asserts, cells, order, returns, out = fl.encode()
            viol = "(or " + " ".join(f"(and on_{b} (not (and (= {out('@depth', b)} (- depth_in 1)) (= {out('@stores', b)} 1) (= {out('@calls', b)} 0))))" for b in returns) + ")"
            cx.decide(name, decls, asserts, order, [], viol, [("return", "(or " + " ".join(f"on_{b}" for b in returns) + ")")], [],
                      "a commit does anything else than lowering depth by one (all journalled changes must stay)")
        except (mir.Unsupported, KeyError) as e:
            cx.unrecognised(name, f"not encodable: {e}")
    # ---- checkpoint_revert (+ its closure)
    fn = body("checkpoint_revert")
    name = "checkpoint_revert"
    clos = [f for n, fl_ in funcs.items() for f in fl_ if re.search(r"^journaled_state::<impl at [^>]*>::checkpoint_revert::\{closure#0\}$", n)]
    if fn is None or len(clos) != 1:
        cx.unrecognised(name, "MIR body or closure not found")
    else:
        cl = clos[0]
        ccalls = [re.sub(r"::<.*?>", "", c[1]) for bb in cl.blocks.values() for c in [mir.call_of(bb.term or "")] if c]
        clos_ok = [c.rstrip(">") for c in ccalls] == ["std::mem::take", "JournaledState::journal_revert"] and re.search(r"journal_revert\(copy _\d+, copy _\d+, move _\d+, move _\d+\)", cl.text) is not None
        agg = [s_ for b in fn.blocks.values() for s_ in b.stmts if re.match(r"^_\d+ = \{closure@[^}]*\} \{ state: copy (_\d+), transient_storage: copy (_\d+), is_spurious_dragon_enabled: move (_\d+) \}$", s_)]
        rules = [(r"^SpecId::enabled$", "tag:41"),
                 (r"^Vec::<Vec<JournalEntry>>::len$", lambda c, a, env, b, fl: str(JLEN) if fl.rvalue(a, env, b) == "32" else None),
                 (r"as DerefMut>::deref_mut$", "arg:0"), (r"::iter_mut$", lambda c, a, env, b, fl: f"(+ {fl.rvalue(a, env, b) or 0} 100)"),
                 (r" as Iterator>::rev$", lambda c, a, env, b, fl: f"(+ {fl.rvalue(a, env, b) or 0} 1000)"),
                 (r" as Iterator>::take$", lambda c, a, env, b, fl: mirflow.combine([fl.rvalue(x, env, b) or "0" for x in mir.split_top(a)[:2]])),
                 (r" as Iterator>::for_each::<", "record:each:1;count:eachs"),
                 (r"^Vec::<Log>::truncate$", "record:tlog:2;count:tlogs"), (r"^Vec::<Vec<JournalEntry>>::truncate$", "record:tj:2;count:tjs")]
        consts = base_consts + [(r"^SubWithOverflow\(copy (_\d+), copy (_\d+)\)$", lambda m_, env: f"(- {env.get(m_.group(1), 0)} {env.get(m_.group(2), 0)})"),
                                (r"^copy \(_2\.0: usize\)$", 61), (r"^copy \(_2\.1: usize\)$", 62)]
        fl = mirflow.Flow(fn, rules, consts, place_cells=places, init={"@depth": "depth_in"}, store_rules=[(r"^\(", "stores")])
        fl.free["depth_in"] = "(declare-const depth_in Int)"
        try:
            decls, asserts, cells, order, returns, out = fl.encode()
            if not clos_ok or len(agg) != 1:
                cx.unrecognised(name, f"the per-vector closure is not `journal_revert(state, transient_storage, take(entries), flag)` (calls {ccalls}, captures recognised={len(agg) == 1})")
            else:
                per = []
                walk = mirflow.combine([str(32 + 100 + 1000), f"(- {JLEN} 62)"])
                for b in returns:
                    g = lambda c: out(c, b)
                    ok = (f"(and (= {g('@depth')} (- depth_in 1)) (= {g('@stores')} 1) (= {g('@eachs')} 1) (= {g('@each.0')} {walk}) "
                          f"(= {g('@tlogs')} 1) (= {g('@tlog.0')} 31) (= {g('@tlog.1')} 61) (= {g('@tjs')} 1) (= {g('@tj.0')} 32) (= {g('@tj.1')} 62))")
                    per.append(f"(and on_{b} (not {ok}))")
                cx.decide(name, decls, asserts, order, [], "(or " + " ".join(per) + ")", [("return", "(or " + " ".join(f"on_{b}" for b in returns) + ")")], [],
                          "depth is not lowered by one, or the journal vectors after the checkpoint are not reverted newest first (iter_mut().rev().take(len - journal_i)), or logs / journal "
                          "are not truncated to the remembered lengths")
        except (mir.Unsupported, KeyError) as e:
            cx.unrecognised(name, f"not encodable: {e}")
    return cx.finish(DETAIL)


# ====================================================================================================================================
# the forward side: every mutation is journalled, with the value the revert needs, and nothing is journalled or changed on a path that changes nothing
def run_forward_journalling(tier, log, seed):
    text = mir.dump("revm", log)
    funcs = mir.parse_functions(text)
    cx = _Cx(log)
    variants = _variants()
    K = {v: i for i, (v, _) in enumerate(variants)}

    def entry_rule():
        def f(m_, env):
            kind, body = m_.group(1), m_.group(2)
            parts = []
            for fld in mir.split_top(body):
                op = fld.split(": ", 1)[1] if ": " in fld else fld
                mo = re.match(r"^(?:copy|move) (_\d+)$", op.strip())
                parts.append(env.get(mo.group(1), "0") if mo else "0")
            return mirflow.combine([str(900 + K.get(kind, 90))] + parts)
        return (r"^JournalEntry::(\w+) \{ (.*) \}$", f)

    def entry(kind, *fields):
        return mirflow.combine([str(900 + K[kind])] + [str(x) for x in fields])

    def body(nm):
        c = [f for n, fl in funcs.items() for f in fl if re.search(r"^journaled_state::<impl at [^>]*>::%s$" % nm, n)]
        return c[0] if len(c) == 1 else None
    common = [(r"^HashMap::<Address, Account>::get_mut::<Address>$", lambda c, a, env, b, fl: f"(+ {ACC} {fl.rvalue(mir.split_top(a)[1], env, b) or 0})"),
              (r"^Option::<&mut \w+>::unwrap$|^Option::<&mut Vec<JournalEntry>>::unwrap$|as DerefMut>::deref_mut$|::last_mut$", "arg:0"),
              (r"^Vec::<JournalEntry>::push$", "record:push:2;count:pushes"),
              (r"^JournaledState::touch_account$", "record:touch:3;count:touches")]
    jf = _struct_fields("JournaledState")
    JR = (r"^&mut \(\(\*_1\)\.%d: " % jf.index("journal"), 32)

    # ---- touch_account
    name, fn = "touch_account", body("touch_account")
    if fn is None:
        cx.unrecognised(name, "MIR body not found")
    else:
        rules = [(r"^Account::is_touched$", "free"), (r"^Account::mark_touch$", "record:mark:1;count:marks"), (r"^Vec::<JournalEntry>::push$", "record:push:2;count:pushes")]
        fl = mirflow.Flow(fn, rules, [entry_rule(), (r"^copy \(\*_2\)$", 52)], store_rules=[(r"^\(", "stores")])
        try:
            decls, asserts, cells, order, returns, out = fl.encode()
            it = _calls(fn, r"^Account::is_touched$")
            if len(it) != 1:
                cx.unrecognised(name, "no single is_touched test")
            else:
                T = "r_" + it[0][0]
                per = []
                for b in returns:
                    g = lambda c: out(c, b)
                    ok = (f"(ite (= {T} 1) (and (= {g('@pushes')} 0) (= {g('@marks')} 0)) (and (= {g('@pushes')} 1) (= {g('@push.0')} arg_1) (= {g('@push.1')} {entry('AccountTouched', 52)}) "
                          f"(= {g('@marks')} 1) (= {g('@mark.0')} arg_3)))")
                    per.append(f"(and on_{b} (not (and {ok} (= {g('@stores')} 0))))")
                cx.decide(name, decls, asserts, order, [f"(or (= {T} 0) (= {T} 1))"], "(or " + " ".join(per) + ")",
                          [("first touch", "(or " + " ".join(f"(and on_{b} (= {out('@pushes', b)} 1))" for b in returns) + ")")], [T],
                          "a first touch is not journalled as AccountTouched{address} before the account is marked, or a repeated touch journals / marks again")
        except (mir.Unsupported, KeyError) as e:
            cx.unrecognised(name, f"not encodable: {e}")

    # ---- inc_nonce
    name, fn = "inc_nonce", body("inc_nonce")
    if fn is None:
        cx.unrecognised(name, "MIR body not found")
    else:
        consts = [entry_rule(), JR, (r"^Eq\((?:move|copy) (_\d+), const core::num::<impl u64>::MAX\)$", lambda m_, env: "at_max"),
                  (r"^copy \(\(\(\*(_\d+)\)\.0: (\w+::)*AccountInfo\)\.1: u64\)$", lambda m_, env: f"(+ {env.get(m_.group(1), 0)} {NONCE})"),
                  (r"^AddWithOverflow\(copy \(\(\(\*(_\d+)\)\.0: (\w+::)*AccountInfo\)\.1: u64\), const 1_u64\)$", lambda m_, env: f"(+ (+ {env.get(m_.group(1), 0)} {NONCE}) 1)"),
                  (r"^Option::<u64>::None$", 90)]
        srec = [(r"^\(\(\(\*(_\d+)\)\.0: (?:\w+::)*AccountInfo\)\.1: u64\)$", "st_nonce")]
        fl = mirflow.Flow(fn, common, consts, store_records=srec, store_rules=[(r"^\(", "stores")])
        fl.free["at_max"] = "(declare-const at_max Int)"
        try:
            decls, asserts, cells, order, returns, out = fl.encode()
            A = f"(+ {ACC} arg_2)"
            per = []
            for b in returns:
                g = lambda c: out(c, b)
                ok = (f"(ite (= at_max 1) (and (= {g('_0')} 90) (= {g('@pushes')} 0) (= {g('@touches')} 0) (= {g('@stores')} 0)) "
                      f"(and (= {g('@touches')} 1) (= {g('@touch.2')} {A}) (= {g('@pushes')} 1) (= {g('@push.1')} {entry('NonceChange', 'arg_2')}) "
                      f"(= {g('@st_nonce')} 1) (= {g('@st_nonce.base')} {A}) (= {g('@st_nonce.val')} (+ (+ {A} {NONCE}) 1)) (= {g('@stores')} 1)))")
                per.append(f"(and on_{b} (not {ok}))")
            cx.decide(name, decls, asserts, order, ["(or (= at_max 0) (= at_max 1))"], "(or " + " ".join(per) + ")",
                      [("bumped", "(or " + " ".join(f"(and on_{b} (= {out('@pushes', b)} 1))" for b in returns) + ")"), ("refused", "(or " + " ".join(f"(and on_{b} (= at_max 1))" for b in returns) + ")")],
                      ["at_max"], "a refused bump (nonce at its maximum) changes or journals something, or a bump is not journalled as NonceChange{address} with the nonce raised by exactly one")
        except (mir.Unsupported, KeyError) as e:
            cx.unrecognised(name, f"not encodable: {e}")

    # ---- set_code_with_hash
    name, fn = "set_code_with_hash", body("set_code_with_hash")
    if fn is None:
        cx.unrecognised(name, "MIR body not found")
    else:
        srec = [(r"^\(\(\(\*(_\d+)\)\.0: (?:\w+::)*AccountInfo\)\.2: .*FixedBytes<32>\)$", "st_hash"), (r"^\(\(\(\*(_\d+)\)\.0: (?:\w+::)*AccountInfo\)\.3: .*Option<.*Bytecode>\)$", "st_code")]
        fl = mirflow.Flow(fn, common, [entry_rule(), JR], store_records=srec, store_rules=[(r"^\(", "stores")])
        try:
            decls, asserts, cells, order, returns, out = fl.encode()
            A = f"(+ {ACC} arg_2)"
            per = []
            for b in returns:
                g = lambda c: out(c, b)
                ok = (f"(and (= {g('@touches')} 1) (= {g('@touch.2')} {A}) (= {g('@pushes')} 1) (= {g('@push.1')} {entry('CodeChange', 'arg_2')}) (= {g('@st_hash')} 1) (= {g('@st_hash.base')} {A}) "
                      f"(= {g('@st_hash.val')} arg_4) (= {g('@st_code')} 1) (= {g('@st_code.base')} {A}) (= {g('@st_code.val')} arg_3) (= {g('@stores')} 2))")
                per.append(f"(and on_{b} (not {ok}))")
            cx.decide(name, decls, asserts, order, [], "(or " + " ".join(per) + ")", [("return", "(or " + " ".join(f"on_{b}" for b in returns) + ")")], [],
                      "setting code is not journalled as CodeChange{address}, or does not install exactly the given hash and code on that account")
        except (mir.Unsupported, KeyError) as e:
            cx.unrecognised(name, f"not encodable: {e}")

    # ---- sstore
    name, fn = "sstore", body("sstore")
    if fn is None:
        cx.unrecognised(name, "MIR body not found")
    else:
        rules = common + [(r"^JournaledState::sload::<", "tag:4000"), (r" as Try>::branch$", "arg:0"), (r"from_residual$", "tag:14"),
                          (r"^HashMap::<Uint<256, 4>, EvmStorageSlot>::get_mut::<Uint<256, 4>>$", lambda c, a, env, b, fl: mirflow.combine([str(SLOT)] + [fl.rvalue(x, env, b) or "0" for x in mir.split_top(a)[:2]])),
                          (r"^<Uint<256, 4> as PartialEq>::eq$", "record:cmp:2;free")]
        consts = [entry_rule(), JR, (r"^(?:copy|&)\s*\((_\d+)\.0: ruint::Uint<256, 4>\)$", lambda m_, env: f"(+ {env.get(m_.group(1), 0)} 7)"),
                  (r"^&mut \(\(\*(_\d+)\)\.1: std::collections::HashMap<ruint::Uint<256, 4>, (\w+::)*EvmStorageSlot>\)$", lambda m_, env: env.get(m_.group(1), "0"))]
        srec = [(r"^\(\(\*(_\d+)\)\.1: ruint::Uint<256, 4>\)$", "st_present")]
        fl = mirflow.Flow(fn, rules, consts, store_records=srec, store_rules=[(r"^\(", "stores")])
        try:
            decls, asserts, cells, order, returns, out = fl.encode()
            eq = _calls(fn, r"^<Uint<256, 4> as PartialEq>::eq$")
            if len(eq) != 1:
                cx.unrecognised(name, "no single comparison of the present value with the new one")
            else:
                E = "r_" + eq[0][0]
                PRESENT = "(+ 4000 7)"
                SL = mirflow.combine([str(SLOT), f"(+ {ACC} arg_2)", "arg_3"])
                per = []
                for b in returns:
                    g = lambda c: out(c, b)
                    ok = (f"(and (= {g('@cmp.0')} {PRESENT}) (= {g('@cmp.1')} arg_4) (ite (= {E} 1) (and (= {g('@pushes')} 0) (= {g('@stores')} 0)) "
                          f"(and (= {g('@pushes')} 1) (= {g('@push.1')} {entry('StorageChanged', 'arg_2', 'arg_3', PRESENT)}) (= {g('@st_present')} 1) (= {g('@st_present.base')} {SL}) "
                          f"(= {g('@st_present.val')} arg_4) (= {g('@stores')} 1))))")
                    per.append(f"(and on_{b} (not (= {g('_0')} 14)) (not {ok}))")
                cx.decide(name, decls, asserts, order, [f"(or (= {E} 0) (= {E} 1))"], "(or " + " ".join(per) + ")",
                          [("changed", "(or " + " ".join(f"(and on_{b} (= {out('@pushes', b)} 1))" for b in returns) + ")"), ("same value", "(or " + " ".join(f"(and on_{b} (= {E} 1) (not (= {out('_0', b)} 14)))" for b in returns) + ")")],
                          [E], "a write of a different value is not journalled as StorageChanged{address, key, had_value: the value just loaded} before the slot (address, key) takes the new value, "
                               "or a write of the same value journals or stores")
        except (mir.Unsupported, KeyError) as e:
            cx.unrecognised(name, f"not encodable: {e}")

    # ---- tstore
    name, fn = "tstore", body("tstore")
    if fn is None:
        cx.unrecognised(name, "MIR body not found")
    else:
        rules = common + [(r"Uint<256, 4>>::is_zero$", "record:zarg:1;free"),
                          (r"^HashMap::<\(Address, Uint<256, 4>\), Uint<256, 4>>::remove::<", "record:rm:2;count:rms;tag:5001"),
                          (r"^HashMap::<\(Address, Uint<256, 4>\), Uint<256, 4>>::insert$", "record:ins:3;count:inss;tag:5002"),
                          (r"::unwrap_or_default$", "arg:0"), (r"^<Uint<256, 4> as PartialEq>::ne$", "record:cmp:2;free")]
        fl = mirflow.Flow(fn, rules, [entry_rule(), JR], store_rules=[(r"^\(", "stores")])
        try:
            decls, asserts, cells, order, returns, out = fl.encode()
            z, ne, rm = _calls(fn, r"is_zero$"), _calls(fn, r"^<Uint<256, 4> as PartialEq>::ne$"), _calls(fn, r"::remove::<")
            if not (len(z) == 1 and len(ne) == 1 and len(rm) == 1):
                cx.unrecognised(name, "shape not recognised (is_zero / != / remove)")
            else:
                Z, NEQ, RMD = "r_" + z[0][0], "r_" + ne[0][0], f"disc_{rm[0][1]}"
                KEY = mirflow.combine(["arg_2", "arg_3"])
                per = []
                for b in returns:
                    g = lambda c: out(c, b)
                    j = lambda had: f"(and (= {g('@pushes')} 1) (= {g('@push.1')} {entry('TransientStorageChange', 'arg_2', 'arg_3', had)}))"
                    nz = f"(and (= {g('@inss')} 1) (= {g('@ins.1')} {KEY}) (= {g('@ins.2')} arg_4) (= {g('@rms')} 0) (= {g('@cmp.0')} 5002) (= {g('@cmp.1')} arg_4) (ite (= {NEQ} 1) {j(5002)} (= {g('@pushes')} 0)))"
                    zz = f"(and (= {g('@rms')} 1) (= {g('@rm.1')} {KEY}) (= {g('@inss')} 0) (ite (= {RMD} 1) {j(5001)} (= {g('@pushes')} 0)))"
                    ok = f"(and (= {g('@zarg.0')} arg_4) (= {g('@stores')} 0) (ite (= {Z} 1) {zz} {nz}))"
                    per.append(f"(and on_{b} (not {ok}))")
                cx.decide(name, decls, asserts, order, [f"(or (= {v} 0) (= {v} 1))" for v in (Z, NEQ, RMD)], "(or " + " ".join(per) + ")",
                          [("journalled", "(or " + " ".join(f"(and on_{b} (= {out('@pushes', b)} 1))" for b in returns) + ")"), ("unchanged", "(or " + " ".join(f"(and on_{b} (= {out('@pushes', b)} 0))" for b in returns) + ")")],
                          [Z, NEQ, RMD], "a transient write is not applied to the key (address, key), or a changed value is not journalled with the value that was there before (a removed / "
                                        "overwritten value), or an unchanged one is journalled")
        except (mir.Unsupported, KeyError) as e:
            cx.unrecognised(name, f"not encodable: {e}")
    # ---- selfdestruct: what is journalled (the value moves themselves are decided under C08)
    name, fn = "selfdestruct", body("selfdestruct")
    if fn is None:
        cx.unrecognised(name, "MIR body not found")
    else:
        def read_balance(m_, env):
            return f"(+ (+ {env.get(m_.group(1), 0)} {BAL}) (* 1000000 {env['@zeroed']}))"

        def was_destroyed(callee, args, env, b, flow):
            t = flow.rvalue(args, env, b)
            return f"(+ (+ {t if t is not None else 0} 5) (* 1000000 {env['@marks']}))"
        rules = common + [(r"^JournaledState::load_account::<", "tag:4100"), (r" as Try>::branch$", "arg:0"), (r"from_residual$", "tag:14"), (r"as Deref>::deref$", "arg:0"),
                          (r"^Account::is_selfdestructed$", was_destroyed), (r"^Account::mark_selfdestruct$", "record:mark:1;count:marks"),
                          (r"^Account::is_created$", "record:crarg:1;free"), (r"^SpecId::enabled$", "free"), (r"^<Address as PartialEq>::ne$", "record:nearg:2;free"),
                          (r"^<Uint<256, 4> as AddAssign>::add_assign$", "count:credits")]
        consts = [entry_rule(), JR, (r"^copy \(\(\(\*(_\d+)\)\.0: (\w+::)*AccountInfo\)\.0: ruint::Uint<256, 4>\)$", read_balance),
                  (r"^const ruint::Uint::<256, 4>::ZERO$", 12), (r"^Option::<JournalEntry>::None$", 90)]
        srec = [(r"^\(\(\(\*(_\d+)\)\.0: (?:\w+::)*AccountInfo\)\.0: ruint::Uint<256, 4>\)$", "zeroed")]
        fl = mirflow.Flow(fn, rules, consts, store_records=srec)
        try:
            decls, asserts, cells, order, returns, out = fl.encode()
            cr, en, nes = _calls(fn, r"^Account::is_created$"), _calls(fn, r"^SpecId::enabled$"), _calls(fn, r"^<Address as PartialEq>::ne$")
            cancun_ok = bool(re.search(r"_\d+ = (?:const )?SpecId::CANCUN;", fn.text))
            if not (len(cr) == 1 and len(en) == 1 and 1 <= len(nes) <= 2 and cancun_ok):
                cx.unrecognised(name, f"shape not recognised (is_created={len(cr)} SpecId::enabled={len(en)} address comparisons={len(nes)} CANCUN constant={cancun_ok})")
            else:
                C, CN = "r_" + cr[0][0], "r_" + en[0][0]
                NEs = ["r_" + x[0] for x in nes]
                extra = [f"(or (= {v} 0) (= {v} 1))" for v in [C, CN] + NEs] + [f"(= {NEs[0]} {x})" for x in NEs[1:]]
                A = f"(+ {ACC} arg_2)"
                BEFORE = f"(+ {A} {BAL})"          # the contract's balance, read before it is zeroed (zeroed count 0 at the time of the read)
                WAS = f"(+ {A} 5)"                 # is_selfdestructed(contract), read before it is marked
                per = []
                for b in returns:
                    g = lambda c: out(c, b)
                    destroyed = (f"(and (= {g('@pushes')} 1) (= {g('@push.1')} {entry('AccountDestroyed', 'arg_2', 'arg_3', WAS, BEFORE)}) (= {g('@marks')} 1) (= {g('@mark.0')} {A}) "
                                 f"(= {g('@zeroed')} 1) (= {g('@zeroed.base')} {A}) (= {g('@zeroed.val')} 12))")
                    moved = (f"(and (= {g('@pushes')} 1) (= {g('@push.1')} {entry('BalanceTransfer', 'arg_2', 'arg_3', BEFORE)}) (= {g('@marks')} 0) "
                             f"(= {g('@zeroed')} 1) (= {g('@zeroed.base')} {A}) (= {g('@zeroed.val')} 12))")
                    nothing = f"(and (= {g('@pushes')} 0) (= {g('@marks')} 0) (= {g('@zeroed')} 0))"
                    ok = (f"(and (= {g('@crarg.0')} {A}) (= {g('@credits')} {NEs[0]}) "
                          f"(ite (or (= {C} 1) (= {CN} 0)) {destroyed} (ite (= {NEs[0]} 1) {moved} {nothing})))")
                    per.append(f"(and on_{b} (not (= {g('_0')} 14)) (not {ok}))")
                wit = [("destroyed", "(or " + " ".join(f"(and on_{b} (= {out('@marks', b)} 1))" for b in returns) + ")"),
                       ("balance moved only", "(or " + " ".join(f"(and on_{b} (= {out('@marks', b)} 0) (= {out('@pushes', b)} 1))" for b in returns) + ")"),
                       ("nothing", "(or " + " ".join(f"(and on_{b} (= {out('@pushes', b)} 0) (not (= {out('_0', b)} 14)))" for b in returns) + ")")]
                cx.decide(name, decls, asserts, order, extra, "(or " + " ".join(per) + ")", wit, [C, CN] + NEs,
                          "a self-destruct is not journalled as AccountDestroyed{address, target, was_destroyed: the flag before marking, had_balance: the balance before zeroing} (created in this "
                          "transaction or before Cancun) / BalanceTransfer{from, to, balance} (Cancun, other target) / nothing (Cancun, own address), or the entry does not match what was changed")
        except (mir.Unsupported, KeyError) as e:
            cx.unrecognised(name, f"not encodable: {e}")
    return cx.finish("forward journalling: touch_account, inc_nonce, set_code_with_hash, sstore, tstore, selfdestruct - one journal entry of the right kind with the pre-value, exactly when something changes; "
                     "transfer / create_account_checkpoint / selfdestruct value moves are under C08 / C21, load_account / sload warming under C34")
