"""C30 / C28 kernels: the wrappers that inspector_handle_register installs around instructions, decided by provenance-flow symbolic execution of
their MIR (lib/mirflow.py) + SMT over every path.

  C30: the SELFDESTRUCT wrapper notifies the inspector exactly when the wrapped instruction completed as a self-destruct, once, naming the executing
       contract, the beneficiary word that was on top of the stack before the instruction ran, and the balance that left the contract.
  C28: inspector_instruction runs the wrapped instruction exactly once, with the instruction pointer it found, between one step and one step_end.
"""
import os, re
import mir, smt, native, mirflow

REPO = os.environ.get("VERIF_REPO", "/repo")


def _fields(path, name):
    src = open(os.path.join(REPO, path)).read()
    m = re.search(r"pub struct %s(?:<[^>]*>)? \{(.*?)\n\}" % name, src, re.S)
    return re.findall(r"^\s*pub (\w+):", m.group(1), re.M) if m else []


def _calls(fn, rx):
    out = []
    for b in fn.blocks.values():
        c = mir.call_of(b.term or "")
        if c and re.search(rx, c[1]):
            out.append((b.name, (c[0] or "").strip(), c))
    return out


class _Cx:
    def __init__(self, log, scenario):
        self.log, self.duo, self.scenario = log, smt.Duo(timeout_s=30), scenario
        self.failures, self.inconcl, self.samples, self._r = [], [], [], None

    def replay(self, name):
        if self._r is None:
            self._r = native.call("debug", self.scenario, log=self.log)
        st, outp = self._r
        if st != "ok":
            return None, f"native scenario failed: {st} {outp[:200]}"
        return [t for t in re.findall(r"\[([^\]]*)\]", outp) if t.startswith(name + " ") and "MISMATCH" in t], None

    def unrecognised(self, name, why):
        bad, err = self.replay(name)
        if bad:
            self.failures.append(dict(id=name, reproduced=True, description=f"{name}: {why}; the native scenarios disagree: {bad}"))
        else:
            self.inconcl.append(f"{name}: {why}" + (f" ({err})" if err else " (native scenarios agree)"))

    def decide(self, name, decls, asserts, order, extra, viol, witnesses, note_names, what):
        v, model, detail = self.duo.check(decls, asserts + extra + [viol], want_model_of=[f"on_{b}" for b in order] + note_names)
        self.samples.append(f"{name}: {len(order)} blocks, inputs {note_names}: a path on which {what}: {v}")
        self.log(f"[wrap] {self.samples[-1]}")
        if v == "unsat":
            for wn, wq in witnesses:
                wv, _, _ = self.duo.check(decls, asserts + extra + [wq])
                if wv != "sat":
                    self.unrecognised(name, f"vacuity witness `{wn}` is {wv}")
                    return
            return
        if v != "sat":
            self.inconcl.append(f"{name}: {detail}")
            return
        path = sorted([b for b in order if re.search(r"\(on_%s true\)" % b, model)], key=lambda x: int(x[2:]))
        vals = {n_: (re.search(r"\(%s (\d+)\)" % re.escape(n_), model) or [None, "?"])[1] for n_ in note_names}
        bad, err = self.replay(name)
        desc = f"{name}: {what} on path {'>'.join(path[-8:])} with {vals}"
        if err:
            self.inconcl.append(desc + f" ({err})")
        else:
            self.failures.append(dict(id=name, reproduced=bool(bad), description=desc + f" | native: {bad or 'all scenarios agree'}"))

    def finish(self, detail):
        res = dict(queries=self.duo.queries, solver_s=self.duo.time, engine="mir provenance-flow -> smtlib (z3 4.8.12 + cvc5 1.0)", bounds="; ".join(self.samples), detail=detail)
        self.duo.close()
        if any(f.get("reproduced") for f in self.failures):
            res.update(status="fail", failures=self.failures, reason=self.failures[0]["description"][:300])
        elif self.inconcl or self.failures:
            res.update(status="inconclusive", reason="; ".join(self.inconcl + [f["description"] for f in self.failures])[:600])
        else:
            res.update(status="pass")
        return res


def run_selfdestruct_notification(tier, log, seed):
    text = mir.dump("revm", log)
    funcs = mir.parse_functions(text)
    cx = _Cx(log, "selfdestruct_notify")
    name = "selfdestruct-wrapper"
    detail = ("notification <=> the wrapped instruction returned with instruction_result == SelfDestruct (tested after it ran) and a beneficiary word was on the stack; "
              "arguments: contract.target_address, Address::from_word(top of stack before the instruction), balance(contract) before minus after (saturating)")
    cl = [f for n, fl in funcs.items() for f in fl if re.match(r"^inspector_handle_register::\{closure#\d+\}$", n) and re.search(r"as Inspector<DB>>::selfdestruct\(", f.text)]
    ifields, cfields = _fields("crates/interpreter/src/interpreter.rs", "Interpreter"), _fields("crates/interpreter/src/interpreter/contract.rs", "Contract")
    if len(cl) != 1 or "contract" not in ifields or "target_address" not in cfields or "instruction_result" not in ifields or "stack" not in ifields:
        cx.inconcl.append(f"{name}: {len(cl)} closures notify selfdestruct / Interpreter fields {ifields[:4]}.. / Contract fields {cfields[:4]}..")
        return cx.finish(detail)
    fn = cl[0]
    CONTRACT, PEEK, BAL, KEY = 7000, 8000, 9000, 7000
    ci, ti, ri, si = ifields.index("contract"), cfields.index("target_address"), ifields.index("instruction_result"), ifields.index("stack")
    problems = []

    def at(base):
        return lambda callee, args, env, b, flow: f"(+ {base} (* 10 {env['@prevcalls']}))"

    def state_get(callee, args, env, b, flow):
        al = mir.split_top(args)
        k = flow.rvalue(al[1], env, b) if len(al) > 1 else None
        env["@badkey"] = f"(+ {env['@badkey']} (ite (= {k if k is not None else 0} {CONTRACT}) 0 1))"  # the key is a cell: compared by the solver
        return f"(+ {BAL} (* 10 {env['@prevcalls']}))"

    def opt_map(callee, args, env, b, flow):
        whole = callee + "(" + args
        m = re.search(r"(?:move|copy) (_\d+)", args)
        t = env.get(m.group(1)) if m else None
        mc = re.search(r"\{closure@([^}]*)\}", whole)
        cls = [f for n, fl_ in funcs.items() for f in fl_ if mc and "{closure#" in n and ("{closure@" + mc.group(1) + "}") in f.text.split("\n")[0]]
        if t is None or len(cls) != 1:
            problems.append(f"closure of Option::map not found in {b}")
            return None
        body = cls[0].text
        calls = [re.sub(r"::<.*?>", "", c[1]) for bb in cls[0].blocks.values() for c in [mir.call_of(bb.term or "")] if c]
        if re.search(r"::map::<Address, ", whole):
            if calls == ["<FixedBytes<32> as From<Uint<256, 4>>>::from", "Address::from_word"]:
                return f"(+ {t} 100000)"
            problems.append(f"beneficiary conversion is not Address::from_word(B256::from(word)) in {b}: {calls}")
            return None
        if re.search(r"::map::<Uint<256, 4>, ", whole):
            if not calls and re.search(r"_0 = copy \(\(\(\*_2\)\.0: (\w+::)*AccountInfo\)\.0: ruint::Uint<256, 4>\)", body):
                return f"(+ {t} 200000)"
            problems.append(f"balance closure not recognised in {b}")
            return None
        return None
    rules = [(r" as Fn<\(&mut Interpreter, &mut .*Context<.*>\)>>::call$", "record:prev:2;count:prevcalls"),
             (r"^Stack::peek$", lambda c, a, env, b, fl: f"(+ {PEEK} (* 10 {env['@prevcalls']}))" if re.search(r", const 0_usize$", a) else None),
             (r"^Result::<Uint<256, 4>, InstructionResult>::ok$|::unwrap_or_default$|as Deref>::deref$", "arg:0"),
             (r"^Option::<.*>::map::<", opt_map),
             (r"^HashMap::<Address, Account>::get::<Address>$", state_get),
             (r"saturating_sub$", lambda c, a, env, b, fl: mirflow.combine([fl.rvalue(x, env, b) or "0" for x in mir.split_top(a)[:2]])),
             (r"^<InstructionResult as PartialEq>::eq$", "record:eqat:0;free"),
             (r"get_inspector$", "tag:66"),
             (r"as Inspector<DB>>::selfdestruct$", "record:note:4;count:notes")]
    consts = [(r"^copy \(\(\(\*_3\)\.%d: (\w+::)*Contract\)\.%d: (\w+::)*Address\)$" % (ci, ti), CONTRACT)]
    fl = mirflow.Flow(fn, rules, consts, extra_cells=["@eqtime", "@badkey"])
    # remember how many times the instruction had run when the result was tested
    for i, (rx, act) in enumerate(fl.call_rules):
        if rx == r"^<InstructionResult as PartialEq>::eq$":
            def eq_rule(callee, args, env, b, flow):
                env["@eqtime"] = env["@prevcalls"]
                return flow.fresh(f"r_{b}", f"result of the instruction_result test in {b}")
            fl.call_rules[i] = (rx, eq_rule)
    try:
        decls, asserts, cells, order, returns, out = fl.encode()
    except mir.Unsupported as e:
        cx.inconcl.append(f"{name}: {e}")
        return cx.finish(detail)
    eq = _calls(fn, r"^<InstructionResult as PartialEq>::eq$")
    prom = re.search(r"inspector_handle_register::\{closure#\d+\}::promoted\[0\]: &(?:\w+::)*InstructionResult = \{(.*?)\n\}", text, re.S)
    eq_ok = False
    if len(eq) == 1 and prom and re.search(r"= (?:const )?(?:\w+::)*InstructionResult::SelfDestruct;", prom.group(1)):
        a0 = re.match(r"^(?:move|copy) (_\d+)$", mir.split_top(eq[0][2][2])[0].strip())
        d0 = [s_ for b in fn.blocks.values() for s_ in b.stmts if a0 and s_.startswith(a0.group(1) + " = ")]
        eq_ok = len(d0) == 1 and re.match(r"^_\d+ = &\(\(\*_3\)\.%d: (\w+::)*InstructionResult\)$" % ri, d0[0]) is not None
    tgt = [n_ for n_, what in fl.notes if what.startswith("discriminant(")]
    if problems or not eq_ok or len(tgt) != 1:
        cx.unrecognised(name, "; ".join(problems) or f"no test of interpreter.instruction_result against SelfDestruct after the instruction (tests found: {len(eq)}), beneficiary option tests: {tgt}")
        return cx.finish(detail)
    R, T = "r_" + eq[0][0], tgt[0]
    extra = [f"(or (= {R} 0) (= {R} 1))", f"(or (= {T} 0) (= {T} 1))"]
    per = []
    for b in returns:
        g = lambda c: out(c, b)
        told = (f"(and (= {g('@notes')} 1) (= {g('@note.1')} {CONTRACT}) (= {g('@note.2')} (+ {PEEK} 100000)) "
                f"(= {g('@note.3')} {mirflow.combine([str(BAL + 200000), str(BAL + 10 + 200000)])}))")
        ok = (f"(and (= {g('@prevcalls')} 1) (= {g('@prev.1')} {mirflow.combine(['arg_3', 'arg_4'])}) (= {g('@eqtime')} 1) (= {g('@badkey')} 0) "
              f"(ite (and (= {R} 1) (= {T} 1)) {told} (= {g('@notes')} 0)))")
        per.append(f"(and on_{b} (not {ok}))")
    wit = [("notified", "(or " + " ".join(f"(and on_{b} (= {out('@notes', b)} 1))" for b in returns) + ")"),
           ("silent", "(or " + " ".join(f"(and on_{b} (= {out('@notes', b)} 0))" for b in returns) + ")")]
    cx.decide(name, decls, asserts, order, extra, "(or " + " ".join(per) + ")", wit, [R, T],
              "the instruction is not run exactly once, or the notification is not tied to its completion, or does not name (contract, top-of-stack beneficiary, balance that left)")
    return cx.finish(detail)


# ====================================================================================================================================
# C28: transparency of the wrappers for an inspector that only observes
BOXREF = (r"^copy \(\((_\d+)\.0: std::ptr::Unique<.*>\)\.0: std::ptr::NonNull<.*>\) as \*(?:const|mut) .* \(Transmute\)$", lambda m, env: env.get(m.group(1)))
PREV = 55


def run_inspector_transparency(tier, log, seed):
    text = mir.dump("revm", log)
    funcs = mir.parse_functions(text)
    cx = _Cx(log, "inspector_transparency")
    detail = ("inspector_instruction: one step, the wrapped instruction exactly once with the instruction pointer it found and the same arguments, one step_end (none of the two "
              "after a step that set a result); frame wrappers: the previous handler runs exactly once with the wrapper's own arguments unless the inspector answered, its "
              "result is returned unchanged; outcome wrappers hand the previous handler what the inspector's *_end returned for the outcome they were given")
    # ---------------------------------------------------------------- inspector_instruction
    name = "inspector_instruction"
    cands = [f for n, fl in funcs.items() for f in fl if n == "inspector_instruction" or n.endswith("::inspector_instruction")]
    ifields = _fields("crates/interpreter/src/interpreter.rs", "Interpreter")
    if len(cands) != 1 or ifields[:1] != ["instruction_pointer"] or "instruction_result" not in ifields:
        cx.inconcl.append(f"{name}: {len(cands)} MIR bodies / Interpreter fields {ifields[:4]}")
    else:
        fn = cands[0]
        ri = ifields.index("instruction_result")

        def ptr_op(sign):
            def f(callee, args, env, b, flow):
                al = mir.split_top(args)
                t = flow.rvalue(al[0], env, b)
                return f"({sign} {t} 1)" if t is not None and al[1].strip() == "const 1_usize" else None
            return f

        def snap(cell):
            def f(callee, args, env, b, flow):
                env[cell] = env["@ip"]
                return None
            return f
        rules = [(r"const_ptr::<impl \*const u8>::sub$", ptr_op("-")), (r"const_ptr::<impl \*const u8>::add$", ptr_op("+")),
                 (r"as Inspector<DB>>::step$", "count:steps"), (r"as Inspector<DB>>::step_end$", "count:stepends"),
                 (r" as Fn<\(&mut Interpreter, &mut .*Context<.*>\)>>::call$", "record:prev:2;count:prevcalls"),
                 (r"^<InstructionResult as PartialEq>::ne$", "free"), (r"get_inspector$", "tag:66")]
        fl = mirflow.Flow(fn, rules, [], place_cells=[(r"^\(\(\*_2\)\.0: \*const u8\)$", "ip")], extra_cells=["@ip_step", "@ip_prev", "@ip_end"], init={"@ip": "ip_in"})
        fl.free["ip_in"] = "(declare-const ip_in Int)"
        # snapshot the instruction pointer at the three events
        fl.call_rules = [(r"as Inspector<DB>>::step$", lambda c, a, env, b, f_: (env.__setitem__("@steps", f"(+ {env['@steps']} 1)"), env.__setitem__("@ip_step", env["@ip"]), None)[2]),
                         (r"as Inspector<DB>>::step_end$", lambda c, a, env, b, f_: (env.__setitem__("@stepends", f"(+ {env['@stepends']} 1)"), env.__setitem__("@ip_end", env["@ip"]), None)[2]),
                         (r" as Fn<\(&mut Interpreter, &mut .*Context<.*>\)>>::call$",
                          lambda c, a, env, b, f_: (env.__setitem__("@prevcalls", f"(+ {env['@prevcalls']} 1)"), env.__setitem__("@ip_prev", env["@ip"]),
                                                    env.__setitem__("@prevargs", f_.rvalue(mir.split_top(a)[1], env, b) or "0"), None)[3])] + fl.call_rules[:2] + fl.call_rules[5:]
        fl.extra_cells += ["@steps", "@stepends", "@prevcalls", "@prevargs"]
        try:
            decls, asserts, cells, order, returns, out = fl.encode()
            ne = _calls(fn, r"^<InstructionResult as PartialEq>::ne$")
            prom = re.search(r"inspector_instruction::promoted\[0\]: &(?:\w+::)*InstructionResult = \{(.*?)\n\}", text, re.S)
            ok_ne = False
            if len(ne) == 1 and prom and re.search(r"= (?:const )?(?:\w+::)*InstructionResult::Continue;", prom.group(1)):
                a0 = re.match(r"^(?:move|copy) (_\d+)$", mir.split_top(ne[0][2][2])[0].strip())
                d0 = [s_ for b in fn.blocks.values() for s_ in b.stmts if a0 and s_.startswith(a0.group(1) + " = ")]
                ok_ne = len(d0) == 1 and re.match(r"^_\d+ = &\(\(\*_2\)\.%d: (\w+::)*InstructionResult\)$" % ri, d0[0]) is not None
            if not ok_ne:
                cx.unrecognised(name, "the test of instruction_result against Continue after step was not recognised")
            else:
                R = "r_" + ne[0][0]
                per = []
                for b in returns:
                    g = lambda c: out(c, b)
                    ran = f"(and (= {g('@prevcalls')} 1) (= {g('@ip_prev')} ip_in) (= {g('@prevargs')} {mirflow.combine(['arg_2', 'arg_3'])}) (= {g('@stepends')} 1) (= {g('@ip_end')} ip_in) (= {g('@ip')} ip_in))"
                    ok = f"(and (= {g('@steps')} 1) (= {g('@ip_step')} (- ip_in 1)) (ite (= {R} 0) {ran} (and (= {g('@prevcalls')} 0) (= {g('@stepends')} 0))))"
                    per.append(f"(and on_{b} (not {ok}))")
                wit = [("runs", "(or " + " ".join(f"(and on_{b} (= {out('@prevcalls', b)} 1))" for b in returns) + ")")]
                cx.decide(name, decls, asserts, order, [f"(or (= {R} 0) (= {R} 1))"], "(or " + " ".join(per) + ")", wit, [R],
                          "the wrapped instruction is not run exactly once between one step and one step_end with the instruction pointer and arguments it would have had without an inspector")
        except mir.Unsupported as e:
            cx.inconcl.append(f"{name}: {e}")

    # ---------------------------------------------------------------- frame wrappers
    closures = [(n, fl[0]) for n, fl in funcs.items() if re.match(r"^inspector_handle_register::\{closure#\d+\}$", n)]
    frs = re.search(r"pub enum FrameResult \{(.*?)\n\}", open(os.path.join(REPO, "crates/revm/src/frame.rs")).read(), re.S)
    variants = re.findall(r"^\s*([A-Z]\w*)\(", frs.group(1), re.M) if frs else []
    for hook, kind in (("call", "Call"), ("create", "Create"), ("eofcreate", "EOFCreate")):
        name = f"{hook}-wrapper"
        cl = [f for n, f in closures if re.search(r"as Inspector<DB>>::%s\(" % hook, f.text)]
        if len(cl) != 1:
            cx.unrecognised(name, f"{len(cl)} closures call Inspector::{hook}")
            continue
        fn = cl[0]
        rules = [(r"as Inspector<DB>>::%s$" % hook, "record:hook:3;count:hooks;free"),
                 (r" as Fn<\(&mut .*Context<.*>, Box<\w+>\)>>::call$", f"record:prev:2;count:prevcalls;tag:{PREV}"),
                 (r"as Deref>::deref$|as DerefMut>::deref_mut$", "arg:0"), (r"get_inspector$", "tag:66")]
        consts = [BOXREF, (r"^FrameResult::%s\((?:copy|move) (_\d+)\)$" % kind, lambda m, env: f"(+ {env.get(m.group(1), 0)} 300)"),
                  (r"^FrameResult::(\w+)\((?:copy|move) (_\d+)\)$", lambda m, env: "-1" if False else "(- 1)"),
                  (r"^FrameOrResult::Result\((?:copy|move) (_\d+)\)$", lambda m, env: f"(+ {env.get(m.group(1), 0)} 400)")]
        fl = mirflow.Flow(fn, rules, consts)
        try:
            decls, asserts, cells, order, returns, out = fl.encode()
            hk = _calls(fn, r"as Inspector<DB>>::%s$" % hook)
            if len(hk) != 1:
                cx.unrecognised(name, "inspector hook not found once")
                continue
            INS, RV = f"disc_{hk[0][1]}", "r_" + hk[0][0]
            per = []
            for b in returns:
                g = lambda c: out(c, b)
                ok = (f"(and (= {g('@hooks')} 1) (= {g('@hook.2')} arg_3) "
                      f"(ite (= {INS} 1) (and (= {g('@prevcalls')} 0) (= {g('_0')} (+ {RV} 700))) "
                      f"(and (= {g('@prevcalls')} 1) (= {g('@prev.1')} {mirflow.combine(['arg_2', 'arg_3'])}) (= {g('_0')} {PREV}))))")
                per.append(f"(and on_{b} (not {ok}))")
            wit = [("handed on", "(or " + " ".join(f"(and on_{b} (= {out('@prevcalls', b)} 1))" for b in returns) + ")"),
                   ("answered", "(or " + " ".join(f"(and on_{b} (= {INS} 1))" for b in returns) + ")")]
            cx.decide(name, decls, asserts, order, [f"(or (= {INS} 0) (= {INS} 1))"], "(or " + " ".join(per) + ")", wit, [INS],
                      f"the previous {hook} handler is not invoked exactly once with the wrapper's own context and inputs (or is invoked although the inspector answered), or its result is not what the wrapper returns")
        except mir.Unsupported as e:
            cx.inconcl.append(f"{name}: {e}")
    for hook, arity in (("call_end", 4), ("create_end", 3), ("eofcreate_end", 3)):
        name = f"{hook}-wrapper"
        cl = [f for n, f in closures if re.search(r"as Inspector<DB>>::%s\(" % hook, f.text) and not re.search(r"discriminant\(\(\*_3\)\)", f.text)]
        if len(cl) != 1:
            cx.unrecognised(name, f"{len(cl)} outcome closures call Inspector::{hook}")
            continue
        fn = cl[0]
        rules = [(r"as Inspector<DB>>::%s$" % hook, "record:hook:4;count:hooks;tag:77"),
                 (r" as Fn<\(&mut .*Context<.*>, &mut Frame, .*\)>>::call$", f"record:prev:2;count:prevcalls;tag:{PREV}"),
                 (r"as Deref>::deref$|as DerefMut>::deref_mut$", "arg:0"), (r"get_inspector$", "tag:66")]
        fl = mirflow.Flow(fn, rules, [BOXREF])
        try:
            decls, asserts, cells, order, returns, out = fl.encode()
            own = ["arg_2", "arg_3"] + (["arg_4"] if arity == 4 else [])
            outcome_arg = "arg_5" if arity == 4 else "arg_4"
            per = []
            for b in returns:
                g = lambda c: out(c, b)
                ok = (f"(and (= {g('@hooks')} 1) (= {g('@hook.3')} {outcome_arg}) (= {g('@prevcalls')} 1) (= {g('@prev.1')} {mirflow.combine(own + ['77'])}) (= {g('_0')} {PREV}))")
                per.append(f"(and on_{b} (not {ok}))")
            wit = [("return", "(or " + " ".join(f"on_{b}" for b in returns) + ")")]
            cx.decide(name, decls, asserts, order, [], "(or " + " ".join(per) + ")", wit, [],
                      f"the previous handler is not invoked exactly once with the wrapper's own arguments and the outcome Inspector::{hook} returned for the outcome given, or its result is not returned")
        except mir.Unsupported as e:
            cx.inconcl.append(f"{name}: {e}")
    # ---- last_frame_return: the hook of the result's own kind sees the outcome, its answer is stored back, the previous handler runs once
    name = "last_frame_return-wrapper"
    cl = [f for n, f in closures if re.search(r"discriminant\(\(\*_3\)\)", f.text) and re.search(r"as Inspector<DB>>::call_end\(", f.text)]
    if len(cl) != 1 or variants != ["Call", "Create", "EOFCreate"]:
        cx.unrecognised(name, f"{len(cl)} closures match on the frame result / FrameResult variants {variants}")
    else:
        fn = cl[0]
        HOOKS = {"Call": "call_end", "Create": "create_end", "EOFCreate": "eofcreate_end"}
        rules = [(r"as Inspector<DB>>::%s$" % h, f"record:h{v}:4;count:n{v};tag:{77 + i}") for i, (v, h) in enumerate(HOOKS.items())] + [
                 (r" as Fn<\(&mut .*Context<.*>, &mut FrameResult\)>>::call$", f"record:prev:2;count:prevcalls;tag:{PREV}"),
                 (r"as Deref>::deref$|as DerefMut>::deref_mut$|as Clone>::clone$", "arg:0"), (r"get_inspector$", "tag:66")]
        consts = [BOXREF, (r"^&mut \(\(\(\*_3\) as (\w+)\)\.0: ", lambda m, env: str(800 + (variants.index(m.group(1)) if m.group(1) in variants else 9)))]
        fl = mirflow.Flow(fn, rules, consts, store_records=[(r"^\(\*(_\d+)\)$", "payload")], store_rules=[(r"^\(", "stores")])
        try:
            decls, asserts, cells, order, returns, out = fl.encode()
            dv = [n_ for n_, what in fl.notes if what == "discriminant((*_3))"]
            if len(dv) != 1:
                cx.unrecognised(name, "no match on the frame result's kind")
            else:
                D = dv[0]
                per = []
                for b in returns:
                    g = lambda c: out(c, b)
                    arms = "false"
                    for i, v in reversed(list(enumerate(variants))):
                        others = " ".join(f"(= {g('@n' + o)} 0)" for o in variants if o != v)
                        arm = (f"(and (= {g('@n' + v)} 1) {others} (= {g('@h' + v + '.3')} {800 + i}) (= {g('@payload')} 1) (= {g('@payload.base')} {800 + i}) (= {g('@payload.val')} {77 + i}) (= {g('@stores')} 1))")
                        arms = f"(ite (= {D} {i}) {arm} {arms})"
                    ok = f"(and {arms} (= {g('@prevcalls')} 1) (= {g('@prev.1')} {mirflow.combine(['arg_2', 'arg_3'])}) (= {g('_0')} {PREV}))"
                    per.append(f"(and on_{b} (not {ok}))")
                wit = [(v, "(or " + " ".join(f"(and on_{b} (= {D} {i}))" for b in returns) + ")") for i, v in enumerate(variants)]
                cx.decide(name, decls, asserts, order, [f"(>= {D} 0)", f"(< {D} 3)"], "(or " + " ".join(per) + ")", wit, [D],
                          "the *_end hook called is not the one of the frame result's kind, or it does not see that result's outcome, or its answer is not stored back, or the previous handler is not "
                          "invoked exactly once with the wrapper's own arguments")
        except (mir.Unsupported, KeyError) as e:
            cx.unrecognised(name, f"not encodable: {e}")
    return cx.finish(detail)


# ====================================================================================================================================
# C28: the shipped gas inspector only observes (TracerEip3155 delegates its gas bookkeeping to it)
def run_gas_inspector_observes(tier, log, seed):
    text = mir.dump("revm", log)
    funcs = mir.parse_functions(text)
    cx = _Cx(log, "gas_inspector_differential")
    detail = ("GasInspector::{initialize_interp, step, step_end}: no store through the interpreter or the context, no call that takes them mutably; call_end / create_end: the outcome "
              "returned is the outcome given, changed at most by Gas::spend_all on outcome.result.gas and only when InstructionResult::is_error(outcome.result.result) - for an error "
              "result the interpreter has spent all gas already, so this is the identity")
    hooks = {h: [f for n, fl in funcs.items() for f in fl if re.match(r"^inspector::gas::<impl at [^>]*>::%s$" % h, n)] for h in ("initialize_interp", "step", "step_end", "call_end", "create_end")}
    irf = _fields("crates/interpreter/src/interpreter.rs", "InterpreterResult") or _fields("crates/interpreter/src/interpreter_action.rs", "InterpreterResult")
    for h in ("initialize_interp", "step", "step_end"):
        name = f"GasInspector::{h}"
        if len(hooks[h]) != 1:
            cx.unrecognised(name, f"{len(hooks[h])} MIR bodies")
            continue
        fn = hooks[h][0]
        rules = [(r"^Gas::(remaining|limit|spent|refunded)$", "tag:5"), (r"saturating_sub$", "tag:6")]
        # any other call that receives the interpreter / context, or a mutable borrow into them, is an event
        def other(callee, args, env, b, flow):
            if re.search(r"(?:copy|move) _[23]\b", args) or any(re.match(r"^_\d+ = &mut \(\(\*_[23]\)", s_) for s_ in fn.blocks[b].stmts):
                env["@touch"] = f"(+ {env['@touch']} 1)"
            return None
        rules.append((r".", other))
        fl = mirflow.Flow(fn, rules, [], store_rules=[(r"^\(\(\*_[23]\)", "stores")], extra_cells=["@touch"])
        try:
            decls, asserts, cells, order, returns, out = fl.encode()
            viol = "(or " + " ".join(f"(and on_{b} (not (and (= {out('@stores', b)} 0) (= {out('@touch', b)} 0))))" for b in returns) + ")"
            cx.decide(name, decls, asserts, order, [], viol, [("return", "(or " + " ".join(f"on_{b}" for b in returns) + ")")], [],
                      "the hook stores into the interpreter or the context, or hands them to something that may")
        except mir.Unsupported as e:
            cx.inconcl.append(f"{name}: {e}")
    for h in ("call_end", "create_end"):
        name = f"GasInspector::{h}"
        if len(hooks[h]) != 1 or irf[:3] != ["result", "output", "gas"]:
            cx.unrecognised(name, f"{len(hooks[h])} MIR bodies / InterpreterResult fields {irf}")
            continue
        fn = hooks[h][0]

        def spend(callee, args, env, b, flow):
            ml = re.match(r"^(?:move|copy) (_\d+)$", args.strip())
            d = [s_ for blk in fn.blocks.values() for s_ in blk.stmts if ml and s_.startswith(ml.group(1) + " = ")]
            good = len(d) == 1 and re.match(r"^_\d+ = &mut \(\(_4\.0: (\w+::)*InterpreterResult\)\.2: (\w+::)*Gas\)$", d[0]) is not None
            env["@spends" if good else "@touch"] = f"(+ {env['@spends' if good else '@touch']} 1)"
            return None

        def other(callee, args, env, b, flow):
            if re.search(r"(?:copy|move) _[24]\b", args) or any(re.match(r"^_\d+ = &mut \((\(\*_2\)|\(_4|_4)", s_) for s_ in fn.blocks[b].stmts):
                env["@touch"] = f"(+ {env['@touch']} 1)"
            return None
        rules = [(r"^InstructionResult::is_error$", "record:iserr:1;free"), (r"^Gas::spend_all$", spend), (r".", other)]
        consts = [(r"^copy \(\(_4\.0: (\w+::)*InterpreterResult\)\.0: (\w+::)*InstructionResult\)$", 41)]
        fl = mirflow.Flow(fn, rules, consts, store_rules=[(r"^\(\(\*_2\)|^\(\(?_4", "stores")], extra_cells=["@touch", "@spends"])
        try:
            decls, asserts, cells, order, returns, out = fl.encode()
            ie = _calls(fn, r"^InstructionResult::is_error$")
            if len(ie) != 1:
                cx.unrecognised(name, f"{len(ie)} tests of the outcome's result (expected exactly one is_error)")
                continue
            E = "r_" + ie[0][0]
            per = []
            for b in returns:
                g = lambda c: out(c, b)
                ok = f"(and (= {g('_0')} arg_4) (= {g('@iserr.0')} 41) (= {g('@stores')} 0) (= {g('@touch')} 0) (= {g('@spends')} (ite (= {E} 0) 0 1)))"
                per.append(f"(and on_{b} (not {ok}))")
            cx.decide(name, decls, asserts, order, [f"(or (= {E} 0) (= {E} 1))"], "(or " + " ".join(per) + ")",
                      [("error outcome", "(or " + " ".join(f"(and on_{b} (= {out('@spends', b)} 1))" for b in returns) + ")"), ("other outcome", "(or " + " ".join(f"(and on_{b} (= {out('@spends', b)} 0))" for b in returns) + ")")],
                      [E], "the outcome handed back is not the outcome given, or it is changed otherwise than by spend_all under is_error(result)")
        except mir.Unsupported as e:
            cx.inconcl.append(f"{name}: {e}")
    return cx.finish(detail)
