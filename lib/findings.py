"""known_findings.txt — committed, read-only at run time.

Line formats (one per line, '#' comments):
  finding: property=<id> harness=<harness-or-job name> check=<regex on 'description @ location' of the failing check> :: <what fails>
  fixed: property=<id> <commit> <what failed>            (documentation only, suppresses nothing)
"""
import re, os


def load(path):
    out = []
    if not os.path.exists(path):
        return out
    for ln in open(path):
        ln = ln.strip()
        if not ln or ln.startswith("#") or ln.startswith("fixed:"):
            continue
        m = re.match(r"finding:\s+property=(\S+)\s+harness=(\S+)\s+check=(.+?)\s+::\s+(.*)$", ln)
        if m:
            out.append({"property": m.group(1), "harness": m.group(2), "check": m.group(3), "what": m.group(4),
                        "key": m.group(1) + "/" + m.group(2) + "/" + m.group(3)})
    return out


def matches(known, pid, harness, failed_check):
    text = (failed_check.get("description", "") + " @ " + failed_check.get("location", ""))
    for k in known:
        if k["property"] == pid and k["harness"] == harness and re.search(k["check"], text):
            return k
    return None
