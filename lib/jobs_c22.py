"""C22: two crate-wide dataflow obligations on the reward switch (the three rebuild functions of handler.rs are jobs_e3.run_reward_flag).

(1) every place in the crate that builds a Handler from scratch (Handler::mainnet / mainnet_with_spec / optimism* / new, EvmBuilder::handler)
    while an already configured handler is at hand must hand the current setting to the constructor.  `At hand` = the enclosing function
    receives a Handler, an Evm, or an EvmBuilder whose stage is not SetGenericStage.  Exempt, because they are the documented ways to ASK for a
    default handler or to supply a new configuration: functions named reset_handler*, with_*handler_cfg, and functions with no handler among
    their arguments (fresh constructors).
(2) `every other effect of the transaction is identical`: inside Handler::mainnet / mainnet_with_spec the flag may flow to exactly one place,
    the constructor of the post-execution handler (resp. to Handler::mainnet); nothing else may read it, in particular no branch.

Both are decided as SMT queries over the classification read from MIR; a sat answer or an unrecognised shape is replayed on the real API
(`reward_paid` for every reconfiguration the tool knows, `reward_differential` for (2)) and reported only if the real run misbehaves."""
import re

import mir
import native
import smt
from jobs_e3 import resolve_flag

CTOR = re.compile(r"(?:^|[^A-Za-z])Handler::<.*>::(mainnet|mainnet_with_spec|optimism|optimism_with_spec|new)(::<.*>)?$")
BUILDER_CTOR = re.compile(r"EvmBuilder::<.*>::handler$")
KNOWN = ("pop_handle_register", "create_handle_generic", "modify_spec_id")


def _has_handler_at_hand(sig):
    head = sig.split("->")[0]
    if re.search(r"_\d+: (?:&mut |&)?(?:handler::)?Handler<", head):
        return True
    if re.search(r"_\d+: (?:&mut |&)?(?:evm::)?Evm<", head):
        return True
    m = re.search(r"_\d+: (?:&mut |&)?(?:builder::)?EvmBuilder<'_, (\w+)", head)
    return bool(m and m.group(1) != "SetGenericStage")


def _replay_paid(log):
    st, out = native.call("debug", "reward_paid", "all", log=log)
    if st != "ok":
        return None, f"{st} {out}"
    return re.findall(r"\[reward_paid ([^\]]*?) MISMATCH\]", out), out


def run_reward_sites(tier, log, seed):
    text = mir.dump("revm", log)
    funcs = mir.parse_functions(text)
    duo = smt.Duo(timeout_s=30)
    samples, failures, inconcl = [], [], []
    n_sites = n_exempt = n_fresh = 0
    for name, fl in funcs.items():
        for fn in fl:
            short = name.split("::")[-1]
            for b in fn.blocks.values():
                c = mir.call_of(b.term or "")
                if not c:
                    continue
                m = CTOR.search(c[1])
                mb = BUILDER_CTOR.search(c[1])
                if not m and not mb:
                    continue
                if re.search(r"(Validation|PreExecution|PostExecution|Execution)Handler::<", c[1]):
                    continue
                n_sites += 1
                if not _has_handler_at_hand(fn.sig):
                    n_fresh += 1
                    continue
                if re.match(r"^reset_handler", short) or re.match(r"^with_\w*handler_cfg$", short):
                    n_exempt += 1
                    continue
                args = mir.split_top(c[2])
                if mb or (m and m.group(1) == "new"):
                    val = ("lit", True)  # Handler::new(cfg) / EvmBuilder::handler(cfg) have no reward parameter: rewards on
                else:
                    val = resolve_flag(fn, args[-1])
                    # the configured handler may be a field of the receiver (EvmBuilder / Evm by value or by reference) rather than the receiver itself
                    if val[0] == "unknown" and re.search(r"is_some of \[[\"']&\(+\*?_1\)?\.\d+: [\w:]*Handler<.*PostExecutionHandler<.*\)\.\d+: (?:std::option::)?Option<", str(val[1])):
                        val = ("self_flag",)
                term = {"lit": lambda v: "true" if v[1] else "false", "self_flag": lambda v: "flag_in", "unknown": lambda v: "unk"}[val[0]](val)
                v, model, detail = duo.check(["(declare-const flag_in Bool)", "(declare-const unk Bool)"], [f"(not (= {term} flag_in))"], want_model_of=("flag_in",))
                samples.append(f"{short}@{b.name}: builds a handler with reward = {val} while one is configured -> {v}")
                log(f"[c22] {samples[-1]}")
                if v == "unsat":
                    continue
                if v != "sat":
                    inconcl.append(f"{short}: {detail}")
                    continue
                bad, out = _replay_paid(log)
                desc = f"{short} ({name}) rebuilds the handler with reward argument {val} instead of the configured setting"
                if bad is None:
                    inconcl.append(f"{short}: native replay failed: {out}")
                elif bad:
                    failures.append(dict(id=f"{short}-reward-flag", reproduced=True, description=desc + f" | native, rewards off then reconfigured, beneficiary paid after: {', '.join(bad)}"))
                elif short in KNOWN:
                    pass  # the dedicated job of the three rebuild functions reports these with their own replay
                else:
                    failures.append(dict(id=f"{short}-reward-flag", reproduced=False, description=desc + f" | no reconfiguration known to the native tool pays the beneficiary: {out[:300]}"))
    samples.insert(0, f"{n_sites} handler construction sites in the crate: {n_fresh} in functions with no handler at hand, {n_exempt} in reset_handler* / with_*handler_cfg, "
                      f"{n_sites - n_fresh - n_exempt} must carry the configured setting")
    if n_sites - n_fresh - n_exempt < 3:
        inconcl.append("fewer than the three known rebuild sites were found (MIR shape changed)")
    # ---- (2) the flag reaches only the post-execution constructor
    for fname, sink in (("mainnet", r"PostExecutionHandler::<.*>::new(::<.*>)?$"), ("mainnet_with_spec", r"Handler::<.*>::mainnet::<\w+>$")):
        cands = [f for n, fl in funcs.items() for f in fl if re.search(r"^handler::<impl at [^>]*>::%s$" % fname, n)]
        if len(cands) != 1:
            inconcl.append(f"Handler::{fname}: {len(cands)} MIR bodies")
            continue
        fn = cands[0]
        flag = "_1" if fname == "mainnet" else "_2"
        # locals that hold the flag: the argument and plain copies of it
        holders = {flag}
        changed = True
        while changed:
            changed = False
            for b in fn.blocks.values():
                for s_ in b.stmts:
                    mm = re.match(r"^(_\d+) = (?:copy|move) (_\d+)$", s_)
                    if mm and mm.group(2) in holders and mm.group(1) not in holders:
                        holders.add(mm.group(1))
                        changed = True
        other = []
        sinks = 0
        for b in fn.blocks.values():
            for s_ in b.stmts:
                mm = re.match(r"^(_\d+) = (?:copy|move) (_\d+)$", s_)
                if mm and mm.group(2) in holders:
                    continue
                if any(re.search(r"(?<![\w.])%s(?![\w])" % re.escape(h), s_.split(" = ", 1)[-1]) for h in holders):
                    other.append(f"{b.name}: {s_[:100]}")
            t = b.term or ""
            used = [h for h in holders if re.search(r"(?<![\w.])%s(?![\w])" % re.escape(h), t)]
            if not used:
                continue
            c = mir.call_of(t)
            if c and re.search(sink, c[1]) and any(re.search(r"(?<![\w.])%s(?![\w])" % re.escape(h), mir.split_top(c[2])[-1]) for h in holders):
                rest = ", ".join(mir.split_top(c[2])[:-1])
                if not any(re.search(r"(?<![\w.])%s(?![\w])" % re.escape(h), rest) for h in holders):
                    sinks += 1
                    continue
            if t.startswith("drop(") or t.startswith("StorageDead"):
                continue
            other.append(f"{b.name}: {t[:100]}")
        term = "true" if (not other and sinks >= 1) else "false"
        v, _, detail = duo.check(["(declare-const x Bool)"], [f"(not {term})"])
        samples.append(f"Handler::{fname}: the flag reaches {sinks} constructor call(s) of the part that pays the reward and {len(other)} other use(s) {other[:3]} -> {v}")
        log(f"[c22] {samples[-1]}")
        if v == "unsat":
            continue
        if v != "sat":
            inconcl.append(f"{fname}: {detail}")
            continue
        st, out = native.call("debug", "reward_differential", log=log)
        desc = f"Handler::{fname}: the reward flag is read outside the construction of the reward handle ({'; '.join(other[:3])}): switching rewards off may change other effects of a transaction"
        if st != "ok":
            inconcl.append(f"{fname}: native replay failed: {st} {out}")
        else:
            bad = re.findall(r"\[reward_differential ([^\]]*?) MISMATCH\]", out)
            failures.append(dict(id=f"{fname}-flag-use", reproduced=bool(bad),
                                 description=desc + (f" | native: {', '.join(bad)}" if bad else f" | native differential runs agree: {out[:300]}")))
    q, tm = duo.queries, duo.time
    duo.close()
    res = dict(queries=q, solver_s=tm, engine="mir dataflow -> smtlib (z3 4.8.12 + cvc5 1.0)", bounds="; ".join(samples),
               detail="(1) every from-scratch Handler construction in a function that has a configured handler at hand carries that handler's setting; "
                      "(2) in Handler::mainnet / mainnet_with_spec the flag flows only into the post-execution constructor / Handler::mainnet")
    if any(f.get("reproduced") for f in failures):
        res.update(status="fail", failures=failures, reason=failures[0]["description"][:300])
    elif inconcl:
        res.update(status="inconclusive", reason="; ".join(map(str, inconcl))[:600])
    elif failures:
        res.update(status="fail", failures=failures, reason=failures[0]["description"][:300])
    else:
        res.update(status="pass")
    return res
