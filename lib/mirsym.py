"""Symbolic execution of loop-free MIR regions into SMT-LIB2 terms over mathematical integers with
explicit machine-integer semantics (ranges, wrap-around via mod, overflow flags of *WithOverflow ops).

Supported: integer/bool locals, tuples, shared references to locals/promoted constants, IntToInt casts,
BinOp/UnOp rvalues, switchInt, assert, goto, return, and a whitelist of core integer intrinsics.
Anything else raises mir.Unsupported.
"""
import re
from mir import Unsupported, split_top, parse_functions

INT_TYPES = {"u8": (8, False), "u16": (16, False), "u32": (32, False), "u64": (64, False), "u128": (128, False),
             "usize": (64, False), "i8": (8, True), "i16": (16, True), "i32": (32, True), "i64": (64, True),
             "i128": (128, True), "isize": (64, True)}


def rng(ty):
    bits, signed = INT_TYPES[ty]
    if signed:
        return -(1 << (bits - 1)), (1 << (bits - 1)) - 1
    return 0, (1 << bits) - 1


def lit(n):
    return str(n) if n >= 0 else f"(- {-n})"


def in_range(term, ty):
    lo, hi = rng(ty)
    return f"(and (<= {lit(lo)} {term}) (<= {term} {lit(hi)}))"


def _litval(term):
    m = re.match(r"^(\d+)$", term)
    if m:
        return int(m.group(1))
    m = re.match(r"^\(- (\d+)\)$", term)
    if m:
        return -int(m.group(1))
    return None


def wrap(term, ty):
    """Reduce a mathematical integer to the machine type (two's complement)."""
    bits, signed = INT_TYPES[ty]
    v = _litval(term)
    if v is not None:
        v %= 1 << bits
        if signed and v >= 1 << (bits - 1):
            v -= 1 << bits
        return lit(v)
    if not signed:
        # guarded form: the in-range case needs no modular reasoning from the solver
        return f"(let ((w!x {term})) (ite (and (<= 0 w!x) (< w!x {1 << bits})) w!x (mod w!x {1 << bits})))"
    m = f"(mod {term} {1 << bits})"
    return f"(let ((w!m {m})) (ite (>= w!m {1 << (bits - 1)}) (- w!m {1 << bits}) w!m))"


class Val:
    """kind: 'int' (term, ty) | 'bool' (term) | 'tuple' [Val] | 'ref' Val | 'unit' | 'opaque' (description)"""

    def __init__(self, kind, term=None, ty=None, items=None):
        self.kind, self.term, self.ty, self.items = kind, term, ty, items

    def __repr__(self):
        if self.kind == "tuple":
            return "(" + ", ".join(map(repr, self.items)) + ")"
        return f"{self.kind}:{self.term}:{self.ty}"


class Path:
    def __init__(self, state, pc, trace):
        self.state, self.pc, self.trace = state, pc, trace


class Outcome:
    """end: ('return', Val) | ('cut', bb) | ('panic', message) ; pc: list of Bool terms ; state at end."""

    def __init__(self, end, pc, state, trace):
        self.end, self.pc, self.state, self.trace = end, pc, state, trace


class Exec:
    def __init__(self, fn, funcs=None, consts=None, call_models=None):
        self.fn = fn
        self.funcs = funcs or {}
        self.consts = consts or {}          # name -> int value for named constants
        self.call_models = call_models or {}  # callee regex -> python fn(args:[Val]) -> Val
        self.fresh = 0
        self.decls = []
        self.abstract_mul = False   # replace symbolic*symbolic products by shared fresh constants (see products)
        self.products = {}          # (term_a, term_b) -> symbol; the caller asserts proven bounds on them

    def product(self, a, b):
        """Symbol standing for the exact product of two symbolic terms (same operands -> same symbol)."""
        key = tuple(sorted((a, b)))
        if key not in self.products:
            self.products[key] = f"p!{len(self.products)}"
        return self.products[key]

    # ---------------------------------------------------------------- operands / places
    def const(self, text):
        text = text.strip()
        m = re.match(r"^(-?\d+)_(u8|u16|u32|u64|u128|usize|i8|i16|i32|i64|i128|isize)$", text)
        if m:
            return Val("int", lit(int(m.group(1))), m.group(2))
        if text in ("true", "false"):
            return Val("bool", text)
        if text == "()":
            return Val("unit")
        m = re.match(r'^"', text)
        if m:
            return Val("opaque", text)
        m = re.match(r"^(.*)::promoted\[(\d+)\]$", text)
        if m:
            return self.promoted(text)
        if text in self.consts:
            v = self.consts[text]
            return Val("int", lit(v[0]), v[1])
        two = "::".join(text.split("::")[-2:])
        if two in self.consts:
            v = self.consts[two]
            return Val("int", lit(v[0]), v[1])
        short = text.split("::")[-1]
        if short in self.consts:
            v = self.consts[short]
            return Val("int", lit(v[0]), v[1])
        raise Unsupported("constant " + text)

    def promoted(self, text):
        """const <fn>::promoted[i]: &T = { _1 = const X; _0 = &_1; } -> ref to constant"""
        src = self.consts.get("__mir_text__", "")
        idx = re.search(r"promoted\[(\d+)\]", text).group(1)
        fname = self.fn.name.split("::")[-1]
        m = re.search(r"const (?:\S*::)?" + re.escape(fname) + r"::promoted\[" + idx + r"\]: (&\S+) = \{(.*?)\n\}", src, re.S)
        if not m:
            raise Unsupported("promoted constant " + text)
        body = m.group(2)
        mm = re.search(r"_1 = const (\S+);", body)
        if not mm or "_0 = &_1" not in body:
            raise Unsupported("promoted body " + text)
        return Val("ref", items=[self.const(mm.group(1))])

    def read_place(self, st, p):
        p = p.strip()
        if p.startswith("(") and p.endswith(")"):
            inner = p[1:-1]
            if inner.startswith("*"):
                r = self.read_place(st, inner[1:])
                if r.kind != "ref":
                    raise Unsupported("deref of non-ref " + p)
                tgt = r.items[0]
                if isinstance(tgt, str):
                    return self.read_place(st, tgt)
                return tgt
            m = re.match(r"^(.+)\.(\d+): (.+)$", inner)
            if m:
                base = self.read_place(st, m.group(1))
                if base.kind != "tuple":
                    raise Unsupported("field of non-tuple " + p)
                return base.items[int(m.group(2))]
            m = re.match(r"^(.+) as (\w+)$", inner)
            raise Unsupported("place " + p)
        if p.startswith("*"):
            r = self.read_place(st, p[1:])
            if r.kind != "ref":
                raise Unsupported("deref of non-ref " + p)
            tgt = r.items[0]
            if isinstance(tgt, str):
                return self.read_place(st, tgt)
            return tgt
        if re.match(r"^_\d+$", p):
            if p not in st:
                raise Unsupported("read of unset local " + p + " in " + self.fn.name)
            return st[p]
        raise Unsupported("place " + p)

    def write_place(self, st, p, v):
        p = p.strip()
        if re.match(r"^_\d+$", p):
            st[p] = v
            return
        m = re.match(r"^\((.+)\.(\d+): (.+)\)$", p)
        if m:
            base = self.read_place(st, m.group(1)) if m.group(1) in st else Val("tuple", items=[None, None])
            items = list(base.items)
            items[int(m.group(2))] = v
            self.write_place(st, m.group(1), Val("tuple", items=items))
            return
        raise Unsupported("write place " + p)

    def operand(self, st, o):
        o = o.strip()
        if o.startswith("copy ") or o.startswith("move "):
            return self.read_place(st, o[5:])
        if o.startswith("const "):
            return self.const(o[6:])
        raise Unsupported("operand " + o)

    # ---------------------------------------------------------------- rvalues
    def binop(self, op, a, b):
        if a.kind == "bool" and b.kind == "bool":
            if op == "Eq":
                return Val("bool", f"(= {a.term} {b.term})")
            if op == "Ne":
                return Val("bool", f"(not (= {a.term} {b.term}))")
            if op == "BitAnd":
                return Val("bool", f"(and {a.term} {b.term})")
            if op == "BitOr":
                return Val("bool", f"(or {a.term} {b.term})")
            if op == "BitXor":
                return Val("bool", f"(xor {a.term} {b.term})")
        if a.kind != "int" or b.kind != "int":
            raise Unsupported(f"binop {op} on {a} {b}")
        ty = a.ty
        cmpm = {"Eq": "=", "Lt": "<", "Le": "<=", "Gt": ">", "Ge": ">="}
        if op in cmpm:
            return Val("bool", f"({cmpm[op]} {a.term} {b.term})")
        if op == "Ne":
            return Val("bool", f"(not (= {a.term} {b.term}))")
        arith = {"Add": "+", "Sub": "-", "Mul": "*"}
        la, lb = _litval(a.term), _litval(b.term)
        if la is not None and lb is not None and op[:3] in arith:
            exact_v = {"Add": la + lb, "Sub": la - lb, "Mul": la * lb}[op[:3]]
            lo, hi = rng(ty)
            if op.endswith("WithOverflow"):
                return Val("tuple", items=[Val("int", wrap(lit(exact_v), ty), ty), Val("bool", "false" if lo <= exact_v <= hi else "true")])
            return Val("int", wrap(lit(exact_v), ty), ty)
        if self.abstract_mul and op[:3] == "Mul" and not re.match(r"^\d+$", a.term) and not re.match(r"^\d+$", b.term):
            exact = self.product(a.term, b.term)
            if op == "Mul":
                return Val("int", wrap(exact, ty), ty)
            if op == "MulUnchecked":
                return Val("int", exact, ty)
            return Val("tuple", items=[Val("int", wrap(exact, ty), ty), Val("bool", f"(not {in_range(exact, ty)})")])
        if op in arith:
            return Val("int", wrap(f"({arith[op]} {a.term} {b.term})", ty), ty)
        if op in ("AddUnchecked", "SubUnchecked", "MulUnchecked"):
            return Val("int", f"({arith[op[:3]]} {a.term} {b.term})", ty)
        if op.endswith("WithOverflow"):
            s = arith[op[:3]]
            exact = f"({s} {a.term} {b.term})"
            return Val("tuple", items=[Val("int", wrap(exact, ty), ty), Val("bool", f"(not {in_range(exact, ty)})")])
        if op == "Div":
            if INT_TYPES[ty][1]:
                raise Unsupported("signed Div")
            return Val("int", f"(div {a.term} {b.term})", ty)
        if op == "Rem":
            if INT_TYPES[ty][1]:
                raise Unsupported("signed Rem")
            return Val("int", f"(mod {a.term} {b.term})", ty)
        if op in ("Shl", "Shr", "ShlUnchecked", "ShrUnchecked") and not INT_TYPES[ty][1]:
            bits = INT_TYPES[ty][0]
            # constant shift amounts only
            m = re.match(r"^\d+$", b.term)
            if not m:
                raise Unsupported("symbolic shift amount")
            k = int(b.term) % bits
            if op.startswith("Shl"):
                return Val("int", wrap(f"(* {a.term} {1 << k})", ty), ty)
            return Val("int", f"(div {a.term} {1 << k})", ty)
        raise Unsupported(f"binop {op}")

    def cast(self, v, to):
        if v.kind == "bool" and to in INT_TYPES:
            return Val("int", f"(ite {v.term} 1 0)", to)
        if v.kind != "int" or to not in INT_TYPES:
            raise Unsupported(f"cast {v} as {to}")
        flo, fhi = rng(v.ty)
        tlo, thi = rng(to)
        if tlo <= flo and fhi <= thi:
            return Val("int", v.term, to)
        return Val("int", wrap(v.term, to), to)

    def rvalue(self, st, rv):
        rv = rv.strip()
        m = re.match(r"^&(?:mut )?(.+)$", rv)
        if m:
            tgt = m.group(1).strip()
            if re.match(r"^_\d+$", tgt):
                return Val("ref", items=[tgt])
            if tgt.startswith("(*") and tgt.endswith(")"):  # reborrow
                return self.read_place(st, tgt[2:-1])
            raise Unsupported("ref to " + tgt)
        m = re.match(r"^(.+) as (\w+) \((\w+)\)$", rv)
        if m:
            if m.group(3) != "IntToInt":
                raise Unsupported("cast kind " + m.group(3))
            return self.cast(self.operand(st, m.group(1)), m.group(2))
        m = re.match(r"^(\w+)\((.*)\)$", rv)
        if m and m.group(1) in ("Eq", "Ne", "Lt", "Le", "Gt", "Ge", "Add", "Sub", "Mul", "Div", "Rem", "BitAnd", "BitOr", "BitXor",
                                "Shl", "Shr", "AddWithOverflow", "SubWithOverflow", "MulWithOverflow", "AddUnchecked", "SubUnchecked",
                                "MulUnchecked", "ShlUnchecked", "ShrUnchecked"):
            a, b = split_top(m.group(2))
            return self.binop(m.group(1), self.operand(st, a), self.operand(st, b))
        m = re.match(r"^Not\((.*)\)$", rv)
        if m:
            v = self.operand(st, m.group(1))
            if v.kind == "bool":
                return Val("bool", f"(not {v.term})")
            raise Unsupported("Not on int")
        m = re.match(r"^Neg\((.*)\)$", rv)
        if m:
            v = self.operand(st, m.group(1))
            return Val("int", wrap(f"(- {v.term})", v.ty), v.ty)
        if rv.startswith("(") and rv.endswith(")") and not re.match(r"^\(.*: .*\)$", rv):
            items = [self.operand(st, x) for x in split_top(rv[1:-1])]
            return Val("tuple", items=items)
        if rv.startswith("copy ") or rv.startswith("move ") or rv.startswith("const "):
            return self.operand(st, rv)
        m = re.match(r"^discriminant\((_\d+)\)$", rv)
        if m:
            v = self.read_place(st, m.group(1))
            if v.kind == "int":
                return v
            raise Unsupported("discriminant of non-integer-modelled value")
        # field-less enum variant (e.g. `PrecompileSpecId::CANCUN`, or a bare `CANCUN` imported by `use`)
        if re.match(r"^[A-Za-z_][\w:]*$", rv) and (rv in self.consts or rv.split("::")[-1] in self.consts):
            v = self.consts.get(rv) or self.consts[rv.split("::")[-1]]
            return Val("int", lit(v[0]), v[1])
        raise Unsupported("rvalue " + rv)

    # ---------------------------------------------------------------- execution
    def run(self, start_bb, state, pc=None, cuts=(), max_steps=400):
        """Explore all paths from start_bb until return / panic / a cut block (not counting the start)."""
        outcomes = []
        work = [(start_bb, dict(state), list(pc or []), [start_bb], True)]
        steps = 0
        while work:
            bb, st, cond, trace, first = work.pop()
            steps += 1
            if steps > max_steps:
                raise Unsupported("path explosion / unbroken loop in " + self.fn.name)
            if bb in cuts and not first:
                outcomes.append(Outcome(("cut", bb), cond, st, trace))
                continue
            blk = self.fn.blocks[bb]
            for s in blk.stmts:
                self.stmt(st, s)
            t = blk.term
            if t == "return":
                outcomes.append(Outcome(("return", st.get("_0")), cond, st, trace))
                continue
            if t == "unreachable":
                outcomes.append(Outcome(("panic", "unreachable"), cond, st, trace))
                continue
            m = re.match(r"^goto -> (bb\d+)$", t)
            if m:
                work.append((m.group(1), st, cond, trace + [m.group(1)], False))
                continue
            m = re.match(r"^switchInt\((.*)\) -> \[(.*)\]$", t)
            if m:
                v = self.operand(st, m.group(1))
                arms = [x.split(": ") for x in split_top(m.group(2))]
                taken = []
                for k, tgt in arms:
                    if k == "otherwise":
                        c = "(and " + " ".join(f"(not {x})" for x in taken) + ")" if taken else "true"
                    else:
                        if v.kind == "bool":
                            c = f"(not {v.term})" if k == "0" else v.term
                        else:
                            c = f"(= {v.term} {k})"
                        taken.append(c)
                    work.append((tgt, dict(st), cond + [c], trace + [tgt], False))
                continue
            m = re.match(r"^assert\((!?)(.+?), \"(.*?)\"(?:, .*)?\) -> \[success: (bb\d+), unwind .*\]$", t)
            if m:
                v = self.operand(st, m.group(2))
                ok = f"(not {v.term})" if m.group(1) == "!" else v.term
                outcomes.append(Outcome(("panic", m.group(3) + " @" + bb), cond + [f"(not {ok})"], st, trace))
                work.append((m.group(4), st, cond + [ok], trace + [m.group(4)], False))
                continue
            # calls
            m = re.match(r"^(?:(.+?) = )?(.+?)\((.*)\) -> (\[return: (bb\d+), unwind .*\]|unwind .*)$", t)
            if m:
                dest, callee, args, _, ret = m.group(1), m.group(2), m.group(3), m.group(4), m.group(5)
                if ret is None:
                    outcomes.append(Outcome(("panic", "diverging call " + callee + " @" + bb), cond, st, trace))
                    continue
                model = None
                for pat, fn in self.call_models.items():
                    if re.search(pat, callee):
                        model = fn
                        break
                if model is None:
                    # calls whose result only feeds a panic message are tolerated as opaque values
                    if "Arguments" in callee or "fmt" in callee:
                        self.write_place(st, dest, Val("opaque", callee))
                        work.append((ret, st, cond, trace + [ret], False))
                        continue
                    raise Unsupported("call to " + callee + " in " + self.fn.name)
                argv = [self.operand(st, a) for a in split_top(args)]
                res = model(self, argv)
                self.write_place(st, dest, res)
                work.append((ret, st, cond, trace + [ret], False))
                continue
            m = re.match(r"^drop\(.*\) -> \[return: (bb\d+), unwind .*\]$", t)
            if m:
                work.append((m.group(1), st, cond, trace + [m.group(1)], False))
                continue
            raise Unsupported("terminator " + t)
        return outcomes

    def stmt(self, st, s):
        if s.startswith("StorageLive") or s.startswith("StorageDead") or s.startswith("nop") or s.startswith("FakeRead") \
                or s.startswith("PlaceMention") or s.startswith("AscribeUserType") or s.startswith("Coverage") or s.startswith("ConstEvalCounter"):
            return
        m = re.match(r"^(.+?) = (.+)$", s)
        if not m:
            raise Unsupported("statement " + s)
        lhs, rv = m.group(1), m.group(2)
        try:
            v = self.rvalue(st, rv)
        except Unsupported:
            # values that only describe a panic (AssertKind, fmt) are opaque
            if "AssertKind" in rv or "Arguments" in rv or "Option::<" in rv:
                v = Val("opaque", rv)
            else:
                raise
        self.write_place(st, lhs, v)


# ---------------------------------------------------------------- models of core intrinsics
def m_saturating_sub(ex, a):
    x, y = a
    return Val("int", f"(ite (>= {x.term} {y.term}) (- {x.term} {y.term}) 0)", x.ty)


def m_min(ex, a):
    x, y = a
    return Val("int", f"(ite (<= {x.term} {y.term}) {x.term} {y.term})", x.ty)


def m_max(ex, a):
    x, y = a
    return Val("int", f"(ite (>= {x.term} {y.term}) {x.term} {y.term})", x.ty)


CORE_MODELS = {
    r"num::<impl u\d+>::saturating_sub$": m_saturating_sub,
    r"cmp::min::<u\d+>$|<u\d+ as Ord>::min$": m_min,
    r"cmp::max::<u\d+>$|<u\d+ as Ord>::max$": m_max,
}
