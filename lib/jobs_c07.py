"""C07: the depth LIMIT - every frame constructor refuses a frame exactly when the journal depth is above 1024.

The depth-balance job (jobs_e3.run_depth_balance) shows that frames leave the depth they found; `nested calls can reach exactly 1024 levels
below the transaction frame` additionally needs the comparison itself: a frame that would sit L levels below the transaction frame is
requested at journal depth L, so the constructor must refuse iff depth > 1024 (levels 1..=1024 are entered, level 1025 is not).

Per constructor the comparison is read from MIR (in the constructor or in the one in-crate helper it delegates the check to), its operator and
constant become a 64-bit bit-vector predicate R(d), and the solver is asked for a depth d with R(d) != (d >u 1024).  A model is replayed by the
native tool (frames requested at depth 1024 and 1025 on the real EvmContext)."""
import re

import mir
import native
import smt

FRAMES = ("make_call_frame", "make_create_frame", "make_eofcreate_frame")
OPS = {"Gt": "bvugt", "Ge": "bvuge", "Lt": "bvult", "Le": "bvule", "Eq": "=", "Ne": "distinct"}


def _const_value(text, operand):
    operand = operand.strip()
    m = re.match(r"^const (\d+)_u64$", operand)
    if m:
        return int(m.group(1)), operand
    m = re.match(r"^const ([\w:]+)$", operand)
    if m:
        nm = m.group(1).split("::")[-1]
        defs = set(re.findall(r"^const (?:[\w:]+::)?%s: u64 = const (\d+)_u64;" % re.escape(nm), text, re.M))
        if not defs:
            mm = re.search(r"^const (?:[\w:]+::)?%s: u64 = \{.*?_0 = const (\d+)_u64" % re.escape(nm), text, re.S | re.M)
            defs = {mm.group(1)} if mm else set()
        if len(defs) == 1:
            return int(defs.pop()), f"{operand} = {nm}"
    return None, operand


def _resolve(fn, text, operand, depth=0):
    """Value of a u64 operand that is a constant or constant arithmetic over constants (`CALL_STACK_LIMIT + 1`), else None."""
    operand = operand.strip()
    k, desc = _const_value(text, operand)
    if k is not None or depth > 4:
        return k, desc
    m = re.match(r"^(?:move|copy) (?:\((_\d+)\.0: u64\)|(_\d+))$", operand)
    if not m:
        return None, operand
    loc = m.group(1) or m.group(2)
    defs = [mm.group(1) for b in fn.blocks.values() for st in b.stmts for mm in [re.match(r"^%s = (.*)$" % re.escape(loc), st)] if mm]
    if len(defs) != 1:
        return None, operand
    d = defs[0]
    mm = re.match(r"^(Add|Sub|Mul)(?:WithOverflow)?\((.+?), (.+)\)$", d)
    if mm:
        a, _ = _resolve(fn, text, mm.group(2), depth + 1)
        b, _ = _resolve(fn, text, mm.group(3), depth + 1)
        if a is None or b is None:
            return None, operand
        v = {"Add": a + b, "Sub": a - b, "Mul": a * b}[mm.group(1)]
        return (v, f"{d} = {v}") if 0 <= v < 2 ** 64 else (None, operand)
    return _resolve(fn, text, d, depth + 1)


def _depth_guard(fn, text):
    """(smt predicate over `d` that is true when the frame is refused, description) for the body `fn`, or (None, why)."""
    sites = []
    for bid, b in fn.blocks.items():
        c = mir.call_of(b.term or "")
        if c and re.search(r"JournaledState::depth$", c[1]):
            sites.append((bid, c[0], b.term))
    if len(sites) != 1:
        return None, f"{len(sites)} reads of JournaledState::depth"
    bid, d_local, term = sites[0]
    m = re.search(r"return: (bb\d+)", term)
    if not m:
        return None, "depth() call without return edge"
    nb = fn.blocks[m.group(1)]
    cmpm = None
    for s in nb.stmts:
        mm = re.match(r"^(_\d+) = (Gt|Ge|Lt|Le|Eq|Ne)\((.+?), (.+)\)$", s)
        if mm and (d_local in mm.group(3).split() or d_local in mm.group(4).split()):
            cmpm = mm
    if not cmpm:
        return None, f"no comparison of the depth in {m.group(1)}"
    flag, op, a, b_ = cmpm.groups()
    sw = re.match(r"^switchInt\((?:move|copy) %s\) -> \[0: (bb\d+), otherwise: (bb\d+)\]$" % re.escape(flag), nb.term or "")
    if not sw:
        return None, f"the comparison result does not steer a two-way branch: {nb.term}"
    if d_local in a.split():
        k, kdesc = _resolve(fn, text, b_)
        lhs, rhs = "d", None
    else:
        k, kdesc = _resolve(fn, text, a)
        lhs, rhs = None, "d"
    if k is None:
        return None, f"the depth is compared with something that is not a u64 constant: {kdesc}"
    kbv = f"(_ bv{k} 64)"
    pred = f"({OPS[op]} {lhs or kbv} {rhs or kbv})"
    # which side refuses: the side whose blocks (up to the next branch) name CallTooDeep
    def names_too_deep(start):
        seen, work = set(), [start]
        while work and len(seen) < 6:
            x = work.pop()
            if x in seen or x not in fn.blocks:
                continue
            seen.add(x)
            blk = fn.blocks[x]
            if any("InstructionResult::CallTooDeep" in s for s in blk.stmts + [blk.term or ""]):
                return True
            t = blk.term or ""
            if t.startswith("switchInt") or t == "return":
                continue
            work += re.findall(r"(?:return: |goto -> )(bb\d+)", t)
        return False
    z, o = names_too_deep(sw.group(1)), names_too_deep(sw.group(2))
    if o and not z:
        return pred, (f"refuses iff depth {op} {kdesc} ({k})" if lhs else f"refuses iff {kdesc} ({k}) {op} depth")
    if z and not o:
        return f"(not {pred})", (f"refuses iff not (depth {op} {kdesc} ({k}))" if lhs else f"refuses iff not ({kdesc} ({k}) {op} depth)")
    return None, f"cannot tell which side of the depth comparison answers CallTooDeep (0-side {z}, other side {o})"


def _replay(log):
    st, out = native.call("debug", "depth_limit", log=log)
    if st != "ok":
        return None, f"{st} {out}"
    bad = re.findall(r"\[depth_limit ([^\]]*?) MISMATCH\]", out)
    return bad, out


def run_depth_limit(tier, log, seed):
    text = mir.dump("revm", log)
    funcs = mir.parse_functions(text)
    duo = smt.Duo(timeout_s=60)
    samples, failures, inconcl = [], [], []
    # depth() must hand back the counter that checkpoint() increments
    dfn = [f for n, fl in funcs.items() for f in fl if re.search(r"journaled_state::<impl at [^>]*>::depth$", n)]
    cfn = [f for n, fl in funcs.items() for f in fl if re.search(r"journaled_state::<impl at [^>]*>::checkpoint$", n)]
    fld = None
    if len(dfn) == 1 and len(cfn) == 1:
        m = re.search(r"= copy \(\(\*_1\)\.(\d+): usize\);", dfn[0].text)
        inc = re.findall(r"\(\(\*_1\)\.(\d+): usize\), const 1_usize\)", cfn[0].text)
        if m and m.group(1) in inc and "as u64 (IntToInt)" in dfn[0].text and len(dfn[0].blocks) == 1:
            fld = m.group(1)
    if fld is None:
        inconcl.append("JournaledState::depth is not `field as u64` of the counter that checkpoint() increments by one (shape not recognised)")
    else:
        samples.append(f"JournaledState::depth reads field .{fld}, the counter checkpoint() increments")
    for fname in FRAMES:
        roots = [f for n, fl in funcs.items() for f in fl if n.endswith("::" + fname)]
        if len(roots) != 1:
            inconcl.append(f"{fname}: expected one MIR body, found {len(roots)}")
            continue
        root = roots[0]
        body = root if "JournaledState::depth(" in root.text else None
        where = fname
        if body is None:
            # the check may live in an in-crate helper that the constructor calls before it opens its checkpoint
            cands = []
            for b in root.blocks.values():
                c = mir.call_of(b.term or "")
                if not c:
                    continue
                last = c[1].split("::")[-1]
                for n, fl in funcs.items():
                    if n.endswith("::" + last) and "context" in n and "make_" not in last:
                        cands += [f for f in fl if "JournaledState::depth(" in f.text]
            cands = list({id(f): f for f in cands}.values())
            if len(cands) == 1:
                body, where = cands[0], f"{fname} -> {cands[0].name.split('::')[-1]}"
        if body is None:
            pred, why = None, "no read of the journal depth in the constructor or in a helper it calls"
        else:
            pred, why = _depth_guard(body, text)
        if pred is None:
            # no recognisable guard: let the real code answer
            bad, out = _replay(log)
            if bad is None:
                inconcl.append(f"{fname}: {why}; native replay failed: {out}")
            elif [x for x in bad if fname in x]:
                failures.append(dict(id=f"depth-limit-{fname}", reproduced=True,
                                     description=f"{fname}: {why} | native: {', '.join(x for x in bad if fname in x)}"))
            else:
                inconcl.append(f"{fname}: {why} (the native scenarios at depth 1024 / 1025 behave as required)")
            continue
        v, model, detail = duo.check(["(declare-const d (_ BitVec 64))"], [f"(distinct {pred} (bvugt d (_ bv1024 64)))"], want_model_of=("d",))
        samples.append(f"{where}: {why}; a depth d with refusal != (d > 1024): {v}")
        log(f"[c07] {samples[-1]}")
        if v == "unsat":
            continue
        if v != "sat":
            inconcl.append(f"{fname}: {detail}")
            continue
        bad, out = _replay(log)
        mine = [x for x in (bad or []) if fname in x]
        desc = f"{where}: {why}, which differs from `depth > 1024` at {str(model).strip()[:80]}"
        if bad is None:
            inconcl.append(f"{fname}: {desc}; native replay failed: {out}")
        else:
            failures.append(dict(id=f"depth-limit-{fname}", reproduced=bool(mine),
                                 description=desc + (f" | native: {', '.join(mine)}" if mine else f" | native scenarios behave as required: {out[:300]}")))
    # vacuity witness: the same query with the property's own predicate negated must be satisfiable
    v, _, _ = duo.check(["(declare-const d (_ BitVec 64))"], ["(distinct (bvuge d (_ bv1024 64)) (bvugt d (_ bv1024 64)))"])
    samples.append(f"witness (a `>=` guard differs from the property): {v}")
    if v != "sat":
        inconcl.append("vacuity witness not satisfiable")
    q, tm = duo.queries, duo.time
    duo.close()
    res = dict(queries=q, solver_s=tm, engine="mir-cfg -> smtlib (64-bit bit-vectors; z3 4.8.12 + cvc5 1.0)", bounds="; ".join(samples),
               detail="per constructor: the one comparison of JournaledState::depth() with a u64 constant, the branch that answers CallTooDeep; all 2^64 depths")
    if any(f.get("reproduced") for f in failures):
        res.update(status="fail", failures=failures, reason=failures[0]["description"][:300])
    elif inconcl:
        res.update(status="inconclusive", reason="; ".join(map(str, inconcl))[:600])
    elif failures:
        res.update(status="fail", failures=failures, reason=failures[0]["description"][:300])
    else:
        res.update(status="pass")
    return res
