"""E3 — bounded symbolic path search over the MIR control-flow graph with data abstraction.

The CFG of the named functions (re-dumped from /repo on every run) is encoded as an SMT problem:
one Boolean per block ("on the path") and per edge, integer cells for the abstract state carried along
the path (journal-depth counter, kind of the returned value). Every branch condition is abstracted to a free
choice, except the outcome of callees whose summary depends on it (create_account_checkpoint Ok/Err).
z3 and cvc5 are asked for a path from entry to a normal `return` that violates the assertion; `unsat` means
no path of the (acyclic) graph violates it. A model is a candidate path; it is confirmed by a native scenario
(/verif/native) before it is reported.
"""
import os, re, time
import mir, smt, native

REPO = os.environ.get("VERIF_REPO", "/repo")


def normal_blocks(fn):
    """Blocks reachable from bb0 through non-unwind edges."""
    seen, work = set(), ["bb0"]
    while work:
        b = work.pop()
        if b in seen or b not in fn.blocks:
            continue
        seen.add(b)
        for lab, s in mir.successors(fn.blocks[b].term):
            if lab.startswith("unwind"):
                continue
            work.append(s)
    return seen


def edges(fn, blocks):
    out = []
    for b in sorted(blocks, key=lambda x: int(x[2:])):
        for lab, s in mir.successors(fn.blocks[b].term):
            if lab.startswith("unwind") or s not in blocks:
                continue
            out.append((b, lab, s))
    return out


def has_cycle(blocks, es):
    adj = {}
    for a, _, b in es:
        adj.setdefault(a, []).append(b)
    color = {}

    def dfs(u):
        color[u] = 1
        for v in adj.get(u, []):
            if color.get(v) == 1:
                return True
            if v not in color and dfs(v):
                return True
        color[u] = 2
        return False
    return dfs("bb0")


DEPTH_CALLEES = [
    (r"JournaledState::checkpoint$", +1),
    (r"JournaledState::checkpoint_commit$", -1),
    (r"JournaledState::checkpoint_revert$", -1),
]
KIND_RESULT, KIND_FRAME, KIND_ERR, KIND_NONE = 1, 2, 3, 0


def callee_of(term):
    c = mir.call_of(term)
    if not c:
        return None
    dest, callee, args = c
    # strip generic arguments for matching
    return dest, re.sub(r"::<.*?>", "", callee), args, callee


def analyse_frame_fn(fn, duo, expect_unit_return=None):
    """Encode one function; returns (verdict, info). expect_unit_return: for *_return functions the required net delta."""
    blocks = normal_blocks(fn)
    es = edges(fn, blocks)
    if has_cycle(blocks, es):
        return "inconclusive", {"reason": "CFG has a cycle; loop-free encoding not applicable"}
    delta = {b: 0 for b in blocks}
    kind = {b: None for b in blocks}
    edge_delta = {}
    consts = {b: [] for b in blocks}
    cac_locals = {}
    for b in blocks:
        blk = fn.blocks[b]
        for st in blk.stmts + [blk.term]:
            m = re.search(r"InstructionResult::(\w+)", st)
            if m and "= " in st and "InstructionResult::is_" not in st:
                consts[b].append(m.group(1))
        c = callee_of(blk.term)
        if not c:
            continue
        dest, callee, args, raw = c
        for pat, d in DEPTH_CALLEES:
            if re.search(pat, callee):
                delta[b] += d
        if re.search(r"JournaledState::create_account_checkpoint$", callee):
            cac_locals[dest.strip()] = b
        if dest and dest.strip() == "_0":
            if "from_residual" in (blk.term or ""):
                kind[b] = KIND_ERR
            elif "closure" in raw:
                kind[b] = KIND_RESULT
        if re.search(r"FrameOrResult::new_\w+_result$", callee):
            kind[b] = KIND_RESULT
        if re.search(r"FrameOrResult::new_\w+_frame$", callee):
            kind[b] = KIND_FRAME
    # outcome-dependent summary: create_account_checkpoint -> Ok: +1 (checkpoint handed out), Err: 0 (it reverted itself)
    for b in blocks:
        blk = fn.blocks[b]
        m = re.match(r"^switchInt\(move (_\d+)\)", blk.term or "")
        if not m:
            continue
        disc = [s for s in blk.stmts if re.match(r"^%s = discriminant\((_\d+)\)$" % re.escape(m.group(1)), s)]
        if not disc:
            continue
        src = re.search(r"discriminant\((_\d+)\)", disc[0]).group(1)
        if src in cac_locals:
            for lab, s in mir.successors(blk.term):
                if lab == "0":
                    edge_delta[(b, lab, s)] = +1
    if cac_locals and not edge_delta:
        return "inconclusive", {"reason": "create_account_checkpoint result is not matched by a discriminant switch"}

    # ---- SMT encoding
    decls, asserts = [], []
    for b in blocks:
        decls += [f"(declare-const on_{b} Bool)", f"(declare-const cin_{b} Int)", f"(declare-const kin_{b} Int)"]
    evar = {}
    for i, e in enumerate(es):
        evar[e] = f"e{i}"
        decls.append(f"(declare-const e{i} Bool)")
    asserts.append("on_bb0")
    asserts.append("(= cin_bb0 0)")
    asserts.append(f"(= kin_bb0 {KIND_NONE})")
    outs = {b: [e for e in es if e[0] == b] for b in blocks}
    ins = {b: [e for e in es if e[2] == b] for b in blocks}

    def exactly_one(vs):
        if not vs:
            return "false"
        if len(vs) == 1:
            return vs[0]
        alo = "(or " + " ".join(vs) + ")"
        amo = " ".join(f"(not (and {vs[i]} {vs[j]}))" for i in range(len(vs)) for j in range(i + 1, len(vs)))
        return f"(and {alo} {amo})"

    returns = [b for b in blocks if fn.blocks[b].term == "return"]
    for b in blocks:
        cout = f"(+ cin_{b} {delta[b]})" if delta[b] >= 0 else f"(- cin_{b} {-delta[b]})"
        kout = str(kind[b]) if kind[b] is not None else f"kin_{b}"
        o = [evar[e] for e in outs[b]]
        if o:
            asserts.append(f"(=> on_{b} {exactly_one(o)})")
            asserts.append(f"(=> (not on_{b}) (not (or {' '.join(o)} false)))")
        for e in outs[b]:
            d = edge_delta.get(e, 0)
            tgt = e[2]
            asserts.append(f"(=> {evar[e]} (and on_{tgt} (= cin_{tgt} (+ {cout} {d})) (= kin_{tgt} {kout})))")
        if b != "bb0":
            i_ = [evar[e] for e in ins[b]]
            asserts.append(f"(=> on_{b} {exactly_one(i_) if i_ else 'false'})")
    # a path ends at exactly one return block
    asserts.append(exactly_one([f"on_{b}" for b in returns]))
    viol = []
    for b in returns:
        cout = f"(+ cin_{b} {delta[b]})"
        kout = str(kind[b]) if kind[b] is not None else f"kin_{b}"
        if expect_unit_return is not None:
            ev = str(expect_unit_return) if expect_unit_return >= 0 else f"(- {-expect_unit_return})"
            viol.append(f"(and on_{b} (not (= {cout} {ev})))")
        else:
            viol.append(f"(and on_{b} (= {kout} {KIND_RESULT}) (not (= {cout} 0)))")
            viol.append(f"(and on_{b} (= {kout} {KIND_FRAME}) (not (= {cout} 1)))")
            viol.append(f"(and on_{b} (= {kout} {KIND_NONE}))")
    asserts.append("(or " + " ".join(viol) + ")")
    names = [f"on_{b}" for b in blocks]
    verdict, model, detail = duo.check(decls, asserts, want_model_of=names + [f"cin_{b}" for b in returns])
    info = {"blocks": len(blocks), "edges": len(es), "returns": len(returns), "checkpoint_sites": sum(1 for b in blocks if delta[b] > 0),
            "close_sites": sum(1 for b in blocks if delta[b] < 0), "solver": detail}
    if verdict == "sat":
        on = sorted([b for b in blocks if re.search(r"\(on_%s true\)" % b, model)], key=lambda x: int(x[2:]))
        pc = []
        for b in on:
            pc += consts[b]
        net = None
        for b in returns:
            if b in on:
                mm = re.search(r"\(cin_%s (\(- \d+\)|\d+)\)" % b, model)
                if mm:
                    v = mm.group(1)
                    net = -int(v[3:-1]) if v.startswith("(") else int(v)
                    net += delta[b]
        info.update(path=on, instruction_results_on_path=pc, net_depth=net)
    return verdict, info


def depth_summaries_hold(funcs):
    """The callee summaries used above: the only writers of JournaledState::depth are checkpoint (+1),
    checkpoint_commit (-1), checkpoint_revert (-1) and the resets in new/clear/finalize."""
    problems = []
    writers = {}
    for name, fl in funcs.items():
        for f in fl:
            if "JournaledState" not in f.text and "journaled_state" not in name:
                continue
            for ln in f.text.split("\n"):
                t = ln.strip()
                m = re.match(r"^\(\(\*_1\)\.(\d+): usize\) = (.*);$", t)
                if m and "journaled_state" in name:
                    writers.setdefault(name.split("::")[-1], []).append((m.group(1), m.group(2)))
    return writers


def replay_depth_scenarios(func, log):
    """Run every native return-site scenario of `func`; returns (list of unbalanced scenario names, raw output) or (None, error)."""
    st, out = native.call("debug", "frame_depth_all", func, log=log)
    if st != "ok":
        return None, f"{st} {out}"
    bad = []
    for name, b, a, k in re.findall(r"\[(\w+) before=(\d+) after=(\d+) kind=(\w+)\]", out):
        want = {"frame": 1, "result": 0, "return": -1}[k]
        if int(a) - int(b) != want:
            bad.append(f"{name} ({b}->{a}, {k})")
    if "panicked" in out:
        bad += [m + " (panicked)" for m in re.findall(r"\[(\w+) panicked\]", out)]
    return bad, out


def run_depth_balance(tier, log, seed):
    text = mir.dump("revm", log)
    funcs = mir.parse_functions(text)
    duo = smt.Duo(timeout_s=60)
    targets = [("make_call_frame", None), ("make_create_frame", None), ("make_eofcreate_frame", None)]
    rets = [("inner_evm_context::<impl at .*>::call_return", -1), ("inner_evm_context::<impl at .*>::create_return", -1),
            ("inner_evm_context::<impl at .*>::eofcreate_return", -1)]
    failures, inconcl, samples = [], [], []
    for suffix, exp in targets:
        cands = [f for n, fl in funcs.items() for f in fl if n.endswith("::" + suffix)]
        if len(cands) != 1:
            inconcl.append(f"{suffix}: expected exactly one MIR body, found {len(cands)}")
            continue
        v, info = analyse_frame_fn(cands[0], duo, exp)
        samples.append(f"{suffix}: {info.get('blocks')} blocks, {info.get('edges')} edges, {info.get('returns')} return(s), "
                       f"{info.get('checkpoint_sites')} checkpoint site(s), {info.get('close_sites')} commit/revert site(s): {v}")
        log(f"[e3] {samples[-1]}")
        if v == "unsat":
            continue
        if v != "sat":
            inconcl.append(f"{suffix}: {info}")
            continue
        # candidate path -> the fixed set of native scenarios of this function, one per return site; any unbalanced one is the replay
        irs = info["instruction_results_on_path"]
        key = (irs[-1] if irs else "no result constant on the path")
        desc = (f"{suffix}: path {'>'.join(info['path'][-6:])} ({key}) returns with net journal depth {info['net_depth']:+d} "
                f"(checkpoints opened != committed/reverted)")
        bad, detail = replay_depth_scenarios(suffix, log)
        if bad is None:
            inconcl.append(f"{suffix}: native scenarios failed: {detail}")
        else:
            failures.append(dict(id=f"{suffix}-{(bad or [key])[0]}", reproduced=bool(bad),
                                 description=desc + (f" | native, unbalanced scenario(s): {', '.join(bad)}" if bad else f" | every native scenario is balanced: {detail[:300]}")))
    for pat, exp in rets:
        cands = [f for n, fl in funcs.items() for f in fl if re.search(pat + "$", n)]
        if len(cands) != 1:
            inconcl.append(f"{pat}: expected exactly one MIR body, found {len(cands)}")
            continue
        v, info = analyse_frame_fn(cands[0], duo, exp)
        nm = cands[0].name.split("::")[-1]
        samples.append(f"{nm}: {info.get('blocks')} blocks, {info.get('returns')} return(s), net depth must be {exp}: {v}")
        log(f"[e3] {samples[-1]}")
        if v == "sat":
            bad, detail = replay_depth_scenarios(nm, log)
            desc = f"{nm}: a path returns with net journal depth {info.get('net_depth')} (expected {exp}); path {'>'.join(info.get('path', [])[-8:])}"
            if bad is None:
                inconcl.append(f"{nm}: native scenarios failed: {detail}")
            else:
                failures.append(dict(id=f"{nm}-{(bad or ['unbalanced'])[0]}", reproduced=bool(bad),
                                     description=desc + (f" | native, unbalanced scenario(s): {', '.join(bad)}" if bad else f" | every native scenario is balanced: {detail[:300]}")))
        elif v != "unsat":
            inconcl.append(f"{nm}: {info}")
    # constant of the depth limit
    m = re.search(r"const CALL_STACK_LIMIT: u64 = \{.*?_0 = const (\d+)_u64", text, re.S)
    limit_ok = bool(m and m.group(1) == "1024")
    if not m:
        m2 = re.search(r"CALL_STACK_LIMIT", text)
    samples.append(f"CALL_STACK_LIMIT == 1024 in MIR: {limit_ok}")
    q, tm = duo.queries, duo.time
    duo.close()
    res = dict(queries=q, solver_s=tm, engine="mir-cfg -> smtlib path search (z3 4.8.12 + cvc5 1.0)", bounds="; ".join(samples),
               detail="callee summaries: checkpoint +1, checkpoint_commit -1, checkpoint_revert -1, create_account_checkpoint Ok:+1/Err:0, all other callees 0")
    if any(f.get("reproduced") for f in failures):
        res.update(status="fail", failures=failures, reason=failures[0]["description"][:300])
    elif inconcl:
        res.update(status="inconclusive", reason="; ".join(map(str, inconcl))[:600])
    elif failures:
        res.update(status="fail", failures=failures, reason=failures[0]["description"][:300])
    else:
        res.update(status="pass")
    return res


# ------------------------------------------------------------------------------------------------ C22
def defs_of(fn, local):
    out = []
    for b in fn.blocks.values():
        for s in b.stmts + [b.term or ""]:
            m = re.match(r"^%s = (.*)$" % re.escape(local), s)
            if m:
                out.append(m.group(1))
    return out


def resolve_flag(fn, operand, depth=0):
    """Abstract value of a bool operand: ('lit', bool) | ('self_flag',) | ('unknown', text)."""
    operand = operand.strip()
    if operand in ("const true", "const false"):
        return ("lit", operand.endswith("true"))
    m = re.match(r"^(?:move|copy) (_\d+)$", operand)
    if not m or depth > 6:
        return ("unknown", operand)
    ds = defs_of(fn, m.group(1))
    if len(ds) != 1:
        return ("unknown", f"{m.group(1)} has {len(ds)} definitions")
    d = ds[0]
    if d in ("const true", "const false") or d.startswith("move ") or d.startswith("copy "):
        return resolve_flag(fn, d, depth + 1)
    mm = re.match(r"^Option::<.*>::is_some\((?:move|copy) (_\d+)\) -> ", d)
    if mm:
        src = defs_of(fn, mm.group(1))
        if len(src) == 1 and re.match(r"^&\(\(\(\*_1\)\.\d+: .*PostExecutionHandler<.*>\)\.\d+: (?:std::option::)?Option<", src[0]):
            return ("self_flag",)
        return ("unknown", f"is_some of {src}")
    return ("unknown", d[:120])


def run_reward_flag(tier, log, seed):
    text = mir.dump("revm", log)
    funcs = mir.parse_functions(text)
    duo = smt.Duo(timeout_s=30)
    failures, inconcl, samples = [], [], []
    for fname in ("pop_handle_register", "create_handle_generic", "modify_spec_id"):
        cands = [f for n, fl in funcs.items() for f in fl if re.search(r"^handler::<impl at [^>]*>::%s$" % fname, n)]
        if len(cands) != 1:
            inconcl.append(f"{fname}: expected one MIR body in handler.rs, found {len(cands)}")
            continue
        fn = cands[0]
        sites = []
        for b in fn.blocks.values():
            c = mir.call_of(b.term or "")
            if c and re.search(r"Handler::<.*>::(mainnet|mainnet_with_spec|optimism|optimism_with_spec)(::<.*>)?$", c[1]):
                sites.append((b.name, c[1], mir.split_top(c[2])))
            elif c and re.search(r"Handler::<.*>::new$", c[1]):
                # Handler::new(cfg) has no reward parameter: it always builds with rewards on
                sites.append((b.name, c[1], ["const true"]))
        if not sites:
            inconcl.append(f"{fname}: no call to Handler::mainnet/mainnet_with_spec found (rebuild path changed shape)")
            continue
        for bname, callee, args in sites:
            val = resolve_flag(fn, args[-1])
            decls = ["(declare-const flag_in Bool)", "(declare-const unk Bool)"]
            term = {"lit": lambda v: "true" if v[1] else "false", "self_flag": lambda v: "flag_in", "unknown": lambda v: "unk"}[val[0]](val)
            v, model, detail = duo.check(decls, [f"(not (= {term} flag_in))"], want_model_of=("flag_in",))
            samples.append(f"{fname}@{bname}: reward argument of {callee.split('::')[-1]} is {val} -> {v}")
            log(f"[e3] {samples[-1]}")
            if v == "unsat":
                continue
            if v != "sat":
                inconcl.append(f"{fname}: {detail}")
                continue
            flag = "true" in model
            st, out = native.call("debug", "handler_flag", fname, "true" if flag else "false", log=log)
            m = re.match(r"before=(\w+) after=(\w+)", out) if st == "ok" else None
            if m and m.group(1) == m.group(2) and not flag:
                # the handle may look unchanged and still pay: run a tipping transaction after the reconfiguration
                st2, out2 = native.call("debug", "reward_paid", fname, log=log)
                m2 = re.search(r"coinbase_received=(\d+)", out2) if st2 == "ok" else None
                if m2 and int(m2.group(1)) > 0:
                    failures.append(dict(id=f"{fname}-reward-flag", reproduced=True,
                                         description=f"Handler::{fname} with rewards off: the beneficiary is paid after the reconfiguration | native: {out2}"))
                    continue
            desc = (f"Handler::{fname} rebuilds the handler with reward argument {val} instead of the current setting: "
                    f"a handler configured with rewards {'on' if flag else 'off'} comes back")
            if m and m.group(1) != m.group(2):
                failures.append(dict(id=f"{fname}-reward-flag", reproduced=True, description=desc + f" with reward handle present={m.group(2)} (was {m.group(1)})"))
            elif m:
                failures.append(dict(id=f"{fname}-reward-flag", reproduced=False, description=desc + f" | native: unchanged ({out})"))
            else:
                inconcl.append(f"{fname}: native scenario failed: {st} {out}")
    # ---- the switch itself: PostExecutionHandler::new installs the reward handle iff its flag is set (the rebuild paths read the
    # setting back with `.is_some()`, so a handle that is always present would defeat them although each site looks fine alone)
    cands = [f for n, fl in funcs.items() for f in fl if re.search(r"handle_types::post_execution::<impl at [^>]*>::new$", n)]
    if len(cands) != 1:
        inconcl.append(f"PostExecutionHandler::new: {len(cands)} MIR bodies")
    else:
        fn = cands[0]
        field = None
        for b in fn.blocks.values():
            for s_ in b.stmts:
                m = re.search(r"PostExecutionHandler::<.*> \{.*reward_beneficiary: (?:move|copy) (_\d+)", s_)
                if m:
                    field = m.group(1)
        sw = None
        for b in fn.blocks.values():
            m = re.match(r"^switchInt\(copy _1\) -> \[0: (bb\d+), otherwise: (bb\d+)\]$", b.term or "")
            if m:
                sw = m.groups()
        def presence(bb):
            for s_ in fn.blocks[bb].stmts + [fn.blocks[bb].term or ""]:
                m = re.match(r"^%s = Option::<.*>::(Some|None)" % re.escape(field or "_x"), s_)
                if m:
                    return "true" if m.group(1) == "Some" else "false"
            # follow a straight line for a few blocks
            return None
        def presence_chain(bb):
            for _ in range(4):
                r_ = presence(bb)
                if r_ is not None:
                    return r_
                nx = [t_ for l_, t_ in mir.successors(fn.blocks[bb].term or "") if l_ in ("return", "goto")]
                if not nx:
                    return "unk"
                bb = nx[0]
            return "unk"
        if not field or not sw:
            inconcl.append("PostExecutionHandler::new: reward_beneficiary field / switch on the flag not found")
        else:
            t0_, t1_ = presence_chain(sw[0]), presence_chain(sw[1])
            v, model, detail = duo.check(["(declare-const flag Bool)", "(declare-const unk Bool)"], [f"(not (= (ite flag {t1_} {t0_}) flag))"], want_model_of=("flag",))
            samples.append(f"PostExecutionHandler::new: handle present = ite(flag, {t1_}, {t0_}); must equal flag -> {v}")
            log(f"[e3] {samples[-1]}")
            if v == "sat":
                st, out = native.call("debug", "reward_paid", "modify_spec_id", log=log)
                m = re.search(r"coinbase_received=(\d+)", out) if st == "ok" else None
                desc = "PostExecutionHandler::new does not install the reward handle exactly when asked to: the setting read back by the rebuild paths (`is_some()`) is not the configured one"
                if m:
                    failures.append(dict(id="post_execution-new-reward-switch", reproduced=int(m.group(1)) > 0, description=desc + f" | native (rewards off, then modify_spec_id, then a tipping transaction): {out}"))
                else:
                    inconcl.append(f"PostExecutionHandler::new: native scenario failed: {st} {out}")
            elif v != "unsat":
                inconcl.append(f"PostExecutionHandler::new: {detail}")
    q, tm = duo.queries, duo.time
    duo.close()
    res = dict(queries=q, solver_s=tm, engine="mir dataflow -> smtlib (z3 4.8.12 + cvc5 1.0)", bounds="; ".join(samples),
               detail="the reward argument of every Handler constructor call inside the three rebuild functions must equal self.post_execution.reward_beneficiary.is_some(), and PostExecutionHandler::new must install the handle iff its flag is set")
    if any(f.get("reproduced") for f in failures):  # a replayed violation is reported whatever else stayed undecided
        res.update(status="fail", failures=failures, reason=failures[0]["description"][:300])
    elif inconcl:
        res.update(status="inconclusive", reason="; ".join(inconcl)[:500])
    elif failures:
        res.update(status="fail", failures=failures, reason=failures[0]["description"][:300])
    else:
        res.update(status="pass")
    return res


# ------------------------------------------------------------------------------------------------ C20 / C21
LAYERS = [
    # (layer id, crate, source file, impl-line regex, trait, inner query regex)
    ("WrapDatabaseRef:Database", "primitives", "crates/primitives/src/db.rs", r"^impl<T: DatabaseRef> Database for WrapDatabaseRef<T>", "has_storage", r"has_storage_ref"),
    ("DatabaseComponents:Database", "primitives", "crates/primitives/src/db/components.rs", r"^impl<S: State, BH: BlockHash> Database for DatabaseComponents<S, BH>", "has_storage", r"has_storage"),
    ("DatabaseComponents:DatabaseRef", "primitives", "crates/primitives/src/db/components.rs", r"^impl<S: StateRef, BH: BlockHashRef> DatabaseRef for DatabaseComponents<S, BH>", "has_storage_ref", r"has_storage"),
    ("CacheDB:Database", "revm", "crates/revm/src/db/in_memory_db.rs", r"^impl<ExtDB: DatabaseRef> Database for CacheDB<ExtDB>", "has_storage", r"has_storage_ref"),
    ("CacheDB:DatabaseRef", "revm", "crates/revm/src/db/in_memory_db.rs", r"^impl<ExtDB: DatabaseRef> DatabaseRef for CacheDB<ExtDB>", "has_storage_ref", r"has_storage_ref"),
    ("State:Database", "revm", "crates/revm/src/db/states/state.rs", r"^impl<DB: Database> Database for State<DB>", "has_storage", r"has_storage"),
]


def impl_methods(funcs, relpath, line):
    out = {}
    pat = re.compile(r"<impl at %s:%d:\d+: \d+:\d+>::(\w+)$" % (re.escape(relpath), line))
    for n, fl in funcs.items():
        m = pat.search(n)
        if m:
            out[m.group(1)] = fl[0]
    return out


def run_has_storage(tier, log, seed):
    duo = smt.Duo(timeout_s=30)
    failures, inconcl, samples = [], [], []
    parsed = {}
    for lid, crate, rel, rx, meth, inner in LAYERS:
        if crate not in parsed:
            parsed[crate] = mir.parse_functions(mir.dump(crate, log))
        funcs = parsed[crate]
        src = open("/repo/" + rel).read().split("\n")
        lines = [i + 1 for i, l in enumerate(src) if re.search(rx, l)]
        if len(lines) != 1:
            inconcl.append(f"{lid}: impl header not found exactly once in {rel}")
            continue
        methods = impl_methods(funcs, rel, lines[0])
        if "basic" not in methods and "basic_ref" not in methods:
            inconcl.append(f"{lid}: MIR of impl block at {rel}:{lines[0]} not found")
            continue
        if meth not in methods:
            ans, why = "false", f"no `{meth}` in the impl block at {rel}:{lines[0]}: the trait default `Ok(false)` answers"
        else:
            body = methods[meth].text
            if re.search(inner + r"\(", body) and "-> [return" in body:
                ans, why = "under", f"`{meth}` calls the wrapped source's {inner}"
            else:
                ans, why = "unk", f"`{meth}` exists but does not visibly forward"
        decls = ["(declare-const under Bool)", "(declare-const unk Bool)"]
        v, model, detail = duo.check(decls, [f"(not (= {ans} under))"], want_model_of=("under",))
        samples.append(f"{lid}: {why} -> {v}")
        log(f"[e3] {samples[-1]}")
        if v == "unsat":
            continue
        if v != "sat":
            inconcl.append(f"{lid}: {detail}")
            continue
        st, out = native.call("debug", "has_storage_layer", lid, log=log)
        desc = f"has_storage through {lid} ignores the wrapped data ({why})"
        if st == "ok" and out == "underlying=true answer=false":
            failures.append(dict(id=f"has_storage-{lid}", reproduced=True, description=desc + " | native: wrapped source says true, layer answers false"))
        elif st == "ok":
            failures.append(dict(id=f"has_storage-{lid}", reproduced=False, description=desc + f" | native: {out}"))
        else:
            inconcl.append(f"{lid}: native scenario failed: {st} {out}")
    # C21 (b): the flag handed to the collision check is the database's answer for the created address
    funcs = parsed.get("revm") or mir.parse_functions(mir.dump("revm", log))
    for fname in ("make_create_frame", "make_eofcreate_frame"):
        cands = [f for n, fl in funcs.items() for f in fl if n.endswith("::" + fname)]
        if len(cands) != 1:
            inconcl.append(f"{fname}: MIR body not found")
            continue
        fn = cands[0]
        site = None
        for b in fn.blocks.values():
            c = mir.call_of(b.term or "")
            if c and re.search(r"JournaledState::create_account_checkpoint$", re.sub(r"::<.*?>", "", c[1])):
                site = mir.split_top(c[2])
        if not site:
            inconcl.append(f"{fname}: no call to create_account_checkpoint")
            continue
        # the bool argument (address_has_storage) is the last bool-typed operand: resolve it to the has_storage call
        term, why = "unk", "not resolved"
        for op in site:
            m = re.match(r"^(?:move|copy) (_\d+)$", op)
            if not m or fn.locals.get(m.group(1)) != "bool":
                continue
            chain = [m.group(1)]
            cur = m.group(1)
            for _ in range(8):
                ds = defs_of(fn, cur)
                if len(ds) != 1:
                    break
                d = ds[0]
                mm = re.match(r"^(?:move|copy) (_\d+)$", d) or re.match(r"^(?:move|copy) \(\((_\d+) as Continue\)\.0: bool\)$", d) \
                    or re.match(r"^(?:move|copy) \(\((_\d+) as Ok\)\.0: bool\)$", d)
                if mm:
                    cur = mm.group(1)
                    chain.append(cur)
                    continue
                mm = re.match(r"^<.* as Try>::branch\((?:move|copy) (_\d+)\)", d) or re.match(r"^Result::<.*>::map_err::<.*>\((?:move|copy) (_\d+),", d)
                if mm:
                    cur = mm.group(1)
                    chain.append(cur)
                    continue
                if re.match(r"^<DB as primitives::db::Database>::has_storage\(", d):
                    term, why = "under", "result of <DB as Database>::has_storage(created_address)"
                break
        v, model, detail = duo.check(["(declare-const under Bool)", "(declare-const unk Bool)"], [f"(not (= {term} under))"], want_model_of=("under",))
        samples.append(f"{fname}: address_has_storage argument is {why} -> {v}")
        log(f"[e3] {samples[-1]}")
        if v == "sat":
            st, out = native.call("debug", "create_collision", fname, log=log)
            desc = f"{fname}: the storage flag handed to the collision check is not the database's has_storage answer ({why})"
            if st == "ok":
                failures.append(dict(id=f"{fname}-has_storage-arg", reproduced=("MISMATCH" in out), description=desc + f" | native: {out[:400]}"))
            else:
                inconcl.append(f"{fname}: native scenario failed: {st} {out[:200]}")
        elif v != "unsat":
            inconcl.append(f"{fname}: {detail}")
    q, tm = duo.queries, duo.time
    duo.close()
    res = dict(queries=q, solver_s=tm, engine="mir impl/dataflow scan -> smtlib (z3 4.8.12 + cvc5 1.0)", bounds="; ".join(samples),
               detail="per database layer: the has_storage answer must equal the wrapped source's answer; per create path: the collision flag must be that answer")
    if any(f.get("reproduced") for f in failures):  # a replayed violation is reported whatever else stayed undecided
        res.update(status="fail", failures=failures, reason=failures[0]["description"][:300])
    elif inconcl:
        res.update(status="inconclusive", reason="; ".join(inconcl)[:500])
    elif failures:
        res.update(status="fail", failures=failures, reason=failures[0]["description"][:300])
    else:
        res.update(status="pass")
    return res


# ------------------------------------------------------------------------------------------------ C05
def spec_ids():
    """SpecId name -> discriminant of the mainnet (non-optimism) enum, read from the source."""
    src = open("/repo/crates/primitives/src/specification.rs").read()
    m = re.search(r"#\[cfg\(not\(feature = \"optimism\"\)\)\].*?pub enum SpecId \{(.*?)\n\}", src, re.S)
    out = {}
    for name, val in re.findall(r"^\s*([A-Z_]+) = (\d+|u8::MAX),", m.group(1), re.M):
        out[name] = 255 if val == "u8::MAX" else int(val)
    return out


def spec_type_ids(ids):
    """SpecId discriminant -> SPEC_ID of the Spec type that `spec_to_generic!` (mainnet arm) instantiates for it."""
    src = open("/repo/crates/primitives/src/specification.rs").read()
    types = dict((t, n) for n, t in re.findall(r"^spec!\(([A-Z_]+), (\w+)\);", src, re.M))
    m = re.search(r"#\[cfg\(not\(feature = \"optimism\"\)\)\]\s*#\[macro_export\]\s*macro_rules! spec_to_generic \{(.*?)\n\}\n", src, re.S)
    if not m:
        raise mir.Unsupported("spec_to_generic! (mainnet) not found")
    out = {}
    for pats, ty in re.findall(r"((?:\$crate::)?SpecId::[A-Z_]+(?:\s*\|\s*(?:\$crate::)?SpecId::[A-Z_]+)*)\s*=>\s*\{\s*use \$crate::(\w+) as SPEC;", m.group(1)):
        for nm in re.findall(r"SpecId::([A-Z_]+)", pats):
            out[ids[nm]] = ids[types[ty]]
    missing = [k for k, v in ids.items() if v not in out]
    if missing:
        raise mir.Unsupported("spec_to_generic! does not cover " + ",".join(missing))
    return out


# Reference (EIPs / yellow paper): opcode -> hardfork that introduced it, for LEGACY code. Anything absent is undefined.
def reference_opcode_intro():
    F = "FRONTIER"
    t = {}
    for op in list(range(0x00, 0x0c)) + list(range(0x10, 0x1b)) + [0x20] + list(range(0x30, 0x3d)) + list(range(0x40, 0x46)) \
            + list(range(0x50, 0x5c)) + list(range(0x60, 0xa5)) + [0xf0, 0xf1, 0xf2, 0xf3, 0xff]:
        t[op] = F
    t[0xf4] = "HOMESTEAD"                                                  # EIP-7 DELEGATECALL
    for op in (0x3d, 0x3e, 0xfa, 0xfd):                                    # EIP-211, EIP-214, EIP-140
        t[op] = "BYZANTIUM"
    for op in (0x1b, 0x1c, 0x1d, 0x3f, 0xf5):                              # EIP-145, EIP-1052, EIP-1014
        t[op] = "CONSTANTINOPLE"
    for op in (0x46, 0x47):                                                # EIP-1344, EIP-1884
        t[op] = "ISTANBUL"
    t[0x48] = "LONDON"                                                     # EIP-3198
    t[0x5f] = "SHANGHAI"                                                   # EIP-3855
    for op in (0x49, 0x4a, 0x5c, 0x5d, 0x5e):                              # EIP-4844, EIP-7516, EIP-1153, EIP-5656
        t[op] = "CANCUN"
    return t


EOF_ONLY = {0xd0, 0xd1, 0xd2, 0xd3, 0xe0, 0xe1, 0xe2, 0xe3, 0xe4, 0xe5, 0xe6, 0xe7, 0xe8, 0xec, 0xee, 0xf7, 0xf8, 0xf9, 0xfb}
DESIGNATED_INVALID = 0xfe   # halts in every fork whether "defined" or not: not compared


def extract_opcode_table(funcs, text):
    """opcode -> (function path, generic args) from the MIR of `instruction::<H, SPEC>(opcode)`."""
    cands = [f for n, fl in funcs.items() for f in fl if n == "instruction"]
    if not cands:
        raise mir.Unsupported("fn instruction(opcode) not found in MIR")
    fn = cands[0]
    m = re.match(r"^switchInt\(copy _1\) -> \[(.*)\]$", fn.blocks["bb0"].term)
    if not m:
        raise mir.Unsupported("instruction(): entry is not a switch on the opcode")
    table, default = {}, None
    arms = [a.split(": ") for a in mir.split_top(m.group(1))]

    def target_fn(bb):
        for s in fn.blocks[bb].stmts:
            mm = re.match(r"^_0 = ([\w:]+?)(?:::<(.*)>)? as for<", s)
            if mm:
                return mm.group(1), (mm.group(2) or "")
        raise mir.Unsupported("instruction(): block %s does not assign a function" % bb)
    for k, bb in arms:
        if k == "otherwise":
            default = target_fn(bb)
        else:
            table[int(k)] = target_fn(bb)
    for op in range(256):
        table.setdefault(op, default)
    return table


def fork_gate(funcs, text, path, generics):
    """(gate fork or None, requires_eof: bool) of an instruction function, from its MIR."""
    name = path
    fl = funcs.get(name)
    if not fl:
        # rustc prints trimmed paths: a function whose name is unique in the crate is printed without its module path
        segs = name.split("::")
        best = []
        for k in range(len(segs)):
            suffix = "::".join(segs[k:])
            best = [f for n, l in funcs.items() for f in l if n == suffix]
            if best:
                break
        fl = best
    if len(fl) != 1:
        raise mir.Unsupported("MIR of %s not found uniquely (%d candidates)" % (name, len(fl)))
    fn = fl[0]
    # in legacy code an EOF-only opcode halts either way (EOFOpcodeDisabledInLegacy, or ReturnContractInNotInitEOF for RETURNCONTRACT)
    requires_eof = "EOFOpcodeDisabledInLegacy" in fn.text or "ReturnContractInNotInitEOF" in fn.text
    gate = None
    bool_args = [g.strip() for g in mir.split_top(generics) if g.strip() in ("true", "false")]
    preds = {}
    for b_ in fn.blocks.values():
        for lab, s_ in mir.successors(b_.term or ""):
            preds.setdefault(s_, []).append((b_.name, lab))
    for b_ in fn.blocks.values():
        m = re.match(r"^switchInt\(const (.+?)\) -> \[0: (bb\d+), otherwise: (bb\d+)\]$", b_.term or "")
        if not m or "{constant#" not in m.group(1):
            continue
        c, b0, b1 = m.groups()
        # is this gate itself under a const-generic condition (e.g. `if IS_CREATE2 { check!(..) }`)?
        applicable = True
        ps = [p for p in preds.get(b_.name, []) if not p[1].startswith("unwind")]
        if len(ps) == 1:
            pm = re.match(r"^switchInt\(const ([A-Z_0-9]+)\) -> \[0: (bb\d+), otherwise: (bb\d+)\]$", fn.blocks[ps[0][0]].term or "")
            if pm:
                if len(bool_args) != 1:
                    raise mir.Unsupported("%s: gate under const generic %s but instantiation %s is ambiguous" % (name, pm.group(1), generics))
                taken_true = (pm.group(3) == b_.name)
                applicable = (bool_args[0] == "true") == taken_true
        if not applicable:
            continue
        cname = re.sub(r"::<.*?>", "", c)
        knum = re.search(r"\{constant#(\d+)\}", cname).group(1)
        # the definition is printed under the function's own (possibly trimmed) path
        mm = re.search(r"^" + re.escape(fn.name) + r"::\{constant#" + knum + r"\}: bool = \{(.*?)\n\}", text, re.S | re.M)
        if not mm:
            raise mir.Unsupported("inline const %s not found" % cname)
        body = mm.group(1)
        fk = re.search(r"_\d+ = (?:[\w]+::)*([A-Z_]+);", body)
        if not fk or "is_enabled_in(const <SPEC as" not in body or "Not(" not in body:
            raise mir.Unsupported("inline const %s is not a `!SPEC.is_enabled_in(FORK)` gate" % cname)
        if "NotActivated" not in "\n".join(fn.blocks[b1].stmts):
            raise mir.Unsupported("%s: gate branch does not set NotActivated" % name)
        if gate is not None and gate != fk.group(1):
            raise mir.Unsupported("%s: two different fork gates" % name)
        gate = fk.group(1)
    return gate, requires_eof


def run_fork_tables(tier, log, seed):
    duo = smt.Duo(timeout_s=60)
    failures, inconcl, samples = [], [], []
    ids = spec_ids()
    valid = sorted(set(ids.values()))
    # ---------------- opcodes
    try:
        text = mir.dump("interpreter", log)
        funcs = mir.parse_functions(text)
        table = extract_opcode_table(funcs, text)
        gates = {}
        cache = {}
        for op, (path, gen) in table.items():
            key = (path, gen)
            if key not in cache:
                if path.endswith("control::unknown"):
                    cache[key] = ("NEVER", False)
                else:
                    cache[key] = fork_gate(funcs, text, path, gen)
            gates[op] = cache[key]
    except mir.Unsupported as e:
        inconcl.append("opcode table: " + str(e))
        gates = None
    if gates is not None:
        ref = reference_opcode_intro()
        # SMT: undefined_code(op, spec) vs undefined_ref(op, spec) over all 256 x |SpecId|
        def ite_chain(vals, default):
            t = default
            for op, v in sorted(vals.items(), reverse=True):
                t = f"(ite (= op {op}) {v} {t})"
            return t
        NEVER = 1000
        code_gate = {op: (NEVER if g == "NEVER" else (ids[g] if g else 0)) for op, (g, e) in gates.items()}
        code_eof = {op: ("true" if e else "false") for op, (g, e) in gates.items()}
        ref_gate = {op: ids[ref[op]] if op in ref else NEVER for op in range(256)}
        ref_eof = {op: ("true" if op in EOF_ONLY else "false") for op in range(256)}
        decls = ["(declare-const op Int)", "(declare-const spec Int)"]
        base = ["(<= 0 op)", "(<= op 255)", f"(not (= op {DESIGNATED_INVALID}))",
                "(or " + " ".join(f"(= spec {v})" for v in valid) + ")"]
        try:
            eff = spec_type_ids(ids)
        except mir.Unsupported as e:
            inconcl.append(str(e))
            eff = {v: v for v in valid}
        efft = "spec"
        for sp_, ty_ in sorted(eff.items(), reverse=True):
            efft = f"(ite (= spec {sp_}) {ty_} {efft})"
        # the table is instantiated for the Spec TYPE that spec_to_generic! picks for the SpecId (e.g. CONSTANTINOPLE -> PetersburgSpec)
        und_code = f"(or {ite_chain(code_eof, 'false')} (< {efft} {ite_chain(code_gate, '0')}))"
        und_ref = f"(or {ite_chain(ref_eof, 'false')} (< spec {ite_chain(ref_gate, '0')}))"
        names = {v: k for k, v in ids.items()}
        block = []
        confirmed = 0
        for _ in range(60):
            v, model, detail = duo.check(decls, base + block + [f"(not (= {und_code} {und_ref}))"], want_model_of=("op", "spec"))
            if v == "unsat":
                break
            if v != "sat":
                inconcl.append(f"opcode table query: {detail}")
                break
            op = int(re.search(r"\(op (\d+)\)", model).group(1))
            sp = int(re.search(r"\(spec (\d+)\)", model).group(1))
            block.append(f"(not (and (= op {op}) (= spec {sp})))")
            g, e = gates[op]
            want_undefined = (op not in ref) or (op in EOF_ONLY) or sp < ids[ref[op]]
            st, out = native.call("debug", "opcode_status", op, sp, log=log)
            desc = (f"opcode 0x{op:02x} under {names.get(sp, sp)}: the instruction table maps it to {table[op][0].split('::')[-1]} with fork gate {g}"
                    f"{' (EOF only)' if e else ''}; the EIP table says it is {'undefined' if want_undefined else 'defined'} there")
            if st == "ok":
                native_undefined = out.split()[0] in ("OpcodeNotFound", "NotActivated", "EOFOpcodeDisabledInLegacy", "ReturnContractInNotInitEOF")
                if native_undefined != want_undefined:
                    failures.append(dict(id=f"opcode-0x{op:02x}-{names.get(sp, sp)}", reproduced=True, description=desc + f" | native: executing it gives {out}"))
                    confirmed += 1
                # else: extraction and real behaviour disagree (gate implemented differently): not reported as a violation
                elif len(block) >= 60:
                    break
            else:
                inconcl.append(f"opcode 0x{op:02x}: native scenario failed: {st} {out}")
                break
        n_gated = sum(1 for g, e in gates.values() if g not in (None, "NEVER"))
        samples.append(f"opcode table: 256 opcodes x {len(valid)} SpecIds; {n_gated} table entries carry a fork gate, "
                       f"{sum(1 for g, e in gates.values() if e)} are EOF-only, {sum(1 for g, e in gates.values() if g == 'NEVER')} map to `unknown`; "
                       f"{len(block)} disagreeing (opcode, spec) pairs, {confirmed} confirmed natively")
        log(f"[e3] {samples[-1]}")
        unconfirmed = len(block) - confirmed
        # confirmed pairs are violations whatever else happened; only when NOTHING reproduced is the disagreement put down to the encoding
        if unconfirmed and not confirmed and not inconcl:
            inconcl.append(f"{unconfirmed} disagreeing (opcode, spec) pair(s) between the extracted fork gates and the EIP table did not reproduce natively: "
                           f"the gate of that opcode is not a plain `check!` any more and cannot be decided by this encoding")
    # ---------------- PrecompileSpecId::from_spec_id
    try:
        ptext = mir.dump("precompile", log)
        pfuncs = mir.parse_functions(ptext)
        cands = [f for n, fl in pfuncs.items() for f in fl if n.endswith("::from_spec_id")]
        if len(cands) != 1:
            raise mir.Unsupported(f"from_spec_id: {len(cands)} MIR bodies")
        from mirsym import Exec, Val
        pid = {"HOMESTEAD": 0, "BYZANTIUM": 1, "ISTANBUL": 2, "BERLIN": 3, "CANCUN": 4, "PRAGUE": 5, "LATEST": 6}
        consts = {("PrecompileSpecId::" + k): (v, "u8") for k, v in pid.items()}
        consts.update({("SpecId::" + k): (v, "u8") for k, v in ids.items()})
        consts.update({k: (v, "u8") for k, v in ids.items()})
        ex = Exec(cands[0], consts=consts, call_models={r"SpecId::is_enabled_in$|SpecId::enabled$": lambda e, a: Val("bool", f"(>= {a[0].term} {a[1].term})")})
        ocs = ex.run("bb0", {"_1": Val("int", "spec", "u8")})
        # reference: fork -> precompile set (EIP-198/196/197 Byzantium, EIP-152 Istanbul, EIP-2565 Berlin, EIP-4844 Cancun, EIP-2537 Prague)
        def ref_pid(sp):
            r = "HOMESTEAD"
            for fork, p in (("BYZANTIUM", "BYZANTIUM"), ("ISTANBUL", "ISTANBUL"), ("BERLIN", "BERLIN"), ("CANCUN", "CANCUN"), ("PRAGUE", "PRAGUE")):
                if sp >= ids[fork]:
                    r = p
            if sp == 255:
                r = "LATEST"
            return pid[r]
        refterm = "0"
        for sp in sorted(valid, reverse=True):
            refterm = f"(ite (= spec {sp}) {ref_pid(sp)} {refterm})"
        decls = ["(declare-const spec Int)"]
        base = ["(or " + " ".join(f"(= spec {v})" for v in valid) + ")"]
        bad = 0
        for oc in ocs:
            if oc.end[0] == "panic":
                v, model, detail = duo.check(decls, base + oc.pc, want_model_of=("spec",))
                if v == "sat":
                    failures.append(dict(id="from_spec_id-panic", description=f"PrecompileSpecId::from_spec_id can panic/reach unreachable: {oc.end[1]} {model}"))
                continue
            v, model, detail = duo.check(decls, base + oc.pc + [f"(not (= {oc.end[1].term} {refterm}))"], want_model_of=("spec",))
            if v == "sat":
                sp = int(re.search(r"\(spec (\d+)\)", model).group(1))
                st, out = native.call("debug", "precompile_spec", sp, log=log)
                names = {v_: k for k, v_ in ids.items()}
                pn = {v_: k for k, v_ in pid.items()}
                desc = f"PrecompileSpecId::from_spec_id({names.get(sp, sp)}) differs from the fork's precompile set {pn[ref_pid(sp)]}"
                if st == "ok" and out != pn[ref_pid(sp)]:
                    failures.append(dict(id=f"from_spec_id-{names.get(sp, sp)}", reproduced=True, description=desc + f" | native: {out}"))
                elif st == "ok":
                    failures.append(dict(id=f"from_spec_id-{names.get(sp, sp)}", reproduced=False, description=desc + f" | native agrees with the reference: {out}"))
                else:
                    inconcl.append(f"from_spec_id: native failed {st} {out}")
                bad += 1
            elif v != "unsat":
                inconcl.append(f"from_spec_id: {detail}")
        samples.append(f"PrecompileSpecId::from_spec_id: {len(ocs)} MIR paths x {len(valid)} SpecIds, {bad} disagreeing")
        log(f"[e3] {samples[-1]}")
    except mir.Unsupported as e:
        inconcl.append("from_spec_id: " + str(e))
    q, tm = duo.queries, duo.time
    duo.close()
    res = dict(queries=q, solver_s=tm, engine="mir table/gate extraction + mir symbolic execution -> smtlib (z3 4.8.12 + cvc5 1.0)", bounds="; ".join(samples),
               detail="undefined(op, spec) := table maps to `unknown` or the function requires EOF or spec < its check! gate; compared with the EIP introduction table for all 256 x SpecIds")
    if any(f.get("reproduced") for f in failures):  # a replayed violation is reported whatever else stayed undecided
        res.update(status="fail", failures=failures, reason=failures[0]["description"][:300])
    elif inconcl:
        res.update(status="inconclusive", reason="; ".join(inconcl)[:500])
    elif failures:
        res.update(status="fail", failures=failures, reason=failures[0]["description"][:300])
    else:
        res.update(status="pass")
    return res


# ------------------------------------------------------------------------------------------------ C10 (flag propagation)
CALL_FNS = [("call", False), ("call_code", False), ("delegate_call", False), ("static_call", True),
            ("extcall", False), ("extdelegatecall", False), ("extstaticcall", True)]


def interpreter_field_index(field):
    src = open("/repo/crates/interpreter/src/interpreter.rs").read()
    m = re.search(r"pub struct Interpreter \{(.*?)\n\}", src, re.S)
    names = re.findall(r"^\s*pub (\w+):", m.group(1), re.M)
    return names.index(field)


def run_static_flag(tier, log, seed):
    text = mir.dump("interpreter", log)
    funcs = mir.parse_functions(text)
    duo = smt.Duo(timeout_s=30)
    failures, inconcl, samples = [], [], []
    idx = interpreter_field_index("is_static")
    for fname, forced in CALL_FNS:
        cands = [f for n, fl in funcs.items() for f in fl if n in ("instructions::contract::" + fname, "contract::" + fname, fname)]
        if len(cands) != 1:
            inconcl.append(f"{fname}: MIR body not found uniquely ({len(cands)})")
            continue
        fn = cands[0]
        aggs = [s for b in fn.blocks.values() for s in b.stmts if re.search(r"= CallInputs \{", s)]
        term, why = "unk", "CallInputs is not built in this function (moved into a helper?)"
        if len(aggs) > 1:
            inconcl.append(f"{fname}: {len(aggs)} CallInputs constructions")
            continue
        if len(aggs) == 1:
            m = re.search(r"is_static: ([^,}]+)", aggs[0])
            op = m.group(1).strip()
            why = op
            if op in ("const true", "const false"):
                term, why = op[6:], "literal " + op[6:]
            else:
                mm = re.match(r"^(?:move|copy) (_\d+)$", op)
                if mm:
                    ds = defs_of(fn, mm.group(1))
                    if len(ds) == 1 and re.match(r"^copy \(\(\*_1\)\.%d: bool\)$" % idx, ds[0]):
                        term, why = "parent", "interpreter.is_static"
                    else:
                        why = f"{ds}"
        want = "true" if forced else "parent"
        v, model, detail = duo.check(["(declare-const parent Bool)", "(declare-const unk Bool)"], [f"(not (= {term} {want}))"], want_model_of=("parent",))
        samples.append(f"{fname}: CallInputs.is_static = {why}; required {'true' if forced else 'the parent frame flag'} -> {v}")
        log(f"[e3] {samples[-1]}")
        if v == "unsat":
            continue
        if v != "sat":
            inconcl.append(f"{fname}: {detail}")
            continue
        desc = f"{fname}: the child frame's static flag is {why}, not {'true' if forced else 'inherited from the parent'}"
        # the solver's candidate parent value first; when the construction was not understood both values are candidates
        cand = ["true" in model] + ([not ("true" in model)] if term == "unk" else [])
        hit = None
        err = None
        for parent in cand:
            st, out = native.call("debug", "call_flag", fname, "true" if parent else "false", log=log)
            if st == "ok" and out.startswith("child_static="):
                child = out.split("=")[1] == "true"
                expect = True if forced else parent
                if child != expect:
                    hit = f"parent static={parent} -> child static={child}"
                    break
            else:
                err = f"{st} {out}"
        if hit:
            failures.append(dict(id=f"{fname}-static-flag", reproduced=True, description=desc + " | native: " + hit))
        elif err:
            inconcl.append(f"{fname}: native scenario failed: {err}")
        else:
            failures.append(dict(id=f"{fname}-static-flag", reproduced=False, description=desc + " | native: flag correct for every candidate parent value"))
    q, tm = duo.queries, duo.time
    duo.close()
    res = dict(queries=q, solver_s=tm, engine="mir aggregate/dataflow scan -> smtlib (z3 4.8.12 + cvc5 1.0)", bounds="; ".join(samples),
               detail="the is_static field of the CallInputs built by each call-family opcode")
    if any(f.get("reproduced") for f in failures):
        res.update(status="fail", failures=[f for f in failures if f.get("reproduced")], reason=failures[0]["description"][:300])
    elif inconcl:
        res.update(status="inconclusive", reason="; ".join(inconcl)[:500])
    elif failures:
        res.update(status="fail", failures=failures, reason=failures[0]["description"][:300])
    else:
        res.update(status="pass")
    return res


# ------------------------------------------------------------------------------------------------ C09 (EIP-7623 floor step)
def run_floor_step(tier, log, seed):
    """The floor step of Evm::transact_preverified_inner, read off MIR and compared by SMT with used' = max(spent - refund, floor)."""
    text = mir.dump("revm", log)
    funcs = mir.parse_functions(text)
    cands = [f for n, fl in funcs.items() for f in fl if n.endswith("::transact_preverified_inner")]
    duo = smt.Duo(timeout_s=30)
    res = dict(queries=0, solver_s=0.0, engine="mir structure scan -> smtlib (z3 4.8.12 + cvc5 1.0)")
    if len(cands) != 1:
        duo.close()
        res.update(status="inconclusive", reason=f"transact_preverified_inner: {len(cands)} MIR bodies")
        return res
    fn = cands[0]
    floor_re = r"copy \(_2\.1: u64\)"   # InitialAndFloorGas.floor_gas of the parameter
    site = None
    quantity = "used"
    for b in fn.blocks.values():
        mm = re.match(r"^(_\d+) = Gas::(spent_sub_refunded|spent)\(", b.term or "")
        if mm:
            nxt = [s for l, s in mir.successors(b.term) if l == "return"]
            # the call that feeds the floor comparison is followed by a comparison with the floor field
            if nxt and any(re.search(r"= (Lt|Le|Gt|Ge)\(", s_) for s_ in fn.blocks[nxt[0]].stmts) and any(re.search(floor_re, s_) for s_ in fn.blocks[nxt[0]].stmts):
                site = (mm.group(1), nxt[0])
                quantity = "used" if mm.group(2) == "spent_sub_refunded" else "spent"
    if not site:
        duo.close()
        res.update(status="inconclusive", reason="no Gas::spent_sub_refunded / Gas::spent call feeding a comparison with floor_gas in transact_preverified_inner")
        return res
    d, bbc = site
    blk = fn.blocks[bbc]
    cmp_ = None
    for s in blk.stmts:
        m = re.match(r"^(_\d+) = (Lt|Le|Gt|Ge)\((?:move|copy) (_\d+), (?:move|copy) (_\d+)\)$", s)
        if m:
            cmp_ = m.groups()
    sw = re.match(r"^switchInt\(move (_\d+)\) -> \[0: (bb\d+), otherwise: (bb\d+)\]$", blk.term or "")
    if not cmp_ or not sw or sw.group(1) != cmp_[0]:
        duo.close()
        res.update(status="inconclusive", reason="floor comparison not found right after spent_sub_refunded")
        return res

    def sym(local):
        if local == d:
            return quantity
        ds = [s for s in blk.stmts if s.startswith(local + " = ")]
        if len(ds) == 1 and re.search(floor_re, ds[0]):
            return "floor"
        return "unk"
    a, b_ = sym(cmp_[2]), sym(cmp_[3])
    opm = {"Lt": "<", "Le": "<=", "Gt": ">", "Ge": ">="}[cmp_[1]]
    cond = f"({opm} {a} {b_})"
    # then-branch: follow the straight-line chain and collect set_spent / set_refund arguments
    set_spent = set_refund = None
    cur = sw.group(3)
    for _ in range(8):
        bb = fn.blocks[cur]
        t = bb.term or ""
        m = re.match(r"^_\d+ = Gas::set_spent\((?:move|copy) _\d+, (.+?)\) -> \[return: (bb\d+)", t)
        if m:
            arg = m.group(1)
            mm = re.match(r"^(?:move|copy) (_\d+)$", arg)
            ds = [s for s in bb.stmts if mm and s.startswith(mm.group(1) + " = ")]
            set_spent = "floor" if (ds and re.search(floor_re, ds[0])) or re.search(floor_re, arg) else "unk"
        m2 = re.match(r"^_\d+ = Gas::set_refund\((?:move|copy) _\d+, (.+?)\) -> \[return: (bb\d+)", t)
        if m2:
            set_refund = "0" if m2.group(1) == "const 0_i64" else "unk"
        nx = [s for l, s in mir.successors(t) if l in ("return", "goto")]
        if not nx or nx[0] == sw.group(2):
            break
        cur = nx[0]
    # model: used' = if cond { set_spent(X) ; refund := R ; min(X, limit) - R } else { used }
    decls = ["(declare-const used Int)", "(declare-const spent Int)", "(declare-const floor Int)", "(declare-const limit Int)", "(declare-const unk Int)"]
    # used = spent - refund with 0 <= refund <= spent/2
    pre = ["(<= 0 used)", "(<= used spent)", "(<= spent (* 2 used))", "(<= spent limit)", "(<= 0 floor)", "(<= floor limit)", "(<= limit 18446744073709551615)"]
    if set_spent is None or set_refund is None:
        then_used = "unk"
    else:
        sp = "floor" if set_spent == "floor" else "unk"
        rf = "0" if set_refund == "0" else "unk"
        then_used = f"(- (ite (<= {sp} limit) {sp} limit) {rf})"
    after = f"(ite {cond} {then_used} used)"
    want = "(ite (< used floor) floor used)"
    v, model, detail = duo.check(decls, pre + [f"(not (= {after} {want}))"], want_model_of=("used", "spent", "floor", "limit"))
    res.update(queries=duo.queries, solver_s=duo.time,
               bounds=f"floor step read from MIR: if {cmp_[1]}({a}, {b_}) then set_spent({set_spent}); set_refund({set_refund}) -> {v}",
               detail="all 0 <= used <= limit, 0 <= floor <= limit <= u64::MAX; Gas::set_spent / set_refund / spent_sub_refunded semantics are those decided in C13")
    duo.close()
    if v == "unsat":
        res.update(status="pass")
    elif v == "sat":
        # replay: a Prague transaction with much calldata and a storage-clearing refund (spent >= floor > spent - refund)
        st, out = native.call("debug", "floor_gas_used", log=log)
        m = re.search(r"gas_used=(\d+) floor=(\d+)", out) if st == "ok" else None
        desc = f"EIP-7623 floor step of transact_preverified_inner is not max(spent - refund, floor): {res['bounds']}; model {model}"
        if m and int(m.group(1)) < int(m.group(2)):
            res.update(status="fail", failures=[dict(id="floor-step", reproduced=True, description=desc + f" | native: {out}")], reason=desc[:300])
        elif m:
            res.update(status="fail", failures=[dict(id="floor-step", reproduced=False, description=desc + f" | native scenario respects the floor: {out}")], reason=desc[:300])
        else:
            res.update(status="inconclusive", reason=f"native scenario failed: {st} {out}")
    else:
        res.update(status="inconclusive", reason=str(detail))
    return res


# ------------------------------------------------------------------------------------------------ generic path search
def path_search(fn, duo, delta, edge_delta, tag, violation, want=(), edge_tag=None):
    """Encode all entry->return paths of an acyclic CFG with an integer cell `c` (sum of block/edge deltas, symbolic terms allowed)
    and a tag cell `k` (last non-None tag on the path). `violation(cout_term, kout_term, block)` gives the Bool to satisfy at a return."""
    blocks = normal_blocks(fn)
    es = edges(fn, blocks)
    if has_cycle(blocks, es):
        return "inconclusive", {"reason": "CFG has a cycle"}
    decls, asserts = [], []
    for b in blocks:
        decls += [f"(declare-const on_{b} Bool)", f"(declare-const cin_{b} Int)", f"(declare-const kin_{b} Int)"]
    decls += list(want)
    evar = {e: f"e{i}" for i, e in enumerate(es)}
    decls += [f"(declare-const {v} Bool)" for v in evar.values()]
    asserts += ["on_bb0", "(= cin_bb0 0)", "(= kin_bb0 0)"]
    outs = {b: [e for e in es if e[0] == b] for b in blocks}
    ins = {b: [e for e in es if e[2] == b] for b in blocks}

    def one(vs):
        if not vs:
            return "false"
        if len(vs) == 1:
            return vs[0]
        return "(and (or " + " ".join(vs) + ") " + " ".join(f"(not (and {vs[i]} {vs[j]}))" for i in range(len(vs)) for j in range(i + 1, len(vs))) + ")"
    returns = [b for b in blocks if fn.blocks[b].term == "return"]

    def cout(b):
        d = delta.get(b, "0")
        return f"(+ cin_{b} {d})"

    def kout(b):
        return str(tag[b]) if tag.get(b) is not None else f"kin_{b}"
    for b in blocks:
        o = [evar[e] for e in outs[b]]
        if o:
            asserts.append(f"(=> on_{b} {one(o)})")
            asserts.append(f"(=> (not on_{b}) (not (or {' '.join(o)} false)))")
        for e in outs[b]:
            et = (edge_tag or {}).get(e)
            asserts.append(f"(=> {evar[e]} (and on_{e[2]} (= cin_{e[2]} (+ {cout(b)} {edge_delta.get(e, '0')})) (= kin_{e[2]} {et if et is not None else kout(b)})))")
        if b != "bb0":
            asserts.append(f"(=> on_{b} {one([evar[e] for e in ins[b]])})")
    asserts.append(one([f"on_{b}" for b in returns]))
    asserts.append("(or " + " ".join(f"(and on_{b} {violation(cout(b), kout(b), b)})" for b in returns) + ")")
    v, model, detail = duo.check(decls, asserts, want_model_of=[f"on_{b}" for b in blocks])
    info = {"blocks": len(blocks), "edges": len(es), "returns": len(returns), "solver": detail}
    if v == "sat":
        info["path"] = sorted([b for b in blocks if re.search(r"\(on_%s true\)" % b, model)], key=lambda x: int(x[2:]))
    return v, info


# ------------------------------------------------------------------------------------------------ C08 (transfer conserves ether on every outcome)
def run_transfer_conservation(tier, log, seed):
    text = mir.dump("revm", log)
    funcs = mir.parse_functions(text)
    cands = [f for n, fl in funcs.items() for f in fl if re.search(r"journaled_state::<impl at [^>]*>::transfer$", n)]
    duo = smt.Duo(timeout_s=30)
    res = dict(queries=0, solver_s=0.0, engine="mir-cfg -> smtlib path search (z3 4.8.12 + cvc5 1.0)")
    if len(cands) != 1:
        duo.close()
        res.update(status="inconclusive", reason=f"JournaledState::transfer: {len(cands)} MIR bodies")
        return res
    fn = cands[0]
    # classify every store through a `&mut U256` that points into an account's balance by where the stored value comes from:
    # checked_sub(.., amount) payload -> the account loses `amount` (-1); checked_add / saturating_add / wrapping_add / `+` -> it gains it (+1)
    amount_local = None
    for a, ty in fn.args:
        if "Uint<256, 4>" in ty or "U256" in ty:
            amount_local = a
    delta, tag, unknown = {}, {}, []
    KIND = {"OutOfFunds": 1, "OverflowPayment": 2}

    def origin(local, depth=0):
        ds = defs_of(fn, local)
        if len(ds) != 1 or depth > 6:
            return None
        d = ds[0]
        m = re.match(r"^(?:move|copy) \(\((_\d+) as Some\)\.0: .*\)$", d) or re.match(r"^(?:move|copy) (_\d+)$", d)
        if m:
            return origin(m.group(1), depth + 1)
        m = re.match(r"^ruint::add::<impl Uint<256, 4>>::(checked_sub|checked_add|saturating_add|wrapping_add|saturating_sub|wrapping_sub)\((?:move|copy) _\d+, (?:move|copy) (_\d+)\)", d)
        if m and m.group(2) == amount_local:
            return -1 if "sub" in m.group(1) else +1
        m = re.match(r"^<Uint<256, 4> as (Add|Sub)>::(add|sub)\((?:move|copy) _\d+, (?:move|copy) (_\d+)\)", d)
        if m and m.group(3) == amount_local:
            return +1 if m.group(1) == "Add" else -1
        return None
    n_writes = 0
    for b in fn.blocks.values():
        tot, sym = 0, []
        for s in b.stmts + [b.term or ""]:
            m = re.match(r"^\(\*(_\d+)\) = (?:move|copy) (_\d+)$", s)
            if m and "Uint<256, 4>" in fn.locals.get(m.group(1), ""):
                o = origin(m.group(2))
                n_writes += 1
                if o is None:
                    sym.append(f"w_{b.name}")
                    unknown.append(b.name)
                else:
                    tot += o
            m = re.match(r"^_\d+ = <Uint<256, 4> as (AddAssign|SubAssign)>::(add_assign|sub_assign)\((?:move|copy) _\d+, (?:move|copy) (_\d+)\)", s)
            if m:
                n_writes += 1
                if m.group(3) == amount_local:
                    tot += 1 if m.group(1) == "AddAssign" else -1
                else:
                    sym.append(f"w_{b.name}")
                    unknown.append(b.name)
            mm = re.search(r"InstructionResult::(OutOfFunds|OverflowPayment)", s)
            if mm:
                tag[b.name] = KIND[mm.group(1)]
        if tot or sym:
            parts = [str(tot) if tot >= 0 else f"(- {-tot})"] + sym
            delta[b.name] = parts[0] if len(parts) == 1 else "(+ " + " ".join(parts) + ")"
        if "from_residual" in (b.term or ""):
            tag[b.name] = 9  # database error: whole transaction aborts, not constrained
    want = [f"(declare-const w_{b} Int)" for b in set(unknown)]
    v, info = path_search(fn, duo, delta, {}, tag, lambda c, k, b: f"(and (not (= {k} 9)) (not (= {c} 0)))", want)
    res.update(queries=duo.queries, solver_s=duo.time,
               bounds=f"JournaledState::transfer: {info.get('blocks')} blocks, {info.get('returns')} return(s), {n_writes} balance store(s) "
                      f"({len(unknown)} of unknown origin): every non-error return must have debits == credits: {v}",
               detail="a store of a checked_sub(.., amount) payload counts -1, of a checked_add/saturating_add/+= amount +1; a store of unknown origin is a free integer")
    duo.close()
    if v == "unsat":
        res.update(status="pass")
        return res
    if v != "sat":
        res.update(status="inconclusive", reason=str(info))
        return res
    kinds = [k for b, k in tag.items() if b in info["path"] and k in (1, 2)]
    key = {1: "OutOfFunds", 2: "OverflowPayment"}.get(kinds[-1] if kinds else 0, "ok")
    st, out = native.call("debug", "transfer_sum", key, log=log)
    desc = f"JournaledState::transfer: a path returning {key} leaves debits != credits (path {'>'.join(info['path'][-6:])})"
    m = re.match(r"result=(\w+) from_before=(\d+) from_after=(\d+) to_before=(\w+) to_after=(\w+)", out) if st == "ok" else None
    if m:
        lost = (m.group(2) != m.group(3)) and m.group(4) == m.group(5)
        res.update(status="fail", failures=[dict(id=f"transfer-{key}", reproduced=bool(lost), description=desc + f" | native: {out}")], reason=desc)
    else:
        res.update(status="inconclusive", reason=f"native scenario failed: {st} {out}")
    return res


# ------------------------------------------------------------------------------------------------ C31 (clear on every exit)
DIRTY_RE = r"transact_preverified_inner|preverify_transaction_inner|PostExecutionHandler::.*::end$|ValidationHandler::.*::(env|initial_tx_gas|tx_against_state)$"


def run_clear_on_exit(tier, log, seed):
    """Every exit of Evm::transact / transact_preverified / preverify_transaction - normal or error - is reached with the journal
    cleared after the last call that can touch the context."""
    text = mir.dump("revm", log)
    funcs = mir.parse_functions(text)
    duo = smt.Duo(timeout_s=30)
    failures, inconcl, samples = [], [], []
    DIRTY, CLEAN = 1, 2
    for fname in ("transact", "transact_preverified", "preverify_transaction"):
        cands = [f for n, fl in funcs.items() for f in fl if re.search(r"^evm::<impl at [^>]*>::%s$" % fname, n)]
        if len(cands) != 1:
            inconcl.append(f"{fname}: {len(cands)} MIR bodies")
            continue
        fn = cands[0]
        tag, edge_tag = {}, {}
        clearing_closures = {}
        for b in fn.blocks.values():
            c = callee_of(b.term or "")
            if not c:
                continue
            dest, callee, args, raw = c
            if re.search(r"Evm::clear$", callee) or re.search(r"Evm::<.*>::clear$", raw):
                tag[b.name] = CLEAN
            elif re.search(DIRTY_RE, callee) or re.search(DIRTY_RE, raw):
                tag[b.name] = DIRTY
            m = re.search(r"inspect_err::<\{closure@([^}]*)\}>", raw)
            if m:
                # the closure must clear on every path
                cl = [f for n, fl in funcs.items() for f in fl if n.startswith(fn.name + "::{closure#") and m.group(1) in f.sig]
                if len(cl) != 1:
                    inconcl.append(f"{fname}: closure of inspect_err not found")
                    continue
                ctag = {}
                for cb in cl[0].blocks.values():
                    cc = callee_of(cb.term or "")
                    if cc and (re.search(r"Evm::clear$", cc[1]) or re.search(r"Evm::<.*>::clear$", cc[3])):
                        ctag[cb.name] = CLEAN
                v, info = path_search(cl[0], duo, {}, {}, ctag, lambda c_, k, b_: f"(not (= {k} {CLEAN}))")
                clearing_closures[dest.strip()] = (v == "unsat")
                samples.append(f"{fname}: error hook {cl[0].name.split('::')[-1]} clears on every path: {v}")
                if v not in ("sat", "unsat"):
                    inconcl.append(f"{fname} closure: {info}")
        # the Err edge of the `?` that follows an inspect_err whose closure always clears arrives cleared
        for b in fn.blocks.values():
            m = re.match(r"^switchInt\(move (_\d+)\)", b.term or "")
            if not m:
                continue
            disc = [s_ for s_ in b.stmts if re.match(r"^%s = discriminant\((_\d+)\)$" % re.escape(m.group(1)), s_)]
            if not disc:
                continue
            x = re.search(r"discriminant\((_\d+)\)", disc[0]).group(1)
            dx = defs_of(fn, x)
            if len(dx) == 1:
                mm = re.match(r"^<.* as Try>::branch\(move (_\d+)\)", dx[0])
                if mm and clearing_closures.get(mm.group(1)):
                    for lab, s_ in mir.successors(b.term):
                        if lab == "1":
                            edge_tag[(b.name, lab, s_)] = CLEAN
        v, info = path_search(fn, duo, {}, {}, tag, lambda c_, k, b_: f"(= {k} {DIRTY})", edge_tag=edge_tag)
        samples.append(f"{fname}: {info.get('blocks')} blocks, {info.get('returns')} return(s): an exit whose last context-touching call is not followed by clear(): {v}")
        log(f"[e3] {samples[-1]}")
        if v == "unsat":
            continue
        if v != "sat":
            inconcl.append(f"{fname}: {info}")
            continue
        st, out = native.call("debug", "evm_leak", fname, log=log)
        desc = f"Evm::{fname}: an exit path is not followed by clear() (path {'>'.join(info['path'][-6:])})"
        m = re.match(r"journal_accounts_after=(\d+)", out) if st == "ok" else None
        if m:
            failures.append(dict(id=f"{fname}-no-clear", reproduced=int(m.group(1)) > 0, description=desc + f" | native: {out}"))
        else:
            inconcl.append(f"{fname}: native scenario failed: {st} {out}")
    # ---- what the reset does: JournaledState::clear must replace the WHOLE state by a freshly built one (every path)
    cands = [f for n, fl in funcs.items() for f in fl if re.search(r"^journaled_state::<impl at [^>]*>::clear$", n)]
    if len(cands) != 1:
        inconcl.append(f"JournaledState::clear: {len(cands)} MIR bodies")
    else:
        fn = cands[0]
        tag = {}
        for b in fn.blocks.values():
            for s_ in b.stmts:
                m = re.match(r"^\(\*_1\) = move (_\d+)$", s_)
                if m:
                    ds = defs_of(fn, m.group(1))
                    if len(ds) == 1 and re.match(r"^JournaledState::new\(", ds[0]) and "HashSet<Address> as Default>::default" in fn.text:
                        tag[b.name] = CLEAN
        v, info = path_search(fn, duo, {}, {}, tag, lambda c_, k, b_: f"(not (= {k} {CLEAN}))")
        samples.append(f"JournaledState::clear: every path overwrites *self with JournaledState::new(spec, empty warm set): {v}")
        log(f"[e3] {samples[-1]}")
        if v == "sat":
            st, out = native.call("debug", "journal_clear_leak", log=log)
            desc = "JournaledState::clear does not rebuild the whole state (a path leaves fields of the previous transaction in place)"
            m = re.search(r"leaked=(\d+)", out) if st == "ok" else None
            if m:
                failures.append(dict(id="journal-clear-partial", reproduced=int(m.group(1)) > 0, description=desc + f" | native: {out}"))
            else:
                inconcl.append(f"JournaledState::clear: native scenario failed: {st} {out}")
        elif v != "unsat":
            inconcl.append(f"JournaledState::clear: {info}")
    q, tm = duo.queries, duo.time
    duo.close()
    res = dict(queries=q, solver_s=tm, engine="mir-cfg -> smtlib path search (z3 4.8.12 + cvc5 1.0)", bounds="; ".join(samples),
               detail="context-touching calls: validation env/initial_tx_gas/tx_against_state, preverify_transaction_inner, transact_preverified_inner, post_execution().end")
    if any(f.get("reproduced") for f in failures):  # a replayed violation is reported whatever else stayed undecided
        res.update(status="fail", failures=failures, reason=failures[0]["description"][:300])
    elif inconcl:
        res.update(status="inconclusive", reason="; ".join(map(str, inconcl))[:500])
    elif failures:
        res.update(status="fail", failures=failures, reason=failures[0]["description"][:300])
    else:
        res.update(status="pass")
    return res


# ------------------------------------------------------------------------------------------------ C29 (inspector input stacks)
INSPECTOR_HANDLES = [  # (handler field, expected net effect on the input stacks on every returning path)
    ("create", +1), ("call", +1), ("eofcreate", +1),
    ("insert_eofcreate_outcome", -1), ("insert_call_outcome", -1), ("insert_create_outcome", -1), ("last_frame_return", -1),
]


def run_inspector_balance(tier, log, seed):
    """Every frame closure installed by inspector_handle_register pushes exactly one entry on its input stack on every returning path
    (also when the inspector short-circuits the call), every insert_*_outcome closure and last_frame_return pops exactly one."""
    text = mir.dump("revm", log)
    funcs = mir.parse_functions(text)
    src = open("/repo/crates/revm/src/inspector/handler_register.rs").read().split("\n")
    duo = smt.Duo(timeout_s=30)
    failures, inconcl, samples = [], [], []
    rel = "crates/revm/src/inspector/handler_register.rs"
    for field, expect in INSPECTOR_HANDLES:
        ln = [i for i, l in enumerate(src) if re.search(r"handler\.execution\.%s\s*=" % field, l)]
        if len(ln) != 1:
            inconcl.append(f"{field}: assignment not found exactly once in handler_register.rs")
            continue
        cl_line = None
        for j in range(ln[0], min(ln[0] + 6, len(src))):
            if "move |" in src[j]:
                cl_line = j + 1
                break
        if cl_line is None:
            inconcl.append(f"{field}: closure literal not found after the assignment")
            continue
        cands = [f for n, fl in funcs.items() for f in fl if "inspector_handle_register::{closure#" in n and f"{{closure@{rel}:{cl_line}:" in f.sig]
        if len(cands) != 1:
            inconcl.append(f"{field}: {len(cands)} MIR closures at line {cl_line}")
            continue
        fn = cands[0]
        delta = {}
        for b in fn.blocks.values():
            c = callee_of(b.term or "")
            if not c:
                continue
            if re.search(r"^Vec::<Box<(CallInputs|CreateInputs|EOFCreateInputs)>>::push$", c[3].split("(")[0]):
                delta[b.name] = "1"
            elif re.search(r"^Vec::<Box<(CallInputs|CreateInputs|EOFCreateInputs)>>::pop$", c[3].split("(")[0]):
                delta[b.name] = "(- 1)"
        ev = str(expect) if expect >= 0 else f"(- {-expect})"
        v, info = path_search(fn, duo, delta, {}, {}, lambda c_, k, b_: f"(not (= {c_} {ev}))")
        samples.append(f"{field}: closure at line {cl_line}, {info.get('blocks')} blocks, {len(delta)} push/pop site(s), every returning path has net {expect:+d}: {v}")
        log(f"[e3] {samples[-1]}")
        if v == "unsat":
            continue
        if v != "sat":
            inconcl.append(f"{field}: {info}")
            continue
        st, out = native.call("debug", "inspector_balance", log=log)
        desc = f"inspector {field} closure: a returning path pushes/pops its input stack a net number of times other than {expect:+d} (path {'>'.join(info['path'][-6:])})"
        if st == "ok":
            bad = "UNBALANCED" in out
            failures.append(dict(id=f"inspector-{field}", reproduced=bad, description=desc + f" | native: {out}"))
        else:
            # e.g. `pop().unwrap()` on an empty stack panics inside the native scenario: that is the imbalance showing
            failures.append(dict(id=f"inspector-{field}", reproduced=(st == "panic"), description=desc + f" | native: {st} {out}"))
    # ---- the stack that last_frame_return / insert_*_outcome pop is selected by the VARIANT of the returned FrameResult: every result or
    # frame built by make_<kind>_frame (directly, in its closures, or in a helper it calls) must be of that kind
    for fname, kind in (("make_call_frame", "call"), ("make_create_frame", "create"), ("make_eofcreate_frame", "eofcreate")):
        roots = [f for n, fl in funcs.items() for f in fl if n.endswith("::" + fname) or ("::" + fname + "::{closure#") in n]
        if not roots:
            inconcl.append(f"{fname}: MIR not found")
            continue
        seen_ctor, helpers = set(), set()
        # functions of this crate (by last path segment) that hand back a FrameOrResult: a frame function may delegate to them
        fr_helpers = {}
        for n, fl in funcs.items():
            for f in fl:
                if "FrameOrResult" in (f.ret or "") and "make_" not in n and "{closure" not in n and "FrameOrResult::" not in n and "FrameOrResult>::" not in n:
                    fr_helpers.setdefault(n.split("::")[-1], []).append(f)
        work, done = list(roots), set()
        while work:
            f = work.pop()
            if id(f) in done:
                continue
            done.add(id(f))
            for b in f.blocks.values():
                c = callee_of(b.term or "")
                if not c:
                    continue
                m = re.search(r"FrameOrResult::new_(\w+?)_(result|frame)$", c[1])
                if m:
                    seen_ctor.add(m.group(1))
                    continue
                last = c[1].split("::")[-1]
                if last in fr_helpers and "make_" not in last:
                    helpers.add(last)
                    work.extend(fr_helpers[last])
            # variants written out by hand: FrameOrResult::Result(FrameResult::<Kind>(..)) / Frame::<Kind>(..)
            for m in re.finditer(r"FrameResult::(Call|Create|EOFCreate)\(|Frame::(Call|Create|EOFCreate)\(", f.text):
                seen_ctor.add((m.group(1) or m.group(2)).lower())
        wrong = sorted(k for k in seen_ctor if k != kind)
        term = "false" if wrong else "true"
        v, model, detail = duo.check(["(declare-const x Bool)"], [f"(not {term})"])
        samples.append(f"{fname}: FrameOrResult constructors reachable: {sorted(seen_ctor)} (must all be `{kind}`): {v}")
        log(f"[e3] {samples[-1]}")
        if v == "sat":
            st, out = native.call("debug", "inspector_balance", log=log)
            desc = f"{fname} builds a FrameOrResult of kind {wrong}: the inspector pops the wrong input stack for it"
            failures.append(dict(id=f"framekind-{fname}", reproduced=(st == "panic" or "UNBALANCED" in out), description=desc + f" | native: {st} {out[:300]}"))
        elif v != "unsat":
            inconcl.append(f"{fname}: {detail}")
    q, tm = duo.queries, duo.time
    duo.close()
    res = dict(queries=q, solver_s=tm, engine="mir-cfg -> smtlib path search (z3 4.8.12 + cvc5 1.0)", bounds="; ".join(samples),
               detail="push/pop sites: Vec::<Box<CallInputs|CreateInputs|EOFCreateInputs>>::{push,pop}; unwind edges (pop().unwrap() on an empty stack) excluded")
    if any(f.get("reproduced") for f in failures):  # a replayed violation is reported whatever else stayed undecided
        res.update(status="fail", failures=failures, reason=failures[0]["description"][:300])
    elif inconcl:
        res.update(status="inconclusive", reason="; ".join(map(str, inconcl))[:500])
    elif failures:
        res.update(status="fail", failures=failures, reason=failures[0]["description"][:300])
    else:
        res.update(status="pass")
    return res


# ------------------------------------------------------------------------------------------------ multi-cell path search
def path_search2(fn, duo, cells, delta, violation, edge_cond=None, consts=()):
    """Like path_search, with several integer cells (`delta[block] = {cell: term}`) and optional Boolean conditions on edges
    (`edge_cond[(src, label, dst)] = term` over the declared `consts`): lets two branches on the same comparison be correlated."""
    blocks = normal_blocks(fn)
    es = edges(fn, blocks)
    if has_cycle(blocks, es):
        return "inconclusive", {"reason": "CFG has a cycle"}
    decls = [f"(declare-const on_{b} Bool)" for b in blocks]
    for c in cells:
        decls += [f"(declare-const {c}_{b} Int)" for b in blocks]
    decls += list(consts)
    evar = {e: f"e{i}" for i, e in enumerate(es)}
    decls += [f"(declare-const {v} Bool)" for v in evar.values()]
    asserts = ["on_bb0"] + [f"(= {c}_bb0 0)" for c in cells]
    outs = {b: [e for e in es if e[0] == b] for b in blocks}
    ins = {b: [e for e in es if e[2] == b] for b in blocks}

    def one(vs):
        if not vs:
            return "false"
        if len(vs) == 1:
            return vs[0]
        return "(and (or " + " ".join(vs) + ") " + " ".join(f"(not (and {vs[i]} {vs[j]}))" for i in range(len(vs)) for j in range(i + 1, len(vs))) + ")"

    def out(c, b):
        d = delta.get(b, {}).get(c)
        return f"(+ {c}_{b} {d})" if d else f"{c}_{b}"
    returns = [b for b in blocks if fn.blocks[b].term == "return"]
    for b in blocks:
        o = [evar[e] for e in outs[b]]
        if o:
            asserts.append(f"(=> on_{b} {one(o)})")
            asserts.append(f"(=> (not on_{b}) (not (or {' '.join(o)} false)))")
        for e in outs[b]:
            eqs = " ".join(f"(= {c}_{e[2]} {out(c, b)})" for c in cells)
            cond = (edge_cond or {}).get(e)
            asserts.append(f"(=> {evar[e]} (and on_{e[2]} {eqs}{' ' + cond if cond else ''}))")
        if b != "bb0":
            asserts.append(f"(=> on_{b} {one([evar[e] for e in ins[b]])})")
    asserts.append(one([f"on_{b}" for b in returns]))
    asserts.append("(or " + " ".join(f"(and on_{b} {violation({c: out(c, b) for c in cells}, b)})" for b in returns) + ")")
    v, model, detail = duo.check(decls, asserts, want_model_of=[f"on_{b}" for b in blocks])
    info = {"blocks": len(blocks), "edges": len(es), "returns": len(returns), "solver": detail}
    if v == "sat":
        info["path"] = sorted([b for b in blocks if re.search(r"\(on_%s true\)" % b, model)], key=lambda x: int(x[2:]))
    return v, info


def is_err_return_block(fn, b):
    c = callee_of(fn.blocks[b].term or "")
    return bool(c and "from_residual" in c[3])


def run_value_moves(tier, log, seed):
    """C08 beyond `transfer`: (1) JournaledState::selfdestruct: on every path on which the destroyed account's balance is zeroed and the
    beneficiary is a different address, the balance was credited to the beneficiary; (2) reimburse_caller credits the caller on every
    non-error path."""
    text = mir.dump("revm", log)
    funcs = mir.parse_functions(text)
    duo = smt.Duo(timeout_s=30)
    failures, inconcl, samples = [], [], []
    # ---- (1) selfdestruct
    cands = [f for n, fl in funcs.items() for f in fl if re.search(r"journaled_state::<impl at [^>]*>::selfdestruct$", n)]
    if len(cands) != 1:
        inconcl.append(f"selfdestruct: {len(cands)} MIR bodies")
    else:
        fn = cands[0]
        delta, edge_cond, errtag = {}, {}, {}
        n_ne = 0
        for b in fn.blocks.values():
            d = {}
            for s in b.stmts:
                if re.match(r"^\(\(\(\*_\d+\)\.0: .*AccountInfo\)\.0: ruint::Uint<256, 4>\) = const ruint::Uint::<256, 4>::ZERO$", s):
                    d["zeroed"] = "1"
            c = callee_of(b.term or "")
            if c and re.search(r"<Uint<256, 4> as AddAssign>::add_assign$", c[1]):
                d["credit"] = "1"
            if "from_residual" in (b.term or ""):
                d["err"] = "1"
            if d:
                delta[b.name] = d
            # branches on `address != target` (the same two operands every time: they are parameters that are never written)
            if c and re.search(r"<Address as PartialEq>::(ne|eq)$", c[1]):
                dest = c[0].strip()
                nxt = [s_ for l_, s_ in mir.successors(b.term) if l_ == "return"]
                if nxt:
                    sw = re.match(r"^switchInt\(move (_\d+)\) -> \[0: (bb\d+), otherwise: (bb\d+)\]$", fn.blocks[nxt[0]].term or "")
                    if sw and sw.group(1) == dest:
                        is_ne = c[1].endswith("::ne")
                        edge_cond[(nxt[0], "0", sw.group(2))] = "(not differs)" if is_ne else "differs"
                        edge_cond[(nxt[0], "otherwise", sw.group(3))] = "differs" if is_ne else "(not differs)"
                        n_ne += 1
        if n_ne == 0:
            inconcl.append("selfdestruct: no branch on address != target found")
        else:
            v, info = path_search2(fn, duo, ["zeroed", "credit", "err"], delta,
                                   lambda o, b: f"(and (= {o['err']} 0) (>= {o['zeroed']} 1) differs (= {o['credit']} 0))",
                                   edge_cond=edge_cond, consts=["(declare-const differs Bool)"])
            samples.append(f"selfdestruct: {info.get('blocks')} blocks, {n_ne} branch(es) on address != target correlated: balance zeroed with a different beneficiary but never credited: {v}")
            log(f"[e3] {samples[-1]}")
            if v == "sat":
                st, out = native.call("debug", "selfdestruct_sum", log=log)
                desc = f"JournaledState::selfdestruct: a path zeroes the account's balance with beneficiary != account without crediting the beneficiary (path {'>'.join(info['path'][-6:])})"
                m = re.search(r"total_before=(\d+) total_after=(\d+)", out) if st == "ok" else None
                if m:
                    failures.append(dict(id="selfdestruct-no-credit", reproduced=m.group(1) != m.group(2), description=desc + f" | native: {out}"))
                else:
                    inconcl.append(f"selfdestruct: native scenario failed: {st} {out}")
            elif v != "unsat":
                inconcl.append(f"selfdestruct: {info}")
    # ---- (2) reimburse_caller
    cands = [f for n, fl in funcs.items() for f in fl if n.endswith("post_execution::reimburse_caller") or n == "reimburse_caller"]
    cands = [f for f in cands if "Gas" in f.sig]
    if len(cands) != 1:
        inconcl.append(f"reimburse_caller: {len(cands)} MIR bodies")
    else:
        fn = cands[0]
        delta = {}
        for b in fn.blocks.values():
            d = {}
            for s in b.stmts:
                if re.match(r"^\(\(.*AccountInfo\)\.0: ruint::Uint<256, 4>\) = (move|copy) _\d+$", s):
                    d["credit"] = "1"
            if "from_residual" in (b.term or ""):
                d["err"] = "1"
            if d:
                delta[b.name] = d
        v, info = path_search2(fn, duo, ["credit", "err"], delta, lambda o, b: f"(and (= {o['err']} 0) (not (= {o['credit']} 1)))")
        samples.append(f"reimburse_caller: {info.get('blocks')} blocks, {sum(1 for d in delta.values() if 'credit' in d)} balance store(s): a non-error return without exactly one credit of the caller: {v}")
        log(f"[e3] {samples[-1]}")
        if v == "sat":
            st, out = native.call("debug", "reimburse_exact_gas", log=log)
            desc = f"reimburse_caller: a non-error path returns without crediting the caller (path {'>'.join(info['path'][-6:])})"
            m = re.search(r"lost=(\d+)", out) if st == "ok" else None
            if m:
                failures.append(dict(id="reimburse-no-credit", reproduced=int(m.group(1)) > 0, description=desc + f" | native: {out}"))
            else:
                inconcl.append(f"reimburse_caller: native scenario failed: {st} {out}")
        elif v != "unsat":
            inconcl.append(f"reimburse_caller: {info}")
    q, tm = duo.queries, duo.time
    duo.close()
    res = dict(queries=q, solver_s=tm, engine="mir-cfg -> smtlib path search (z3 4.8.12 + cvc5 1.0)", bounds="; ".join(samples),
               detail="branches on `address != target` share one Boolean; zeroing = store of Uint::ZERO into an AccountInfo balance; credit = AddAssign on a U256 / store into a balance")
    if any(f.get("reproduced") for f in failures):  # a replayed violation is reported whatever else stayed undecided
        res.update(status="fail", failures=failures, reason=failures[0]["description"][:300])
    elif inconcl:
        res.update(status="inconclusive", reason="; ".join(map(str, inconcl))[:500])
    elif failures:
        res.update(status="fail", failures=failures, reason=failures[0]["description"][:300])
    else:
        res.update(status="pass")
    return res


# ------------------------------------------------------------------------------------------------ C09 (which price reaches the fee payments)
def run_fee_prices(tier, log, seed):
    """reward_beneficiary: every definition of the per-gas price the beneficiary is paid is `effective_gas_price` itself or
    `effective_gas_price.saturating_sub(basefee)`, and the credited amount is price x gas; reimburse_caller multiplies
    `effective_gas_price`. (Whether London selects the right one of the two is a compile-time `SPEC::enabled(LONDON)` branch.)"""
    text = mir.dump("revm", log)
    funcs = mir.parse_functions(text)
    duo = smt.Duo(timeout_s=30)
    failures, inconcl, samples = [], [], []

    def body(name):
        c = [f for n, fl in funcs.items() for f in fl if (n == name or n.endswith("post_execution::" + name)) and "Gas" in f.sig and "PostExecutionHandler" not in f.sig]
        return c[0] if len(c) == 1 else None
    fn = body("reward_beneficiary")
    if fn is None:
        inconcl.append("reward_beneficiary: MIR body not found uniquely")
    else:
        # the price is found from where it is USED, not from its name: balance <- saturating_add(balance, PRICE * U256::from(gas)), where the
        # other factor is a u64 turned into a word; every reaching definition of PRICE is then classified
        def one(local):
            d = defs_of(fn, local)
            return d[0] if len(d) == 1 else None
        price = None
        stores = [m.group(1) for b in fn.blocks.values() for s_ in b.stmts
                  for m in [re.match(r"^\(\(\(\*_\d+\)\.0: [\w:]*AccountInfo\)\.0: [\w:]*Uint<256, 4>\) = move (_\d+)$", s_)] if m]
        if len(stores) == 1:
            m = re.match(r"^ruint::add::<impl Uint<256, 4>>::saturating_add\(move (_\d+), move (_\d+)\)", one(stores[0]) or "")
            if m:
                mm = re.match(r"^<Uint<256, 4> as Mul>::mul\(move (_\d+), move (_\d+)\)", one(m.group(2)) or "")
                if mm:
                    x, y = mm.group(1), mm.group(2)
                    fx, fy = ("from::<u64>(" in (one(x) or "")), ("from::<u64>(" in (one(y) or ""))
                    if fx != fy:
                        price = y if fx else x

        def classify(local, depth=0):
            """set of classes of the reaching definitions of `local`: 'eff', 'eff-basefee', or a ('bad', text)"""
            out = set()
            if depth > 6:
                return {("bad", "definition chain too deep")}
            for d in defs_of(fn, local):
                d0 = re.sub(r"^no_retag ", "", d)
                m = re.match(r"^(?:copy|move) (_\d+)$", d0)
                if m:
                    out |= classify(m.group(1), depth + 1)
                    continue
                if re.match(r"^primitives::env::Env::effective_gas_price\(", d0):
                    out.add("eff")
                    continue
                m = re.match(r"^ruint::add::<impl Uint<256, 4>>::saturating_sub\((?:copy|move) (_\d+), (?:move|copy) (_\d+)\)", d0)
                if m and classify(m.group(1), depth + 1) == {"eff"}:
                    sub = defs_of(fn, m.group(2))
                    # the subtracted operand must be block.basefee (field 4 of BlockEnv)
                    if len(sub) == 1 and re.search(r"BlockEnv\)\.4: [\w:]*Uint<256, 4>\)", sub[0]):
                        out.add("eff-basefee")
                        continue
                out.add(("bad", d0[:120]))
            return out
        if price is None:
            # shape of the credit not recognised: the real code answers (fee cap clipping the tip), and only a reproduced difference is reported
            st, out = native.call("debug", "reward_amount", log=log)
            m = re.search(r"coinbase_received=(\d+) expected=(\d+)", out) if st == "ok" else None
            if m and m.group(1) != m.group(2):
                failures.append(dict(id="reward-price", reproduced=True,
                                     description=f"reward_beneficiary: the credit `balance + price x gas` was not recognised in MIR | native (fee cap clips the tip): {out}"))
            else:
                inconcl.append("reward_beneficiary: the credit `balance.saturating_add(price * U256::from(gas))` not recognised" + (f" (native scenario agrees with the rule: {out[:120]})" if m else f"; native: {st} {out[:200]}"))
        else:
            if True:
                cls = classify(price)
                cgp = price
                bad = sorted(c[1] for c in cls if isinstance(c, tuple))
                eff_ok = [1] if (cls and not bad) else []
            term = "false" if (bad or len(eff_ok) != 1) else "true"
            v, model, detail = duo.check(["(declare-const x Bool)"], [f"(not {term})"])
            samples.append(f"reward_beneficiary: definitions of the per-gas price: {len(defs_of(fn, cgp))}, not derived from effective_gas_price [- basefee]: {bad}: {v}")
            log(f"[e3] {samples[-1]}")
            if v == "sat":
                st, out = native.call("debug", "reward_amount", log=log)
                m = re.search(r"coinbase_received=(\d+) expected=(\d+)", out) if st == "ok" else None
                desc = f"reward_beneficiary pays a per-gas price that is not effective_gas_price (- basefee from London): {bad}"
                if m:
                    failures.append(dict(id="reward-price", reproduced=m.group(1) != m.group(2), description=desc + f" | native (fee cap clips the tip): {out}"))
                else:
                    inconcl.append(f"reward_beneficiary: native scenario failed: {st} {out}")
            elif v != "unsat":
                inconcl.append(f"reward_beneficiary: {detail}")
    q, tm = duo.queries, duo.time
    duo.close()
    res = dict(queries=q, solver_s=tm, engine="mir dataflow scan -> smtlib (z3 4.8.12 + cvc5 1.0)", bounds="; ".join(samples),
               detail="every reaching definition of coinbase_gas_price is effective_gas_price or effective_gas_price.saturating_sub(block.basefee)")
    if any(f.get("reproduced") for f in failures):
        res.update(status="fail", failures=failures, reason=failures[0]["description"][:300])
    elif inconcl:
        res.update(status="inconclusive", reason="; ".join(inconcl)[:500])
    elif failures:
        res.update(status="fail", failures=failures, reason=failures[0]["description"][:300])
    else:
        res.update(status="pass")
    return res


# ------------------------------------------------------------------------------------------------ C10 (value guard of CALL / EXTCALL)
def run_value_guard(tier, log, seed):
    """In `call` and `extcall` the block that sets CallNotAllowedInsideStatic is entered exactly under
    `interpreter.is_static && !value.is_zero()` where `value` is the word popped for the call value (full 256-bit zero test)."""
    text = mir.dump("interpreter", log)
    funcs = mir.parse_functions(text)
    idx = interpreter_field_index("is_static")
    duo = smt.Duo(timeout_s=30)
    failures, inconcl, samples = [], [], []
    for fname in ("call", "extcall"):
        cands = [f for n, fl in funcs.items() for f in fl if n in ("instructions::contract::" + fname, "contract::" + fname, fname)]
        if len(cands) != 1:
            inconcl.append(f"{fname}: MIR body not found uniquely")
            continue
        fn = cands[0]
        tgt = [b.name for b in fn.blocks.values() if any("InstructionResult::CallNotAllowedInsideStatic" in s for s in b.stmts)]
        term, why = "unk", "guard not recognised"
        if len(tgt) == 1:
            # predecessor chain: switch(has_transfer) <- switch(is_static)
            p1 = [b for b in fn.blocks.values() if re.match(r"^switchInt\((?:copy|move) (_\d+)\) -> \[0: bb\d+, otherwise: %s\]$" % tgt[0], b.term or "")]
            if len(p1) == 1:
                c1 = re.match(r"^switchInt\((?:copy|move) (_\d+)\)", p1[0].term).group(1)
                p0 = [b for b in fn.blocks.values() if re.match(r"^switchInt\((?:copy|move) (_\d+)\) -> \[0: bb\d+, otherwise: %s\]$" % p1[0].name, b.term or "")]
                conds = [c1]
                if len(p0) == 1:
                    conds.append(re.match(r"^switchInt\((?:copy|move) (_\d+)\)", p0[0].term).group(1))
                kinds = set()
                for c in conds:
                    ds = defs_of(fn, c)
                    if len(ds) == 1 and re.match(r"^copy \(\(\*_1\)\.%d: bool\)$" % idx, ds[0]):
                        kinds.add("static")
                    elif len(ds) == 1 and re.match(r"^Not\(move (_\d+)\)$", ds[0]):
                        z = defs_of(fn, re.match(r"^Not\(move (_\d+)\)$", ds[0]).group(1))
                        if len(z) == 1 and re.match(r"^ruint::cmp::<impl Uint<256, 4>>::is_zero\(move (_\d+)\)", z[0]):
                            r_ = defs_of(fn, re.match(r".*is_zero\(move (_\d+)\)", z[0]).group(1))
                            if len(r_) == 1 and re.match(r"^&_\d+$", r_[0]):
                                v_ = defs_of(fn, r_[0][1:])
                                if len(v_) == 1 and re.match(r"^Stack::pop_unsafe\(", v_[0]):
                                    kinds.add("nonzero")
                if kinds == {"static", "nonzero"}:
                    term, why = "(and static nonzero)", "is_static && !value.is_zero() on the popped value"
        v, model, detail = duo.check(["(declare-const static Bool)", "(declare-const nonzero Bool)", "(declare-const unk Bool)"],
                                     [f"(not (= {term} (and static nonzero)))"])
        samples.append(f"{fname}: guard of CallNotAllowedInsideStatic is {why} -> {v}")
        log(f"[e3] {samples[-1]}")
        if v == "unsat":
            continue
        if v != "sat":
            inconcl.append(f"{fname}: {detail}")
            continue
        st, out = native.call("debug", "static_value_call", fname, log=log)
        desc = f"{fname}: the static-mode value guard is not `is_static && value != 0` over all 256 bits ({why})"
        if st == "ok":
            failures.append(dict(id=f"{fname}-value-guard", reproduced=("ACCEPTED" in out), description=desc + f" | native: {out[:300]}"))
        else:
            inconcl.append(f"{fname}: native scenario failed: {st} {out}")
    q, tm = duo.queries, duo.time
    duo.close()
    res = dict(queries=q, solver_s=tm, engine="mir dataflow scan -> smtlib (z3 4.8.12 + cvc5 1.0)", bounds="; ".join(samples),
               detail="guard structure: switch(is_static) -> switch(!is_zero(popped value)) -> CallNotAllowedInsideStatic")
    if any(f.get("reproduced") for f in failures):
        res.update(status="fail", failures=failures, reason=failures[0]["description"][:300])
    elif inconcl:
        res.update(status="inconclusive", reason="; ".join(inconcl)[:500])
    elif failures:
        res.update(status="fail", failures=failures, reason=failures[0]["description"][:300])
    else:
        res.update(status="pass")
    return res


# ------------------------------------------------------------------------------------------------ C20 (CacheDB read policy)
def _bool_table_of_state_helper(funcs, callee, n_states):
    """For an in-crate helper `fn(&AccountState) -> bool` made only of a discriminant switch and constant stores, its truth table."""
    last = re.sub(r"::<.*?>", "", callee).split("::")[-1]
    cands = [f for n, fl in funcs.items() for f in fl if n.split("::")[-1] == last and re.search(r"\(_1: &(\w+::)*AccountState\) -> bool", f.text.split("\n")[0])]
    if len(cands) != 1:
        return None
    fn = cands[0]
    table = []
    for d in range(n_states):
        b, env, steps = "bb0", {}, 0
        while steps < 40:
            steps += 1
            blk = fn.blocks[b]
            for s in blk.stmts:
                m = re.match(r"^(_\d+) = (.*)$", s)
                if not m:
                    continue
                if m.group(2) == "discriminant((*_1))":
                    env[m.group(1)] = d
                elif m.group(2) in ("const true", "const false"):
                    env[m.group(1)] = 1 if m.group(2).endswith("true") else 0
                else:
                    return None
            t = blk.term or ""
            if t == "return":
                break
            m = re.match(r"^goto -> (bb\d+)$", t)
            if m:
                b = m.group(1)
                continue
            m = re.match(r"^switchInt\((?:move|copy) (_\d+)\)", t)
            if m and m.group(1) in env:
                nxt = None
                for lab, dst in mir.successors(t):
                    if lab != "otherwise" and int(lab) == env[m.group(1)]:
                        nxt = dst
                if nxt is None:
                    nxt = dict(mir.successors(t)).get("otherwise")
                if nxt is None:
                    return None
                b = nxt
                continue
            return None
        if "_0" not in env:
            return None
        table.append(env["_0"])
    return table


def run_cache_read_policy(tier, log, seed):
    """CacheDB::storage (Database) and CacheDB::storage_ref (DatabaseRef): on every path, where the returned word comes from - the cached
    slot, the constant zero, or the wrapped database's storage_ref - is the function of (account cached?, slot cached?, account_state,
    wrapped account exists?) that keeps the answer equal to the wrapped data plus committed changes; block_hash / block_hash_ref and
    code_by_hash / code_by_hash_ref: the cached value if present, otherwise the wrapped database's answer."""
    import mirflow
    text = mir.dump("revm", log)
    funcs = mir.parse_functions(text)
    src = open(os.path.join(REPO, "crates/revm/src/db/in_memory_db.rs")).read()
    m = re.search(r"pub enum AccountState \{(.*?)\n\}", src, re.S)
    states = re.findall(r"^\s*([A-Z]\w*),", m.group(1), re.M) if m else []
    duo = smt.Duo(timeout_s=30)
    failures, inconcl, samples = [], [], []
    if states != ["NotExisting", "Touched", "StorageCleared", "None"]:
        inconcl.append(f"AccountState variants changed: {states}")
        states = states or ["?"]
    CACHE, ZERO, INNER, ERR = 11, 12, 13, 14
    replay_cache = {}

    def replay():
        if "r" not in replay_cache:
            replay_cache["r"] = native.call("debug", "cachedb_read_policy", log=log)
        return replay_cache["r"]

    def analyse(name, impl_rx, inner_rx, map_rx, zero_states, with_info):
        cands = [f for n, fl in funcs.items() for f in fl if re.search(r"^in_memory_db::<impl at [^>]*>::%s$" % name, n) and re.search(impl_rx, f.text.split("\n")[0])]
        if len(cands) != 1:
            inconcl.append(f"CacheDB::{name}: {len(cands)} MIR bodies")
            return
        fn = cands[0]
        rules = [
            (r"OccupiedEntry::<.*>::get$|^HashMap::<.*>::get::<", f"tag:{CACHE}"),
            (inner_rx, f"tag:{INNER}"),
            (r" as Try>::branch$", "arg:0"),
            (r"from_residual$", f"tag:{ERR}"),
            (r"as Clone>::clone$|::clone$", "arg:0"),
            (r"VacantEntry::<.*>::insert$", "arg:1"),
        ]
        fl = mirflow.Flow(fn, rules, [(r"^const ruint::Uint::<256, 4>::ZERO$", ZERO)])
        # helpers over the account state become tables
        for b in fn.blocks.values():
            c = mir.call_of(b.term or "")
            if c and re.search(r"AccountState", c[1]) and not any(re.search(rx, c[1]) for rx, _ in rules):
                tbl = _bool_table_of_state_helper(funcs, c[1], len(states))
                if tbl is not None:
                    fl.call_rules.append((re.escape(c[1]) + "$", "state-table:" + ",".join(map(str, tbl))))
        try:
            decls, asserts, cells, order, returns, out = fl.encode()
        except mir.Unsupported as e:
            inconcl.append(f"CacheDB::{name}: {e}")
            return
        # identify the free variables of the policy
        acct = slot = info = None
        occ = {}
        for b in fn.blocks.values():
            c = mir.call_of(b.term or "")
            if not c or not c[0]:
                continue
            if re.search(r"^HashMap::<%s>::(entry|get)" % map_rx[0], c[1]):
                acct = c[0].strip()
            elif map_rx[1] and re.search(r"^HashMap::<%s>::(entry|get)" % map_rx[1], c[1]):
                slot = c[0].strip()
            elif re.search(r"^Option::<AccountInfo>::is_some$", c[1]):
                info = "r_" + b.name
        for loc in (acct, slot):
            if loc:
                for b in fn.blocks.values():
                    mm = re.match(r"^switchInt\(move (_\d+)\)", b.term or "")
                    if mm and f"{mm.group(1)} = discriminant({loc})" in b.stmts:
                        for lab, dst in mir.successors(b.term):
                            if lab != "otherwise" and re.search(r"\(%s as (Occupied|Some)\)" % re.escape(loc), " ".join(fn.blocks[dst].stmts)):
                                occ[loc] = lab
        st_vars = [n_ for n_, what in fl.notes if what.startswith("discriminant(") and "AccountState" in what]
        need = [acct and acct in occ] + ([slot and slot in occ, len(st_vars) == 1] if map_rx[1] else []) + ([info is not None] if with_info else [])
        if not all(need):
            inconcl.append(f"CacheDB::{name}: policy variables not recognised (acct={acct} slot={slot} occ={occ} state={st_vars} info={info})")
            return
        A = f"(= disc_{acct} {occ[acct]})"
        if map_rx[1]:
            S = f"(= disc_{slot} {occ[slot]})"
            stv = st_vars[0]
            zero = "(or " + " ".join(f"(= {stv} {states.index(z)})" for z in zero_states) + ")"
            hit = f"(ite {S} {CACHE} (ite {zero} {ZERO} {INNER}))"
            miss = f"(ite (= {info} 0) {ZERO} {INNER})" if with_info else str(INNER)
            rng = [f"(>= {stv} 0)", f"(< {stv} {len(states)})"]
        else:
            hit, miss, rng = str(CACHE), str(INNER), []
        expected = f"(ite {A} {hit} {miss})"
        viol = "(or " + " ".join(f"(and on_{b} (not (= {out('_0', b)} {expected})) (not (= {out('_0', b)} {ERR})))" for b in returns) + ")"
        # vacuity guard: the encoding must admit a path for every source the policy can name
        for tg in sorted({CACHE, INNER} | ({ZERO} if map_rx[1] else set())):
            wq = "(or " + " ".join(f"(and on_{b} (= {out('_0', b)} {tg}))" for b in returns) + ")"
            wv, _, wd = duo.check(decls, asserts + rng + [wq])
            if wv != "sat":
                inconcl.append(f"CacheDB::{name}: vacuity witness for source {tg} is {wv} (the encoding reaches no such path)")
                return
        v, model, detail = duo.check(decls, asserts + rng + [viol], want_model_of=[f"on_{b}" for b in order] + [n_ for n_, _ in fl.notes])
        samples.append(f"CacheDB::{name}: {len(order)} blocks, {len(cells)} cells, free={[n_ for n_, _ in fl.notes]}: a path whose answer does not come from where the policy says: {v}")
        log(f"[e3] {samples[-1]}")
        if v == "unsat":
            return
        if v != "sat":
            inconcl.append(f"CacheDB::{name}: {detail}")
            return
        path = sorted([b for b in order if re.search(r"\(on_%s true\)" % b, model)], key=lambda x: int(x[2:]))
        vals = {n_: re.search(r"\(%s (\(- \d+\)|\d+)\)" % n_, model) for n_, _ in fl.notes}
        vals = {k: (mm.group(1) if mm else "?") for k, mm in vals.items() if k.startswith("disc_") or k == info}
        st, outp = replay()
        desc = f"CacheDB::{name}: answer source differs from the read policy on path {'>'.join(path[-7:])} with {vals}"
        if st == "ok":
            bad = [t for t in re.findall(r"\[([^\]]*)\]", outp) if t.startswith(name + " ") and "MISMATCH" in t]
            failures.append(dict(id=f"cachedb-{name}", reproduced=bool(bad), description=desc + f" | native: {bad or 'all scenarios agree'}"))
        else:
            inconcl.append(f"CacheDB::{name}: native scenario failed: {st} {outp[:200]}")

    U, ADDR_ACC, B256_ = r"Uint<256, 4>, Uint<256, 4>", r"Address, DbAccount", r"Uint<256, 4>, FixedBytes<32>"
    analyse("storage", r"\(_1: &mut CacheDB<", r"as (primitives::db::)?DatabaseRef>::storage_ref$", (ADDR_ACC, U), ["NotExisting", "StorageCleared"], True)
    analyse("storage_ref", r"\(_1: &CacheDB<", r"as (primitives::db::)?DatabaseRef>::storage_ref$", (ADDR_ACC, U), ["NotExisting", "StorageCleared"], False)
    analyse("block_hash", r"\(_1: &mut CacheDB<", r"as (primitives::db::)?DatabaseRef>::block_hash_ref$", (B256_, None), [], False)
    analyse("block_hash_ref", r"\(_1: &CacheDB<", r"as (primitives::db::)?DatabaseRef>::block_hash_ref$", (B256_, None), [], False)
    CODE = r"FixedBytes<32>, Bytecode"
    analyse("code_by_hash", r"\(_1: &mut CacheDB<", r"as (primitives::db::)?DatabaseRef>::code_by_hash_ref$", (CODE, None), [], False)
    analyse("code_by_hash_ref", r"\(_1: &CacheDB<", r"as (primitives::db::)?DatabaseRef>::code_by_hash_ref$", (CODE, None), [], False)
    # ---- account info: basic_ref, and what a cached account reports (DbAccount::info: absent iff NotExisting, otherwise the stored info)
    def simple(name, fn, rules, consts, expected_of, extra, note):
        fl = mirflow.Flow(fn, rules, consts)
        try:
            decls, asserts, cells, order, returns, out = fl.encode()
        except mir.Unsupported as e:
            inconcl.append(f"CacheDB::{name}: {e}")
            return
        exp, ext, names = expected_of(fl)
        if exp is None:
            st, outp = replay()
            bad = [t for t in re.findall(r"\[([^\]]*)\]", outp) if t.startswith(name + " ") and "MISMATCH" in t] if st == "ok" else []
            (failures if bad else inconcl).append(dict(id=f"cachedb-{name}", reproduced=True, description=f"CacheDB::{name}: shape not recognised; native: {bad}") if bad else f"CacheDB::{name}: shape not recognised (native scenarios agree)")
            return
        viol = "(or " + " ".join(f"(and on_{b} (not (= {out('_0', b)} {exp})) (not (= {out('_0', b)} {ERR})))" for b in returns) + ")"
        v, model, detail = duo.check(decls, asserts + ext + [viol], want_model_of=[f"on_{b}" for b in order] + names)
        samples.append(f"CacheDB::{name}: {len(order)} blocks: {note}: {v}")
        log(f"[e3] {samples[-1]}")
        if v == "unsat":
            return
        if v != "sat":
            inconcl.append(f"CacheDB::{name}: {detail}")
            return
        st, outp = replay()
        bad = [t for t in re.findall(r"\[([^\]]*)\]", outp) if t.startswith(name + " ") and "MISMATCH" in t] if st == "ok" else []
        failures.append(dict(id=f"cachedb-{name}", reproduced=bool(bad), description=f"CacheDB::{name}: {note} | native: {bad or 'all scenarios agree'}"))
    INFO_CACHED, INFO_NONE = 21, 22
    c = [f for n, fl_ in funcs.items() for f in fl_ if re.search(r"^in_memory_db::<impl at [^>]*>::info$", n) and "DbAccount" in f.text.split("\n")[0]]
    if len(c) != 1:
        inconcl.append(f"DbAccount::info: {len(c)} MIR bodies")
    else:
        def exp_info(fl):
            dv = [n_ for n_, what in fl.notes if what.startswith("discriminant(") and "AccountState" in what]
            if len(dv) != 1:
                return None, [], []
            return f"(ite (= {dv[0]} {states.index('NotExisting')}) {INFO_NONE} {INFO_CACHED})", [f"(>= {dv[0]} 0)", f"(< {dv[0]} {len(states)})"], dv
        simple("info", c[0], [(r"<AccountInfo as Clone>::clone$", "arg:0")],
               [(r"^Option::<AccountInfo>::None$", INFO_NONE), (r"^&\(\(\*_1\)\.0: (\w+::)*AccountInfo\)$", INFO_CACHED)], exp_info, [],
               "a cached account does not report `absent` exactly in state NotExisting and its stored info otherwise")
    c = [f for n, fl_ in funcs.items() for f in fl_ if re.search(r"^in_memory_db::<impl at [^>]*>::basic_ref$", n) and re.search(r"\(_1: &CacheDB<", f.text.split("\n")[0])]
    if len(c) != 1:
        inconcl.append(f"CacheDB::basic_ref: {len(c)} MIR bodies")
    else:
        def exp_basic_ref(fl):
            g = [(b.name, (cc[0] or "").strip()) for b in c[0].blocks.values() for cc in [mir.call_of(b.term or "")] if cc and re.search(r"^HashMap::<Address, DbAccount>::get::<Address>$", cc[1])]
            if len(g) != 1:
                return None, [], []
            d = f"disc_{g[0][1]}"
            return f"(ite (= {d} 1) (+ {CACHE} 100) {INNER})", [f"(or (= {d} 0) (= {d} 1))"], [d]
        simple("basic_ref", c[0], [(r"^HashMap::<Address, DbAccount>::get::<Address>$", f"tag:{CACHE}"), (r"^DbAccount::info$", lambda cc, a, env, b, fl: f"(+ {fl.rvalue(a, env, b) or 0} 100)"),
                                   (r"as (primitives::db::)?DatabaseRef>::basic_ref$", f"tag:{INNER}")], [], exp_basic_ref, [],
               "the answer is not the cached account's info() if the account is cached, else the wrapped database's answer")
    q, tm = duo.queries, duo.time
    duo.close()
    res = dict(queries=q, solver_s=tm, engine="mir provenance-flow -> smtlib (z3 4.8.12 + cvc5 1.0)", bounds="; ".join(samples),
               detail="tags: 11 cached value, 12 constant zero, 13 wrapped database, 14 error; policy: account cached? slot cached? account_state in {NotExisting, StorageCleared}? wrapped account exists?")
    if any(f.get("reproduced") for f in failures):
        res.update(status="fail", failures=failures, reason=failures[0]["description"][:300])
    elif inconcl or failures:
        res.update(status="inconclusive", reason="; ".join(inconcl + [f["description"] for f in failures])[:500])
    else:
        res.update(status="pass")
    return res
