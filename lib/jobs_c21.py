"""C21 (c) / C08 / C07: the collision guard and the bookkeeping of JournaledState::create_account_checkpoint, decided by provenance-flow
symbolic execution of its MIR (lib/mirflow.py) + SMT over every path and every value of the three guard inputs."""
import re
import mir, smt, native, mirflow

COLLISION, OVERFLOW, CHECKPOINT = 71, 72, 81
J_CREATED, J_TRANSFER, J_OTHER = 33, 34, 39


def run_create_guard(tier, log, seed):
    text = mir.dump("revm", log)
    funcs = mir.parse_functions(text)
    duo = smt.Duo(timeout_s=30)
    failures, inconcl, samples = [], [], []
    res = dict(engine="mir provenance-flow -> smtlib (z3 4.8.12 + cvc5 1.0)",
               detail="collision <=> code_hash != KECCAK_EMPTY || nonce != 0 || address_has_storage; a collision reverts the checkpoint it took and neither stores to the "
                      "account nor journals anything; success: no revert, account marked created, AccountCreated + BalanceTransfer journalled, the same `balance` credited "
                      "to the target (checked_add) and debited from the caller; OverflowPayment: the checkpoint is reverted")

    def replay():
        outs = []
        for f in ("make_create_frame", "make_eofcreate_frame"):
            st, out = native.call("debug", "create_collision", f, log=log)
            if st != "ok":
                return None, f"native scenario failed: {st} {out[:200]}"
            outs.append(out)
        st, out = native.call("debug", "create_guard", log=log)
        if st != "ok":
            return None, f"native scenario failed: {st} {out[:200]}"
        outs.append(out)
        bad = [t for t in re.findall(r"\[([^\]]*)\]", " ".join(outs)) if "MISMATCH" in t]
        return bad, None

    def finish():
        res.update(queries=duo.queries, solver_s=duo.time, bounds="; ".join(samples))
        duo.close()
        if any(f.get("reproduced") for f in failures):
            res.update(status="fail", failures=failures, reason=failures[0]["description"][:300])
        elif inconcl or failures:
            res.update(status="inconclusive", reason="; ".join(inconcl + [f["description"] for f in failures])[:600])
        else:
            res.update(status="pass")
        return res

    def unrecognised(why):
        bad, err = replay()
        if bad:
            failures.append(dict(id="create-guard", reproduced=True, description=f"create_account_checkpoint: {why}; the native scenarios disagree: {bad}"))
        else:
            inconcl.append(f"create_account_checkpoint: {why}" + (f" ({err})" if err else " (native scenarios agree)"))

    cands = [f for n, fl in funcs.items() for f in fl if re.search(r"^journaled_state::<impl at [^>]*>::create_account_checkpoint$", n)]
    if len(cands) != 1:
        inconcl.append(f"create_account_checkpoint: {len(cands)} MIR bodies")
        return finish()
    fn = cands[0]
    sig = fn.text.split("\n")[0]
    margs = re.search(r"\((_1: &mut JournaledState, _2: Address, _3: Address, _4: bool, _5: Uint<256, 4>, _6: SpecId)\)", sig)
    # the promoted constant compared with the code hash must be KECCAK_EMPTY
    prom = re.search(r"create_account_checkpoint::promoted\[0\]: &FixedBytes<32> = \{(.*?)\n\}", text, re.S)
    prom_ok = bool(prom and re.search(r"= const (\w+::)*KECCAK_EMPTY;", prom.group(1)))

    def journal_tag(m, env):
        return str({"AccountCreated": J_CREATED, "BalanceTransfer": J_TRANSFER}.get(m.group(1), J_OTHER))

    def result_tag(m, env):
        return str({"CreateCollision": COLLISION, "OverflowPayment": OVERFLOW}.get(m.group(1), 79))
    rules = [(r"^JournaledState::checkpoint$", f"count:taken;tag:{CHECKPOINT}"),
             (r"^JournaledState::checkpoint_revert$", "record:revert:2;count:reverts"),
             (r"^JournaledState::checkpoint_commit$", "count:commits"),
             (r"^Vec::<JournalEntry>::push$", "record:push:2;count:journal"),
             (r"^Account::mark_created$", "count:created"),
             (r"^JournaledState::touch_account$", "count:touched"),
             (r"checked_add$", "record:credit:2;free"),
             (r"as SubAssign>::sub_assign$", "record:debit:2;count:debits"),
             (r"^<FixedBytes<32> as PartialEq>::ne$", "free"),
             (r"^<FixedBytes<32> as PartialEq>::eq$", "free")]
    consts = [(r"^JournalEntry::(\w+) \{", journal_tag), (r"^(?:\w+::)*InstructionResult::(\w+)$", result_tag)]
    stores = [(r"AccountInfo\)\.\d+: ", "stores")]
    fl = mirflow.Flow(fn, rules, consts, store_rules=stores)
    try:
        decls, asserts, cells, order, returns, out = fl.encode()
    except mir.Unsupported as e:
        inconcl.append(f"create_account_checkpoint: {e}")
        return finish()
    ne_calls = [(b.name, c) for b in fn.blocks.values() for c in [mir.call_of(b.term or "")] if c and re.search(r"^<FixedBytes<32> as PartialEq>::ne$", c[1])]
    nonce_ne = [(n_, what) for n_, what in fl.notes if re.search(r"unknown rvalue `Ne\((?:move|copy) _\d+, const 0_u64\)", what)]
    hash_ok = False
    if len(ne_calls) == 1:
        a0 = re.match(r"^(?:move|copy) (_\d+)$", mir.split_top(ne_calls[0][1][2])[0].strip())
        a1 = re.match(r"^(?:move|copy) (_\d+)$", mir.split_top(ne_calls[0][1][2])[1].strip())
        d0 = [s_ for b in fn.blocks.values() for s_ in b.stmts if a0 and s_.startswith(a0.group(1) + " = ")]
        d1 = [s_ for b in fn.blocks.values() for s_ in b.stmts if a1 and s_.startswith(a1.group(1) + " = ")]
        hash_ok = (len(d0) == 1 and re.search(r"AccountInfo\)\.2: (\w+::)*FixedBytes<32>\)$", d0[0]) is not None
                   and len(d1) == 1 and "create_account_checkpoint::promoted[0]" in d1[0] and prom_ok)
    nonce_ok = False
    if len(nonce_ne) == 1:
        mm = re.search(r"Ne\((?:move|copy) (_\d+),", nonce_ne[0][1])
        dn = [s_ for b in fn.blocks.values() for s_ in b.stmts if s_.startswith(mm.group(1) + " = ")]
        nonce_ok = len(dn) == 1 and re.search(r"AccountInfo\)\.1: u64\)$", dn[0]) is not None
    if not (margs and hash_ok and nonce_ok):
        unrecognised(f"guard inputs not recognised (signature={bool(margs)} code-hash test vs KECCAK_EMPTY={hash_ok} nonce test={nonce_ok})")
        return finish()
    NEH, NEN, FLAG, BAL = "r_" + ne_calls[0][0], nonce_ne[0][0], "arg_4", "arg_5"
    extra = [f"(or (= {v} 0) (= {v} 1))" for v in (NEH, NEN, FLAG)]
    collide = f"(or (= {NEH} 1) (= {NEN} 1) (= {FLAG} 1))"
    per = []
    for b in returns:
        g = lambda c: out(c, b)
        col = (f"(and (= {g('_0')} {COLLISION}) (= {g('@reverts')} 1) (= {g('@revert.1')} {CHECKPOINT}) (= {g('@journal')} 0) (= {g('@stores')} 0) "
               f"(= {g('@created')} 0) (= {g('@debits')} 0) (= {g('@commits')} 0))")
        okp = (f"(and (= {g('@reverts')} 0) (= {g('@created')} 1) (= {g('@journal')} 2) (= {g('@touched')} 1) (= {g('@credit.1')} {BAL}) "
               f"(= {g('@debits')} 1) (= {g('@debit.1')} {BAL}) (= {g('@commits')} 0))")
        ovf = f"(and (= {g('@reverts')} 1) (= {g('@revert.1')} {CHECKPOINT}) (= {g('@debits')} 0) (= {g('@commits')} 0))"
        ok = f"(and (= {g('@taken')} 1) (ite {collide} {col} (or (and (= {g('_0')} {CHECKPOINT}) {okp}) (and (= {g('_0')} {OVERFLOW}) {ovf}))))"
        per.append(f"(and on_{b} (not {ok}))")
    names = [NEH, NEN, FLAG]
    v, model, detail = duo.check(decls, asserts + extra + ["(or " + " ".join(per) + ")"], want_model_of=[f"on_{b}" for b in order] + names)
    samples.append(f"create_account_checkpoint: {len(order)} blocks, {len(cells)} cells, guard inputs {names}: a path that breaks the collision rule or its bookkeeping: {v}")
    log(f"[c21] {samples[-1]}")
    if v == "unsat":
        wit = [("collision", "(or " + " ".join(f"(and on_{b} (= {out('_0', b)} {COLLISION}))" for b in returns) + ")"),
               ("success", "(or " + " ".join(f"(and on_{b} (= {out('_0', b)} {CHECKPOINT}))" for b in returns) + ")"),
               ("overflow", "(or " + " ".join(f"(and on_{b} (= {out('_0', b)} {OVERFLOW}))" for b in returns) + ")")]
        for wn, wq in wit:
            wv, _, _ = duo.check(decls, asserts + extra + [wq])
            if wv != "sat":
                unrecognised(f"vacuity witness `{wn}` is {wv}")
                break
    elif v == "sat":
        path = sorted([b for b in order if re.search(r"\(on_%s true\)" % b, model)], key=lambda x: int(x[2:]))
        vals = {n_: (re.search(r"\(%s (\d+)\)" % n_, model) or [None, "?"])[1] for n_ in names}
        bad, err = replay()
        desc = f"create_account_checkpoint: collision rule / bookkeeping broken on path {'>'.join(path[-8:])} with code_hash_differs={vals[NEH]} nonce_nonzero={vals[NEN]} has_storage={vals[FLAG]}"
        if err:
            inconcl.append(desc + f" ({err})")
        else:
            failures.append(dict(id="create-guard", reproduced=bool(bad), description=desc + f" | native: {bad or 'all scenarios agree'}"))
    else:
        inconcl.append(f"create_account_checkpoint: {detail}")
    return finish()


# ====================================================================================================================================
# C08 / C06: JournaledState::transfer is sequentially consistent - the recipient's balance is read after the sender's was written, so that
# a transfer from an account to itself neither mints nor burns
def run_transfer_order(tier, log, seed):
    text = mir.dump("revm", log)
    funcs = mir.parse_functions(text)
    duo = smt.Duo(timeout_s=30)
    failures, inconcl, samples = [], [], []
    ACC, BAL, STAMP = 500000, 1, 1000000
    res = dict(engine="mir provenance-flow -> smtlib (z3 4.8.12 + cvc5 1.0)",
               detail="balance reads carry the number of balance stores that preceded them: the debit is computed from the sender's balance read before any store, the credit from the "
                      "recipient's balance read after the debit was stored; both use the same amount; success journals BalanceTransfer{from, to, amount}")

    def finish():
        res.update(queries=duo.queries, solver_s=duo.time, bounds="; ".join(samples))
        duo.close()
        if any(f.get("reproduced") for f in failures):
            res.update(status="fail", failures=failures, reason=failures[0]["description"][:300])
        elif inconcl or failures:
            res.update(status="inconclusive", reason="; ".join(inconcl + [f["description"] for f in failures])[:600])
        else:
            res.update(status="pass")
        return res

    def replay():
        st, out = native.call("debug", "transfer_sum", "SelfTransfer", log=log)
        if st != "ok":
            return None, f"native scenario failed: {st} {out[:200]}"
        m = re.search(r"from_before=(\d+) from_after=(\d+)", out)
        return (m is not None and m.group(1) != m.group(2)), out
    cands = [f for n, fl in funcs.items() for f in fl if re.search(r"^journaled_state::<impl at [^>]*>::transfer$", n)]
    if len(cands) != 1:
        inconcl.append(f"transfer: {len(cands)} MIR bodies")
        return finish()
    fn = cands[0]
    rules = [(r"^HashMap::<Address, Account>::get_mut::<Address>$", lambda c, a, env, b, fl: f"(+ {ACC} {fl.rvalue(mir.split_top(a)[1], env, b) or 0})"),
             (r"^Option::<&mut \w+>::unwrap$", "arg:0"), (r" as Try>::branch$", "arg:0"), (r"from_residual$", "tag:14"),
             (r"checked_sub$", "record:sub:2;count:subs;free"), (r"checked_add$", "record:add:2;count:adds;free"),
             (r"^Vec::<JournalEntry>::push$", "count:pushes")]
    consts = [(r"^&mut \(\(\(\*(_\d+)\)\.0: (\w+::)*AccountInfo\)\.0: ruint::Uint<256, 4>\)$", lambda m_, env: f"(+ {env.get(m_.group(1), 0)} {BAL})"),
              # a read through a reference to a 256-bit word (a balance) is stamped with the number of balance stores so far; other dereferences are transparent
              (r"^(?:no_retag )?copy \(\*(_\d+)\)$", lambda m_, env: (f"(+ {env.get(m_.group(1), 0)} (* {STAMP} {env.get('@bstores', 0)}))"
                                                                    if "Uint<256, 4>" in (fn.locals.get(m_.group(1)) or "") else env.get(m_.group(1)))),
              (r"^Option::<InstructionResult>::None$", 90), (r"^(?:\w+::)*InstructionResult::(\w+)$", lambda m_, env: str({"OutOfFunds": 73, "OverflowPayment": 72}.get(m_.group(1), 79)))]
    fl = mirflow.Flow(fn, rules, consts, store_records=[(r"^\(\*(_\d+)\)$", "bstores")])
    try:
        decls, asserts, cells, order, returns, out = fl.encode()
    except (mir.Unsupported, KeyError) as e:
        inconcl.append(f"transfer: not encodable: {e}")
        return finish()
    FROM, TO = f"(+ (+ {ACC} arg_2) {BAL})", f"(+ (+ {ACC} arg_3) {BAL})"
    per = []
    for b in returns:
        g = lambda c: out(c, b)
        ok = (f"(and (= {g('@subs')} 1) (= {g('@sub.0')} {FROM}) (= {g('@sub.1')} arg_4) (= {g('@adds')} 1) (= {g('@add.0')} (+ {TO} {STAMP})) (= {g('@add.1')} arg_4) "
              f"(= {g('@bstores')} 2) (= {g('@pushes')} 1))")
        per.append(f"(and on_{b} (= {g('_0')} 90) (not {ok}))")
    v, model, detail = duo.check(decls, asserts + ["(or " + " ".join(per) + ")"], want_model_of=[f"on_{b}" for b in order])
    samples.append(f"transfer: {len(order)} blocks: a successful path on which the credit is not computed from the recipient's balance as it is after the debit was stored: {v}")
    log(f"[c08] {samples[-1]}")
    if v == "unsat":
        wv, _, _ = duo.check(decls, asserts + ["(or " + " ".join(f"(and on_{b} (= {out('_0', b)} 90))" for b in returns) + ")"])
        if wv != "sat":
            inconcl.append(f"transfer: vacuity witness (a successful path) is {wv}")
    elif v == "sat":
        bad, outp = replay()
        desc = "transfer: the recipient's balance is read before the sender's new balance is stored (or the two legs differ): a transfer from an account to itself changes its balance"
        if bad is None:
            inconcl.append(desc + f" ({outp})")
        else:
            failures.append(dict(id="transfer-order", reproduced=bool(bad), description=desc + f" | native: {outp[:200]}"))
    else:
        inconcl.append(f"transfer: {detail}")
    return finish()
