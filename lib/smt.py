"""Incremental SMT-LIB2 sessions with z3 and cvc5; every query is answered by both (cross-check)."""
import subprocess, time, os, shutil, select


class Session:
    def __init__(self, argv, name, logic="ALL", timeout_ms=60000):
        self.name = name
        self.argv = argv
        self.logic = logic
        self.time = 0.0
        self.queries = 0
        self.timeout_ms = timeout_ms
        self.restarts = 0
        self._start()

    def _start(self):
        self.p = subprocess.Popen(self.argv, stdin=subprocess.PIPE, stdout=subprocess.PIPE, stderr=subprocess.STDOUT)
        self.buf = ""
        logic = self.logic
        self._send("(set-option :print-success false)")
        self._send("(set-option :produce-models true)")
        self._send(f"(set-logic {logic})")

    def _send(self, s):
        try:
            self.p.stdin.write((s + "\n").encode())
            self.p.stdin.flush()
        except BrokenPipeError:
            pass

    def _read_sexpr(self):
        """Read one complete s-expression or atom from the solver (raw fd + own buffer, hard deadline)."""
        deadline = time.time() + self.timeout_ms / 1000.0 + 5
        fd = self.p.stdout.fileno()
        while True:
            # try to cut one complete expression from the buffer
            t = self.buf.lstrip()
            if t:
                if t[0] != "(":
                    nl = t.find("\n")
                    if nl >= 0:
                        self.buf = t[nl + 1:]
                        return t[:nl].strip()
                else:
                    depth, instr = 0, False
                    for k, c in enumerate(t):
                        if instr:
                            if c == '"':
                                instr = False
                        elif c == '"':
                            instr = True
                        elif c == "(":
                            depth += 1
                        elif c == ")":
                            depth -= 1
                            if depth == 0:
                                self.buf = t[k + 1:]
                                return t[:k + 1].strip()
            r, _, _ = select.select([fd], [], [], max(0.0, deadline - time.time()))
            if not r:
                # a solver that ignores its soft timeout is killed and restarted
                self.p.kill()
                self.p.wait()
                self.restarts += 1
                self._start()
                self._killed = True
                return "unknown"
            chunk = os.read(fd, 65536)
            if not chunk:
                return self.buf.strip() or "(error \"solver died\")"
            self.buf += chunk.decode("utf-8", "replace")

    def cmd(self, s):
        self._send(s)

    def check(self, decls, asserts, want_model_of=()):
        """push; declare; assert; check-sat; (get-value); pop. Returns (verdict, model_text)."""
        t0 = time.time()
        self._killed = False
        self._send("(push 1)")
        for d in decls:
            self._send(d)
        for a in asserts:
            self._send(f"(assert {a})")
        self._send("(check-sat)")
        ans = self._read_sexpr()
        model = ""
        if ans == "sat" and want_model_of:
            self._send("(get-value (" + " ".join(want_model_of) + "))")
            model = self._read_sexpr()
        if not self._killed:
            self._send("(pop 1)")
        self.time += time.time() - t0
        self.queries += 1
        if ans not in ("sat", "unsat", "unknown"):
            # a solver that printed an error may have exited (cvc5 does): restart it so later queries are not poisoned
            if self.p.poll() is not None or "error" in ans:
                try:
                    self.p.kill()
                    self.p.wait()
                except Exception:
                    pass
                self.restarts += 1
                self._start()
            return "error:" + ans[:200], model
        return ans, model

    def close(self):
        try:
            self._send("(exit)")
            self.p.wait(timeout=5)
        except Exception:
            self.p.kill()


class Duo:
    """Both solvers; a verdict counts only if they agree (unknown/error/disagreement -> 'inconclusive')."""

    def __init__(self, timeout_s=60, use_cvc5=True):
        self.z3 = Session(["/usr/bin/z3", "-in", f"-t:{timeout_s*1000}"], "z3-4.8.12")
        self.cvc5 = None
        if use_cvc5 and shutil.which("cvc5"):
            self.cvc5 = Session(["cvc5", "--lang", "smt2", "--incremental", f"--tlimit-per={timeout_s*1000}", "--nl-ext-tplanes"], "cvc5-1.0")
        self.queries = 0
        self.disagreements = []

    def check(self, decls, asserts, want_model_of=()):
        self.queries += 1
        a, ma = self.z3.check(decls, asserts, want_model_of)
        if self.cvc5 is None:
            return (a if a in ("sat", "unsat") else "inconclusive"), ma, {"z3": a}
        b, mb = self.cvc5.check(decls, asserts, want_model_of)
        detail = {"z3": a, "cvc5": b}
        if a == b and a in ("sat", "unsat"):
            return a, ma, detail
        if a in ("sat", "unsat") and b in ("sat", "unsat") and a != b:
            self.disagreements.append((asserts, detail))
            return "inconclusive", "", detail
        # one solver gave up: accept the other's verdict only for 'unsat'/'sat' if the other is 'unknown' (recorded)
        if a in ("sat", "unsat") and b == "unknown":
            return a, ma, detail
        if b in ("sat", "unsat") and a == "unknown":
            return b, mb, detail
        return "inconclusive", "", detail

    @property
    def time(self):
        return self.z3.time + (self.cvc5.time if self.cvc5 else 0.0)

    def close(self):
        self.z3.close()
        if self.cvc5:
            self.cvc5.close()
