"""C32 / E2 — inductive overflow-freedom + spec-equality certificate for `fake_exponential`, from MIR."""
import re, time
import mir, smt, native
from mirsym import Exec, Val, CORE_MODELS, in_range, lit

FRACTIONS = {"cancun": 3338477, "prague": 5007716}
U128 = 1 << 128


def spec_sim(f, n, d, stop_on_ovf=False):
    """EIP-4844 fake_exponential over unbounded integers; also reports the first iteration whose
    intermediate values leave u128 (what a u128 implementation cannot represent)."""
    i, out, acc, accs, outs, ovf = 1, 0, f * d, [], [], None
    while acc > 0:
        accs.append(acc)
        outs.append(out)
        out += acc
        if ovf is None and (acc * n >= U128 or out >= U128 or d * i >= U128):
            ovf = i
            if stop_on_ovf:
                break
        acc = (acc * n) // (d * i)
        i += 1
        if i > 100000:
            break
    return out // d, accs, outs + [out], ovf


def first_overflow(d, hi=(1 << 64) - 1):
    """Smallest numerator for which the exact recurrence leaves u128 (monotone in n); None if none <= hi."""
    if spec_sim(1, hi, d, True)[3] is None:
        return None
    lo = 0
    # exponential search keeps simulations short
    step = d
    while spec_sim(1, min(hi, step), d, True)[3] is None:
        lo = step
        step *= 2
    hi = min(hi, step)
    while lo < hi:
        m = (lo + hi) // 2
        if spec_sim(1, m, d, True)[3] is not None:
            hi = m
        else:
            lo = m + 1
    return lo


def loop_header(fn):
    seen, stack, hdr = set(), [], None
    def dfs(b, path):
        nonlocal hdr
        seen.add(b)
        for _, s in mir.successors(fn.blocks[b].term):
            if s in path:
                hdr = s
            elif s not in seen:
                dfs(s, path | {s})
    dfs("bb0", {"bb0"})
    return hdr


def local_of(fn, name, ty):
    c = [l for n, l in fn.debug_all if n == name and fn.locals.get(l) == ty]
    if len(c) != 1:
        raise mir.Unsupported(f"cannot identify local {name}:{ty} in {fn.name}: {c}")
    return c[0]


def run(tier, log, seed, which=None):
    t0 = time.time()
    text = mir.dump("primitives", log)
    funcs = mir.parse_functions(text)
    cands = mir.find(funcs, "fake_exponential")
    if len(cands) != 1:
        return dict(status="inconclusive", reason=f"expected one fake_exponential in MIR, found {len(cands)}", queries=0, solver_s=0.0)
    fn = cands[0]
    hdr = loop_header(fn)
    if hdr is None:
        return dict(status="inconclusive", reason="no loop found in fake_exponential MIR", queries=0, solver_s=0.0)
    Lf, Ln, Ld = local_of(fn, "factor", "u128"), local_of(fn, "numerator", "u128"), local_of(fn, "denominator", "u128")
    Li, Lo, La = local_of(fn, "i", "u128"), local_of(fn, "output", "u128"), local_of(fn, "numerator_accum", "u128")
    duo = smt.Duo(timeout_s=60)
    failures, inconcl, samples = [], [], []
    decls = ["(declare-const n Int)", "(declare-const acc Int)", "(declare-const out Int)"]
    fractions = FRACTIONS if which is None else {which: FRACTIONS[which]}

    def ask(pre, neg, what):
        v, model, detail = duo.check(decls, pre + [neg], want_model_of=("n", "acc", "out"))
        if v == "unsat":
            return True
        if v == "sat":
            return ("sat", model)
        inconcl.append(f"{what}: {detail}")
        return None

    # ---- encoder validation: the repository's own fake_exp unit-test vectors through real function and encoding
    vectors = [(1, 0, 1), (38493, 0, 1000), (0, 1234, 2345), (1, 2, 1), (1, 4, 2), (1, 3, 1), (1, 6, 2), (1, 4, 1), (1, 8, 2),
               (10, 8, 2), (11, 8, 2), (1, 5, 1), (1, 5, 2), (2, 5, 2), (1, 50000000, 2225652)]
    validated = 0
    for (f, n, d) in vectors:
        enc = encoded_eval(fn, text, hdr, (Lf, Ln, Ld, Li, Lo, La), f, n, d, duo)
        st, real = native.call("debug", "fake_exponential", f, n, d, log=log)
        if enc is None or st != "ok" or int(real) != enc or enc != spec_sim(f, n, d)[0]:
            duo.close()
            return dict(status="inconclusive", reason=f"encoder validation failed on unit-test vector {(f,n,d)}: encoding={enc} real={st} {real} spec={spec_sim(f,n,d)[0]}",
                        queries=duo.queries, solver_s=duo.time)
        validated += 1
    log(f"[c32/e2] encoder validated on {validated} unit-test vectors (real function == encoding == exact recurrence)")

    for fname, d in fractions.items():
        nf = first_overflow(d)
        N0 = (1 << 64) - 1 if nf is None else nf - 1
        _, B, O, ovf = spec_sim(1, N0, d)
        assert ovf is None
        K = len(B)
        B = B + [0, 0]
        O = O + [O[-1], O[-1]]
        ks = list(range(1, K + 2))
        nfail0 = len(failures)
        if tier == "quick":
            pass  # all iterations are cheap; same obligations in both tiers
        ex = Exec(fn, consts={"__mir_text__": text}, call_models=CORE_MODELS)
        ex.abstract_mul = True   # acc*n becomes the shared constant P; its bound is a separately discharged NIA lemma
        P = ex.product("acc", "n")
        decls = ["(declare-const n Int)", "(declare-const acc Int)", "(declare-const out Int)", f"(declare-const {P} Int)"]
        # entry: bb0 -> header
        st0 = {"_1": Val("int", "1", "u64"), "_2": Val("int", "n", "u64"), "_3": Val("int", lit(d), "u64")}
        pre = [f"(<= 0 n)", f"(<= n {N0})"]
        for oc in ex.run("bb0", st0, cuts={hdr}):
            pcs = pre + oc.pc
            if oc.end[0] == "panic":
                r = ask(pcs, "true", f"{fname} entry panic {oc.end[1]}")
                if r is not True and r is not None:
                    failures.append(dict(id=f"{fname}-entry-panic", description=f"fake_exponential(1, n, {d}) can panic before the loop: {oc.end[1]} model={r[1]}"))
            elif oc.end[0] == "cut":
                s = oc.state
                post = f"(and (= {s[La].term} {d}) (= {s[Lo].term} 0) (= {s[Li].term} 1) (= {s[Ln].term} n) (= {s[Ld].term} {d}))"
                r = ask(pcs, f"(not {post})", f"{fname} entry state")
                if r is not True and r is not None:
                    failures.append(dict(id=f"{fname}-entry-state", description=f"loop entry state differs from (acc=factor*d, out=0, i=1): model={r[1]}"))
            else:
                failures.append(dict(id=f"{fname}-entry-return", description="function returns before the loop"))
        # inductive steps
        for k in ks:
            st = {Lf: Val("int", "1", "u128"), Ln: Val("int", "n", "u128"), Ld: Val("int", lit(d), "u128"),
                  Li: Val("int", lit(k), "u128"), Lo: Val("int", "out", "u128"), La: Val("int", "acc", "u128")}
            pre = ["(<= 0 n)", f"(<= n {N0})", "(<= 0 acc)", f"(<= acc {B[k-1]})", "(<= 0 out)", f"(<= out {O[k-1]})"]
            # lemma (non-linear, product only): 0 <= acc*n <= B_k*N0 under the pre-state bounds
            r = ask(pre, f"(not (and (<= 0 (* acc n)) (<= (* acc n) {B[k-1] * N0})))", f"{fname} k={k} product-bound lemma")
            if r is not True:
                if r is not None:
                    inconcl.append(f"{fname} k={k}: product bound lemma refuted?! {r}")
                break
            pre = pre + [f"(<= 0 {P})", f"(<= {P} {B[k-1] * N0})", f"(=> (= acc 0) (= {P} 0))"]
            ocs = ex.run(hdr, st, cuts={hdr})
            if len(ex.products) != 1:
                inconcl.append(f"{fname}: unexpected symbolic products in loop body: {list(ex.products)}")
                break
            for oc in ocs:
                pcs = pre + oc.pc
                if oc.end[0] == "panic":
                    r = ask(pcs, "true", f"{fname} k={k} panic")
                    if r is not True and r is not None:
                        failures.append(dict(id=f"{fname}-overflow", k=k, d=d, model=r[1],
                                             description=f"iteration {k}: `{oc.end[1]}` reachable for some numerator <= {N0} (denominator {d}) although every exact intermediate fits in u128; model {r[1]}"))
                elif oc.end[0] == "cut":
                    s = oc.state
                    post = (f"(and (= {s[La].term} (div {P} {d * k})) (= {s[Lo].term} (+ out acc)) (= {s[Li].term} {k + 1}) "
                            f"(= {s[Ln].term} n) (= {s[Ld].term} {d}) (<= {s[La].term} {B[k]}) (<= {s[Lo].term} {O[k]}))")
                    r = ask(pcs, f"(not {post})", f"{fname} k={k} step")
                    if r is not True and r is not None:
                        failures.append(dict(id=f"{fname}-step", k=k, d=d, model=r[1],
                                             description=f"iteration {k}: loop body differs from the EIP-4844 step (out+=acc; acc=acc*n/(d*i); i+=1) for denominator {d}; model {r[1]}"))
                elif oc.end[0] == "return":
                    post = f"(= {oc.end[1].term} (div out {d}))"
                    r = ask(pcs + ["(= acc 0)"], f"(not {post})", f"{fname} k={k} return")
                    if r is not True and r is not None:
                        failures.append(dict(id=f"{fname}-return", k=k, d=d, model=r[1], description=f"return value differs from output/denominator; model {r[1]}"))
                    r = ask(pcs, "(not (= acc 0))", f"{fname} k={k} exit condition")
                    if r is not True and r is not None:
                        failures.append(dict(id=f"{fname}-exit", k=k, d=d, model=r[1], description=f"loop exits while accumulator is non-zero; model {r[1]}"))
            if k == K + 1:
                # B[K] == 0: the loop must have terminated
                pass
            if len(failures) > nfail0:
                break
        samples.append(f"{fname}: denominator {d}, numerators 0..={N0}, {K} loop iterations certified, per-iteration bounds B_k (max {max(B).bit_length()} bits)")
        log(f"[c32/e2] {fname}: certificate for all numerators <= {N0}: K={K} iterations, queries so far {duo.queries}, {duo.time:.1f}s, failures={len(failures)}")
        # confirm step/overflow counterexamples natively before reporting them
        for f_ in failures:
            if "reproduced" in f_:
                continue
            f_["reproduced"] = confirm_natively(f_, d, N0, log)
        # ---- boundary: first numerator whose exact intermediates leave u128
        if nf is not None and len(failures) == nfail0:
            exact, accs, outs, ovfk = spec_sim(1, nf, d)
            sd, rd = native.call("debug", "fake_exponential", 1, nf, d, log=log)
            sr, rr = native.call("release", "fake_exponential", 1, nf, d, log=log)
            # solver side: at iteration ovfk with the exact state the overflow assertion is reachable
            st = {Lf: Val("int", "1", "u128"), Ln: Val("int", "n", "u128"), Ld: Val("int", lit(d), "u128"),
                  Li: Val("int", lit(ovfk), "u128"), Lo: Val("int", "out", "u128"), La: Val("int", "acc", "u128")}
            pre = [f"(= n {nf})", f"(= acc {accs[ovfk-1]})", f"(= out {outs[ovfk-1]})"]
            hit = False
            for oc in ex.run(hdr, st, cuts={hdr}):
                if oc.end[0] == "panic":
                    v, _, _ = duo.check(decls, pre + oc.pc)
                    hit = hit or v == "sat"
            wrong = (sd == "panic") or (sr == "ok" and int(rr) != exact) or sr == "panic"
            if hit and wrong and exact < U128:
                failures.append(dict(
                    id=f"{fname}-first-wrap", reproduced=True,
                    description=f"fake_exponential u128 product overflows: first numerator {nf} (denominator {d}), iteration {ovfk}; "
                                f"debug build: {sd} {rd}; release build returns {rr} but the exact EIP-4844 value is {exact} ({exact.bit_length()} bits, fits in 128)"))
            elif hit != wrong:
                inconcl.append(f"{fname}: boundary numerator {nf}: solver says overflow reachable={hit}, native says wrong={wrong}")
    q, tm = duo.queries, duo.time
    duo.close()
    res = dict(queries=q, solver_s=tm, engine="mir->smtlib (z3 4.8.12 + cvc5 1.0, Int encoding of u128 with explicit overflow flags)",
               bounds="; ".join(samples), detail=f"encoder validated on {validated} unit-test vectors against the native function")
    if inconcl:
        res.update(status="inconclusive", reason="; ".join(inconcl[:3]))
    elif failures:
        res.update(status="fail", failures=failures, reason=failures[0]["description"][:200])
    else:
        res.update(status="pass")
    return res


def confirm_natively(f_, d, N0, log):
    """A certificate step can fail on an unreachable (acc, n) pair; only a numerator on which the real function
    differs from the exact recurrence is reported."""
    cands = []
    m = re.search(r"\(n (\d+)\)", f_.get("model", ""))
    if m:
        cands.append(int(m.group(1)))
    cands += [N0, N0 // 2, d, 2 * d, 10 * d, 1, 0, N0 - 1]
    for n in cands:
        if n < 0 or n > N0:
            continue
        exact = spec_sim(1, n, d)[0]
        for prof in ("debug", "release"):
            s, r = native.call(prof, "fake_exponential", 1, n, d, log=log)
            if s != "ok" or int(r) != exact:
                f_["description"] += f" | native {prof}: fake_exponential(1,{n},{d}) = {s} {r}, exact {exact}"
                f_["id"] += f"-n{n}"
                return True
    return False


def encoded_eval(fn, text, hdr, L, f, n, d, duo):
    """Run the encoding on concrete inputs by asking the solver for the unique successor state of each step."""
    Lf, Ln, Ld, Li, Lo, La = L
    ex = Exec(fn, consts={"__mir_text__": text}, call_models=CORE_MODELS)
    st0 = {"_1": Val("int", lit(f), "u64"), "_2": Val("int", lit(n), "u64"), "_3": Val("int", lit(d), "u64")}
    decl = ["(declare-const r_acc Int)", "(declare-const r_out Int)", "(declare-const r_i Int)", "(declare-const r_ret Int)"]
    state = None
    for oc in ex.run("bb0", st0, cuts={hdr}):
        v, _, _ = duo.check([], oc.pc or ["true"])
        if v == "sat":
            if oc.end[0] != "cut":
                return None
            s = oc.state
            v, model, _ = duo.check(decl, [f"(= r_acc {s[La].term})", f"(= r_out {s[Lo].term})", f"(= r_i {s[Li].term})"], ("r_acc", "r_out", "r_i"))
            state = [int(x) for x in re.findall(r"\(r_\w+ (\d+)\)", model)]
    if state is None:
        return None
    for _ in range(400):
        acc, out, i = state
        st = {Lf: Val("int", lit(f), "u128"), Ln: Val("int", lit(n), "u128"), Ld: Val("int", lit(d), "u128"),
              Li: Val("int", lit(i), "u128"), Lo: Val("int", lit(out), "u128"), La: Val("int", lit(acc), "u128")}
        nxt = None
        for oc in ex.run(hdr, st, cuts={hdr}):
            v, _, _ = duo.check([], oc.pc or ["true"])
            if v != "sat":
                continue
            if oc.end[0] == "panic":
                return None
            if oc.end[0] == "return":
                v, model, _ = duo.check(decl, [f"(= r_ret {oc.end[1].term})"], ("r_ret",))
                return int(re.search(r"\(r_ret (\d+)\)", model).group(1))
            s = oc.state
            v, model, _ = duo.check(decl, [f"(= r_acc {s[La].term})", f"(= r_out {s[Lo].term})", f"(= r_i {s[Li].term})"], ("r_acc", "r_out", "r_i"))
            nxt = [int(x) for x in re.findall(r"\(r_\w+ (\d+)\)", model)]
        if nxt is None:
            return None
        state = nxt
    return None
