"""C31, `no loaded precompiles ... leak from one transaction into the next` across a spec change on a reused EVM.  Two per-transaction reset points
carry this; each is decided over every returning path of its MIR control-flow graph (path search, z3 + cvc5):

(1) EvmContext::set_precompiles(self, precompiles): on every path `self.precompiles` is overwritten with the ARGUMENT (the set the handler of the current
    spec just built) and the warm set is extended - no path keeps what an earlier transaction loaded;
(2) mainnet load_accounts::<SPEC>: on every path JournaledState::set_spec_id is called with SPEC::SPEC_ID before anything else is loaded, so the journal
    never applies the fork rules of an earlier transaction's spec (JournaledState::clear keeps the spec, Evm::modify_spec_id only swaps the handler).

Replay: `reuse_spec_change` - an EVM that ran a transaction under ISTANBUL / CANCUN / SHANGHAI, switched in place to BERLIN / SHANGHAI / CANCUN, against a
freshly built EVM of the new spec (MODEXP pricing; SELFDESTRUCT of an existing contract)."""
import re

import mir
import native
import smt
from jobs_e3 import path_search2


def _replay(log, cache={}):
    if "r" not in cache:
        st, out = native.call("debug", "reuse_spec_change", log=log)
        cache["r"] = (None, f"{st} {out}") if st != "ok" else (re.findall(r"\[(reuse_\w+) [^\]]*? MISMATCH\]", out), out)
    return cache["r"]


def run_reuse_spec_change(tier, log, seed):
    text = mir.dump("revm", log)
    funcs = mir.parse_functions(text)
    duo = smt.Duo(timeout_s=30)
    samples, failures, inconcl = [], [], []

    def settle(name, token, v, wv, info, what, recognised=True):
        samples.append(f"{name}: {info.get('blocks')} blocks: a returning path on which {what}: {v} (witness: {wv})")
        log(f"[c31] {samples[-1]}")
        if recognised and v == "unsat" and wv == "sat":
            return
        bad, out = _replay(log)
        desc = f"{name}: {what}" + (f" (path {'>'.join(info.get('path', [])[-6:])})" if v == "sat" else " - shape not recognised")
        if bad is None:
            inconcl.append(f"{desc}; native replay failed: {out}")
        elif v == "sat" or token in bad:
            failures.append(dict(id=f"{token}", reproduced=(token in bad), description=desc + f" | native: {out[:400]}"))
        else:
            inconcl.append(desc + " (native: the reused EVM agrees with a fresh one)")
    # ---- (1) set_precompiles
    cands = [f for n, fl in funcs.items() for f in fl if re.search(r"evm_context::<impl at [^>]*>::set_precompiles$", n)]
    if len(cands) != 1:
        inconcl.append(f"set_precompiles: {len(cands)} MIR bodies")
    else:
        fn = cands[0]

        def from_arg(local, depth=0):
            if local == "_2":
                return True
            ds = [m.group(1) for b in fn.blocks.values() for s_ in b.stmts for m in [re.match(r"^%s = move (_\d+)$" % re.escape(local), s_)] if m]
            return depth < 4 and len(ds) == 1 and from_arg(ds[0], depth + 1)
        delta, other_stores = {}, 0
        for b in fn.blocks.values():
            for s_ in b.stmts:
                m = re.match(r"^\(\(\*_1\)\.\d+: [\w:]*ContextPrecompiles<DB>\) = move (_\d+)$", s_)
                if m and from_arg(m.group(1)):
                    delta.setdefault(b.name, {})["store"] = "1"
                elif m:
                    other_stores += 1
            c = mir.call_of(b.term or "")
            if c and re.search(r"as Extend<Address>>::extend", c[1]):
                delta.setdefault(b.name, {})["warm"] = "1"
        v, info = path_search2(fn, duo, ["store", "warm"], delta, lambda val, b_: f"(or (= {val['store']} 0) (= {val['warm']} 0))")
        wv, _ = path_search2(fn, duo, ["store", "warm"], delta, lambda val, b_: f"(and (= {val['store']} 1) (= {val['warm']} 1))")
        settle("EvmContext::set_precompiles", "reuse_precompiles", v, wv, info,
               "the precompiles of the context are not replaced by the ones handed in, or their addresses are not added to the warm set", recognised=(other_stores == 0))
    # ---- (2) load_accounts
    cands = [f for n, fl in funcs.items() for f in fl if (n == "load_accounts" or n.endswith("mainnet::pre_execution::load_accounts")) and "Context<EXT, DB>" in f.sig and "PreExecutionHandler" not in f.sig]
    if len(cands) != 1:
        inconcl.append(f"load_accounts: {len(cands)} MIR bodies")
    else:
        fn = cands[0]
        delta = {}
        helpers = []
        for b in fn.blocks.values():
            c = mir.call_of(b.term or "")
            if not c:
                continue
            if re.search(r"JournaledState::set_spec_id$", c[1]) and re.search(r"const <SPEC as [\w:]*Spec>::SPEC_ID$", mir.split_top(c[2])[-1].strip()):
                delta.setdefault(b.name, {})["setspec"] = "1"
            elif re.search(r"JournaledState::(load_account|initial_account_load|load_code)", c[1]):
                # loads made before the spec is set would run under the old rules
                delta.setdefault(b.name, {})["early"] = f"(ite (= setspec_{b.name} 0) 1 0)"
        v, info = path_search2(fn, duo, ["setspec", "early"], delta, lambda val, b_: f"(or (= {val['setspec']} 0) (> {val['early']} 0))")
        wv, _ = path_search2(fn, duo, ["setspec", "early"], delta, lambda val, b_: f"(and (= {val['setspec']} 1) (= {val['early']} 0))")
        settle("mainnet::load_accounts", "reuse_journal_spec", v, wv, info,
               "the journal is not given the spec of the running handler (set_spec_id(SPEC::SPEC_ID)) before accounts are loaded")
    q, tm = duo.queries, duo.time
    duo.close()
    res = dict(queries=q, solver_s=tm, engine="mir-cfg -> smtlib path search (z3 4.8.12 + cvc5 1.0)", bounds="; ".join(samples),
               detail="every returning path of EvmContext::set_precompiles and of mainnet load_accounts (unwind edges excluded, branch conditions free)")
    if any(f.get("reproduced") for f in failures):
        res.update(status="fail", failures=failures, reason=failures[0]["description"][:300])
    elif inconcl:
        res.update(status="inconclusive", reason="; ".join(map(str, inconcl))[:600])
    elif failures:
        res.update(status="fail", failures=failures, reason=failures[0]["description"][:300])
    else:
        res.update(status="pass")
    return res
