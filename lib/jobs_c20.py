"""C20, `caching and block-hash pruning never change an answer` for <State<DB> as Database>::block_hash.

The answer of a query must not be taken from the cache after something was pruned from it in the same call (a pruned entry reads as absent), and a miss
must consult the wrapped database.  From the MIR of State::block_hash: prune sites = calls that remove entries from the BTreeMap (OccupiedEntry::remove /
remove_entry, BTreeMap::{remove, pop_first, pop_last, retain, split_off, clear}, or an assignment to the map field), read sites = calls that read a value
out of it (OccupiedEntry::get / into_mut, VacantEntry::insert, BTreeMap::{get, get_mut, get_key_value, index}); the query handed to the
solvers: a read site reachable (in the control-flow graph, loops included) from a prune site, or no call to the wrapped Database::block_hash.
Replay: `block_hash_window` (query sequences around the 256-block window, ascending, descending, repeated) against the wrapped database's own answers."""
import re

import mir
import native
import smt
from jobs_e3 import normal_blocks, edges

PRUNE = r"(OccupiedEntry::<.*>::remove(_entry)?$|BTreeMap::<.*>::(remove|remove_entry|pop_first|pop_last|retain|split_off|clear|extract_if)(::<.*>)?$)"
READ = r"(OccupiedEntry::<.*>::(get|get_mut|into_mut)$|VacantEntry::<.*>::insert$|BTreeMap::<.*>::(get|get_mut|get_key_value)(::<.*>)?$|as Index<.*>>::index$)"


def run_block_hash_pruning(tier, log, seed):
    text = mir.dump("revm", log)
    funcs = mir.parse_functions(text)
    duo = smt.Duo(timeout_s=30)
    samples, failures, inconcl = [], [], []
    cands = [f for n, fl in funcs.items() for f in fl if re.search(r"states::state::<impl at [^>]*>::block_hash$", n)]
    if len(cands) != 1:
        inconcl.append(f"State::block_hash: {len(cands)} MIR bodies")
    else:
        fn = cands[0]
        blocks = normal_blocks(fn)
        es = edges(fn, blocks)
        adj = {}
        for a, _, b in es:
            adj.setdefault(a, set()).add(b)
        prune, read, dbq = [], [], []
        for bn in sorted(blocks, key=lambda x: int(x[2:])):
            b = fn.blocks[bn]
            c = mir.call_of(b.term or "")
            if c and re.search(PRUNE, c[1]):
                prune.append(bn)
            elif c and re.search(READ, c[1]):
                read.append(bn)
            elif c and re.search(r"as [\w:]*Database>::block_hash$", c[1]):
                dbq.append(bn)
            if any(re.match(r"^\(\(\*_1\)\.\d+: [\w:]*BTreeMap<u64, ", s_) for s_ in b.stmts):
                prune.append(bn)  # the map field is overwritten as a whole

        def reach(src):
            seen, work = set(), list(adj.get(src, ()))
            while work:
                x = work.pop()
                if x in seen:
                    continue
                seen.add(x)
                work += list(adj.get(x, ()))
            return seen
        late = sorted({(p, r_) for p in prune for r_ in read if r_ in reach(p)})
        # one Boolean per fact read off the graph; the query is the policy's negation
        decls = ["(declare-const read_after_prune Bool)", "(declare-const asks_db Bool)", "(declare-const reads Bool)"]
        facts = [f"(= read_after_prune {'true' if late else 'false'})", f"(= asks_db {'true' if len(dbq) == 1 else 'false'})", f"(= reads {'true' if read else 'false'})"]
        v, model, detail = duo.check(decls, facts + ["(or read_after_prune (not asks_db) (not reads))"])
        wv, _, _ = duo.check(decls, facts + ["(and reads asks_db)"])
        samples.append(f"State::block_hash: {len(blocks)} blocks, prune sites {prune}, cache read sites {read}, database query {dbq}: a cache read reachable from a prune site "
                       f"(or no database query): {v} (witness reads+query: {wv}); pairs {late[:4]}")
        log(f"[c20] {samples[-1]}")
        if not (v == "unsat" and wv == "sat"):
            st, out = native.call("debug", "block_hash_window", log=log)
            bad = re.findall(r"\[block_hash_window ([^\]]*?) MISMATCH\]", out) if st == "ok" else None
            desc = (f"State::block_hash reads its answer from the cache at {sorted({r_ for _, r_ in late})} after entries may have been pruned at {sorted({p for p, _ in late})}"
                    if late else f"State::block_hash: {len(dbq)} database queries, {len(read)} cache reads (shape not recognised)")
            if bad is None:
                inconcl.append(f"{desc}; native replay failed: {st} {out[:200]}")
            elif v == "sat":
                failures.append(dict(id="block-hash-read-after-prune", reproduced=bool(bad), description=desc + (f" | native, wrong answers: {'; '.join(bad)[:400]}" if bad else " | native: every query sequence answers like the wrapped database")))
            else:
                inconcl.append(desc + f" ({detail})")
    q, tm = duo.queries, duo.time
    duo.close()
    res = dict(queries=q, solver_s=tm, engine="mir-cfg reachability facts -> smtlib (z3 4.8.12 + cvc5 1.0)", bounds="; ".join(samples),
               detail="<State<DB> as Database>::block_hash: all blocks and non-unwind edges, loops included (reachability is flow-insensitive inside loops)")
    if any(f.get("reproduced") for f in failures):
        res.update(status="fail", failures=failures, reason=failures[0]["description"][:300])
    elif inconcl:
        res.update(status="inconclusive", reason="; ".join(map(str, inconcl))[:600])
    elif failures:
        res.update(status="fail", failures=failures, reason=failures[0]["description"][:300])
    else:
        res.update(status="pass")
    return res
