"""Per-property obligations: Kani harnesses (E1) and SMT/MIR jobs (E2/E3)."""
from kani_runner import ARRAYS_UF

PROPS = {}


def H(name, tier="quick", flags=(), timeout=600, mem_gb=8, bounds="", expect_fail=False, **kw):
    d = dict(name=name, tier=tier, flags=list(flags), timeout=timeout, mem_gb=mem_gb, bounds=bounds, expect_fail=expect_fail)
    d.update(kw)
    return d


# --------------------------------------------------------------------------- C13
PROPS["C13"] = dict(
    functions=["revm_interpreter::Gas::{new,new_spent,record_cost,erase_cost,spend_all,record_refund,set_final_refund,"
               "set_refund,set_spent,spent,spent_sub_refunded,remaining_63_of_64_parts} (crates/interpreter/src/gas.rs)"],
    bounds="no value bound: every u64 limit/cost/returned amount and every i64 refund; single-step induction from every state with "
           "remaining<=limit; additionally all method sequences of length 4 (6 methods, symbolic arguments) from Gas::new(limit)",
    outside="sequences longer than 4 are covered only through the single-step inductive harnesses (invariant remaining<=limit)",
    assumptions=["erase_cost(returned) is only called with returned <= spent (callers return gas that was charged to the parent)",
                 "record_refund: |refunded + refund| < 2^63", "set_final_refund: refunded >= 0 at the end of a transaction",
                 "Kani 0.68/CBMC 6.11/CaDiCaL and rustc MIR->goto translation are trusted"],
    harnesses=[
        H("c13::c13_new", bounds="all u64 limits"),
        H("c13::c13_record_cost", bounds="all states (two constructions) x all u64 costs"),
        H("c13::c13_erase_cost", bounds="all states x returned<=spent"),
        H("c13::c13_spend_all_and_set_spent", bounds="all states x all u64"),
        H("c13::c13_spent_identities", bounds="all states"),
        H("c13::c13_set_final_refund", bounds="all states with refunded>=0 x london flag", timeout=900),
        H("c13::c13_record_refund", bounds="all states x all i64 with in-range sum"),
        H("c13::c13_sequence_4", bounds="all u64 limits x 6^4 method sequences with symbolic arguments", timeout=900),
        H("c13::c13_twin_must_fail", expect_fail=True, bounds="vacuity twin"),
    ],
)


# --------------------------------------------------------------------------- C32
import jobs_c32
PROPS["C32"] = dict(
    functions=["revm_primitives::calc_excess_blob_gas", "revm_primitives::fake_exponential", "revm_primitives::calc_blob_gasprice (crates/primitives/src/utilities.rs)"],
    bounds="calc_excess_blob_gas: all u64 triples (Kani). calc_blob_gasprice: all excess <= update fraction per schedule, unwind 14 (Kani). "
           "fake_exponential (MIR->SMT, z3+cvc5): factor 1, both update fractions, ALL numerators 0..=N0 where N0+1 is the first numerator whose exact "
           "intermediates leave u128 (192204552 Cancun / 284284038 Prague): per-iteration inductive certificate (K<=168 iterations), loop body == EIP-4844 step, "
           "no overflow, termination; boundary numerator N0+1 decided by solver and replayed natively in debug and release.",
    outside="numerators above N0+1 (known finding D8 from N0+1 upward); factors other than MIN_BLOB_GASPRICE=1; denominators other than the two constants",
    assumptions=["product symbol P stands for acc*n; its bound 0<=P<=B_k*N0 is discharged per iteration as a separate non-linear query",
                 "per-iteration bounds B_k/O_k are hints computed by exact big-integer simulation and are checked by the solver (inductive)",
                 "nightly MIR of the function is faithful to what stable rustc compiles (validated each run on 15 unit-test vectors against the native function)",
                 "Kani/CBMC, z3 4.8.12, cvc5 1.0 trusted"],
    harnesses=[
        H("c32::c32_excess_blob_gas_all_u64", bounds="all (excess, used, target) u64 triples whose exact result fits u64"),
        H("c32::c32_constants", bounds="constants + zero excess"),
        H("c32::c32_price_cancun_le_fraction", bounds="excess <= 3338477, unwind 14", timeout=1500),
        H("c32::c32_price_prague_le_fraction", bounds="excess <= 5007716, unwind 14", timeout=1500),
        H("c32::c32_twin_must_fail", expect_fail=True, bounds="vacuity twin"),
    ],
    jobs=[dict(name="e2::fake_exponential_certificate", fn=jobs_c32.run)],
)

# --------------------------------------------------------------------------- manifest text per claimed property
CLAIMS = {
    "C13": dict(
        text="Bounded model checking of the compiled Gas meter with Kani/CBMC: every method is decided for all 64-bit values from every "
             "state satisfying remaining<=limit (single-step induction), plus all 4-step method sequences against an unbounded-integer model. "
             "The solver covers the borrow/boundary cases (cost == remaining+1, refund cap at spent/5) that sampled tests cannot enumerate.",
        note="Trusted: Kani 0.68 MIR->goto translation, CBMC 6.11 + CaDiCaL. Assumes erase_cost(returned<=spent), |refund sum|<2^63, "
             "refunded>=0 before set_final_refund. Sequences >4 steps only via the inductive invariant.",
        technique="Kani/CBMC bounded model checking of the real Gas methods (SAT, full 64-bit domain, single-step induction + 4-step sequences)",
        design_ref="DESIGN.md §5 C13"),
    "C32": dict(
        text="calc_excess_blob_gas is decided for all u64 triples by CBMC. fake_exponential is translated from the nightly MIR dump into SMT-LIB "
             "(integers with explicit u128 overflow flags) and an inductive per-iteration certificate is discharged by z3 and cvc5: for every "
             "numerator up to the first one whose exact intermediates exceed u128 the loop body equals the EIP-4844 step, never overflows and "
             "terminates, hence the result equals the unbounded-integer definition. The boundary numerator is decided by the solver and replayed natively.",
        note="Bounded: numerators <= 192204552 (Cancun) / 284284038 (Prague); from the next numerator on the u128 product wraps (known finding, "
             "listed in known_findings.txt). Trusted: nightly MIR == compiled semantics (validated on the unit-test vectors each run), z3, cvc5, Kani/CBMC.",
        technique="MIR->SMT-LIB inductive certificate (z3+cvc5) for fake_exponential; Kani/CBMC for calc_excess_blob_gas and low-range price",
        engine="kani-cbmc + smt-mir",
        design_ref="DESIGN.md §5 C32"),
}
SMT_SERVES = {"C32"}

# --------------------------------------------------------------------------- not applicable (reason shown in MANIFEST.json)
NOT_APPLICABLE = {
    "C01": "whole-transaction equivalence with the execution specification needs symbolic execution of interpreter + call loop + journal + hash maps against a reference EVM; a single journaled transfer+revert already exhausts CBMC (DESIGN §2), and no reference implementation exists to encode. Its kernels are claimed under C02-C05, C12-C14.",
}
