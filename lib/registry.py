"""Per-property obligations: Kani harnesses (E1) and SMT/MIR jobs (E2/E3)."""
from kani_runner import ARRAYS_UF

PROPS = {}


def H(name, tier="quick", flags=(), timeout=600, mem_gb=8, bounds="", expect_fail=False, **kw):
    d = dict(name=name, tier=tier, flags=list(flags), timeout=timeout, mem_gb=mem_gb, bounds=bounds, expect_fail=expect_fail)
    d.update(kw)
    return d


# --------------------------------------------------------------------------- C03
_C03_A = ["add", "sub", "lt", "gt", "slt", "sgt", "eq", "iszero", "and", "or", "xor", "not", "byte", "shl", "shr", "sar",
          "shl_petersburg", "signextend"]
PROPS["C03"] = dict(
    functions=["revm_interpreter::instructions::arithmetic::{add, sub, signextend}",
               "revm_interpreter::instructions::bitwise::{lt, gt, slt, sgt, eq, iszero, bitand, bitor, bitxor, not, byte, shl, shr, sar}",
               "revm_interpreter::instructions::i256::i256_cmp", "macros gas!/pop_top!/check! as expanded in those functions"],
    bounds="Group A: all 2^256 values of every operand and of the word below them, all u64 gas values; stack depth arity+1 (functional harness) "
           "and arity-1 (underflow harness); SPEC = LatestSpec, PetersburgSpec, ByzantiumSpec for the shift gate; unwind 6",
    outside="MUL DIV SDIV MOD SMOD ADDMOD MULMOD EXP (group B) are not yet decided here; stack depths other than arity-1/arity+1; "
            "the Interpreter is assembled field by field with empty code and an 8-word stack buffer (these opcodes never push or read code)",
    assumptions=["reference models are limb-wise (carry chains, funnel shifts, explicit sign tests) and do not use ruint",
                 "NoHost: any host call is a failure", "Kani/CBMC/CaDiCaL trusted"],
    harnesses=[H("c03::c03_" + n, bounds="all operands x all gas", timeout=900, mem_gb=6) for n in _C03_A]
    + [H("c03::c03_" + n + "::underflow", bounds="one operand short", timeout=600, mem_gb=4) for n in _C03_A]
    + [H("c03::c03_shifts_not_activated_before_constantinople", bounds="SHL/SHR/SAR under ByzantiumSpec", mem_gb=4),
       H("c03::c03_twin_must_fail", expect_fail=True, bounds="vacuity twin", mem_gb=6)],
)

# --------------------------------------------------------------------------- C13
PROPS["C13"] = dict(
    functions=["revm_interpreter::Gas::{new,new_spent,record_cost,erase_cost,spend_all,record_refund,set_final_refund,"
               "set_refund,set_spent,spent,spent_sub_refunded,remaining_63_of_64_parts} (crates/interpreter/src/gas.rs)"],
    bounds="no value bound: every u64 limit/cost/returned amount and every i64 refund; single-step induction from every state with "
           "remaining<=limit; additionally all method sequences of length 4 (6 methods, symbolic arguments) from Gas::new(limit)",
    outside="sequences longer than 4 are covered only through the single-step inductive harnesses (invariant remaining<=limit)",
    assumptions=["erase_cost(returned) is only called with returned <= spent (callers return gas that was charged to the parent)",
                 "record_refund: |refunded + refund| < 2^63", "set_final_refund: refunded >= 0 at the end of a transaction",
                 "Kani 0.68/CBMC 6.11/CaDiCaL and rustc MIR->goto translation are trusted"],
    harnesses=[
        H("c13::c13_new", bounds="all u64 limits"),
        H("c13::c13_record_cost", bounds="all states (two constructions) x all u64 costs"),
        H("c13::c13_erase_cost", bounds="all states x returned<=spent"),
        H("c13::c13_spend_all_and_set_spent", bounds="all states x all u64"),
        H("c13::c13_spent_identities", bounds="all states"),
        H("c13::c13_set_final_refund", bounds="all states with refunded>=0 x london flag", timeout=900),
        H("c13::c13_record_refund", bounds="all states x all i64 with in-range sum"),
        H("c13::c13_sequence_4", bounds="all u64 limits x 6^4 method sequences with symbolic arguments", timeout=900),
        H("c13::c13_twin_must_fail", expect_fail=True, bounds="vacuity twin"),
    ],
)


# --------------------------------------------------------------------------- C32
import jobs_c32
PROPS["C32"] = dict(
    functions=["revm_primitives::calc_excess_blob_gas", "revm_primitives::fake_exponential", "revm_primitives::calc_blob_gasprice (crates/primitives/src/utilities.rs)"],
    bounds="calc_excess_blob_gas: all u64 triples (Kani). calc_blob_gasprice: all excess <= update fraction per schedule, unwind 14 (Kani). "
           "fake_exponential (MIR->SMT, z3+cvc5): factor 1, both update fractions, ALL numerators 0..=N0 where N0+1 is the first numerator whose exact "
           "intermediates leave u128 (192204552 Cancun / 284284038 Prague): per-iteration inductive certificate (K<=168 iterations), loop body == EIP-4844 step, "
           "no overflow, termination; boundary numerator N0+1 decided by solver and replayed natively in debug and release.",
    outside="numerators above N0+1 (known finding D8 from N0+1 upward); factors other than MIN_BLOB_GASPRICE=1; denominators other than the two constants",
    assumptions=["product symbol P stands for acc*n; its bound 0<=P<=B_k*N0 is discharged per iteration as a separate non-linear query",
                 "per-iteration bounds B_k/O_k are hints computed by exact big-integer simulation and are checked by the solver (inductive)",
                 "nightly MIR of the function is faithful to what stable rustc compiles (validated each run on 15 unit-test vectors against the native function)",
                 "Kani/CBMC, z3 4.8.12, cvc5 1.0 trusted"],
    harnesses=[
        H("c32::c32_excess_blob_gas_all_u64", bounds="all (excess, used, target) u64 triples whose exact result fits u64"),
        H("c32::c32_constants", bounds="constants + zero excess"),
        H("c32::c32_price_cancun_le_fraction", bounds="excess <= 3338477, unwind 14", timeout=1500),
        H("c32::c32_price_prague_le_fraction", bounds="excess <= 5007716, unwind 14", timeout=1500),
        H("c32::c32_twin_must_fail", expect_fail=True, bounds="vacuity twin"),
    ],
    jobs=[dict(name="e2::fake_exponential_certificate", fn=jobs_c32.run)],
)

# --------------------------------------------------------------------------- C14
PROPS["C14"] = dict(
    functions=["revm_interpreter::gas::{sstore_cost, sstore_refund, sload_cost, call_cost, selfdestruct_cost, extcodecopy_cost, verylowcopy_cost, "
               "keccak256_cost, log_cost, create2_cost, initcode_cost, exp_cost, memory_gas, memory_gas_for_len, cost_per_word, warm_cold_cost, "
               "warm_cold_cost_with_delegation, calc_tx_floor_cost, get_tokens_in_calldata, calculate_initial_tx_gas} (crates/interpreter/src/gas/calc.rs)",
               "revm_interpreter::num_words (crates/interpreter/src/interpreter/shared_memory.rs)"],
    bounds="all u64 lengths <= 2^64-32 (top 31 lengths: separate harness, known finding D6); all 2^768 (original,present,new) storage triples; all u64 gas; "
           "every defined SpecId (symbolic via try_from_u8); all 256-bit exponents; calldata <= 8 symbolic bytes; access list <= 2 items x <= 2 keys; "
           "authorization count <= 2^32; cost_per_word multiplier <= 2^20; floor tokens <= 2^40",
    outside="calldata longer than 8 bytes and larger access lists (the per-byte/per-item sums are uniform; no induction claimed)",
    assumptions=["reference formulas are transcribed in the harness from EIP-150/160/161/1884/2028/2200/2929/2930/3529/3860/7623/7702 with literal numbers",
                 "Kani 0.68/CBMC 6.11/CaDiCaL trusted"],
    harnesses=[
        H("c14::c14_num_words", bounds="all len <= 2^64-32"),
        H("c14::c14_num_words_top31", bounds="len in (2^64-32, 2^64)"),
        H("c14::c14_word_costs", bounds="all len <= 2^64-32, multiplier <= 2^20", timeout=900),
        H("c14::c14_initcode_cost", bounds="all len <= 2^64-32"),
        H("c14::c14_extcodecopy_cost", bounds="all SpecIds x all len x cold"),
        H("c14::c14_log_cost", bounds="topics 0..4 x all u64 len"),
        H("c14::c14_memory_gas", bounds="all u64 word counts", timeout=900),
        H("c14::c14_memory_gas_for_len", bounds="all usize len whose cost fits", timeout=900),
        H("c14::c14_exp_cost", bounds="all SpecIds x all 256-bit exponents; ruint checked_mul replaced by an exact 64x64 stub that asserts its domain",
          stubs_expected=["checked_mul"]),
        H("c14::c14_initial_tx_gas", bounds="all SpecIds; calldata <= 8 symbolic bytes; access list <= 2 items x <= 2 keys; auth count <= 2^32; create/call", timeout=900),
        H("c14::c14_sstore_cost", bounds="all SpecIds x all value triples x all gas x cold"),
        H("c14::c14_sstore_refund", bounds="all SpecIds x all value triples"),
        H("c14::c14_sload_and_warm_cold", bounds="all SpecIds x flags"),
        H("c14::c14_call_cost", bounds="all SpecIds x flags x delegation states"),
        H("c14::c14_selfdestruct_cost", bounds="all SpecIds x flags"),
        H("c14::c14_floor_cost", bounds="tokens <= 2^40"),
        H("c14::c14_tokens_in_calldata", bounds="<= 8 symbolic bytes, symbolic length"),
        H("c14::c14_twin_must_fail", expect_fail=True, bounds="vacuity twin"),
    ],
)

# --------------------------------------------------------------------------- manifest text per claimed property
CLAIMS = {
    "C13": dict(
        text="Bounded model checking of the compiled Gas meter with Kani/CBMC: every method is decided for all 64-bit values from every "
             "state satisfying remaining<=limit (single-step induction), plus all 4-step method sequences against an unbounded-integer model. "
             "The solver covers the borrow/boundary cases (cost == remaining+1, refund cap at spent/5) that sampled tests cannot enumerate.",
        note="Trusted: Kani 0.68 MIR->goto translation, CBMC 6.11 + CaDiCaL. Assumes erase_cost(returned<=spent), |refund sum|<2^63, "
             "refunded>=0 before set_final_refund. Sequences >4 steps only via the inductive invariant.",
        technique="Kani/CBMC bounded model checking of the real Gas methods (SAT, full 64-bit domain, single-step induction + 4-step sequences)",
        design_ref="DESIGN.md §5 C13"),
    "C14": dict(
        text="Every public gas formula is compared by CBMC against a reference transcribed from the EIPs with literal numbers (u128 arithmetic), "
             "for all 64-bit lengths, all 256-bit storage-value triples and exponents and every SpecId as a symbolic value; None/saturation is required "
             "exactly when the true cost exceeds 64 bits. The solver reaches the boundary cases (2^32+ words, lengths near 2^64, the 3-value "
             "relation matrix x 21 forks) that example-based tests cannot enumerate.",
        note="Bounds: calldata <= 8 bytes, access list <= 2x2 in the intrinsic-gas harness; ruint checked_mul is stubbed (exact on asserted 64-bit domain) "
             "in exp_cost. num_words is one word short for the top 31 lengths (known finding D6, pinned by the repo's own unit test). "
             "Trusted: Kani/CBMC/CaDiCaL, the EIP transcription in the harness.",
        technique="Kani/CBMC bounded model checking of the real gas functions against EIP reference formulas (full 64/256-bit domains, symbolic SpecId)",
        design_ref="DESIGN.md §5 C14"),
    "C32": dict(
        text="calc_excess_blob_gas is decided for all u64 triples by CBMC. fake_exponential is translated from the nightly MIR dump into SMT-LIB "
             "(integers with explicit u128 overflow flags) and an inductive per-iteration certificate is discharged by z3 and cvc5: for every "
             "numerator up to the first one whose exact intermediates exceed u128 the loop body equals the EIP-4844 step, never overflows and "
             "terminates, hence the result equals the unbounded-integer definition. The boundary numerator is decided by the solver and replayed natively.",
        note="Bounded: numerators <= 192204552 (Cancun) / 284284038 (Prague); from the next numerator on the u128 product wraps (known finding, "
             "listed in known_findings.txt). Trusted: nightly MIR == compiled semantics (validated on the unit-test vectors each run), z3, cvc5, Kani/CBMC.",
        technique="MIR->SMT-LIB inductive certificate (z3+cvc5) for fake_exponential; Kani/CBMC for calc_excess_blob_gas and low-range price",
        engine="kani-cbmc + smt-mir",
        design_ref="DESIGN.md §5 C32"),
}
SMT_SERVES = {"C32"}

# --------------------------------------------------------------------------- not applicable (reason shown in MANIFEST.json)
NOT_APPLICABLE = {
    "C01": "whole-transaction equivalence with the execution specification needs symbolic execution of interpreter + call loop + journal + hash maps against a reference EVM; a single journaled transfer+revert already exhausts CBMC (DESIGN §2), and no reference implementation exists to encode. Its kernels are claimed under C02-C05, C12-C14.",
}
