"""Per-property obligations: Kani harnesses (E1) and SMT/MIR jobs (E2/E3)."""
from kani_runner import ARRAYS_UF

PROPS = {}


def H(name, tier="quick", flags=(), timeout=600, mem_gb=8, bounds="", expect_fail=False, **kw):
    d = dict(name=name, tier=tier, flags=list(flags), timeout=timeout, mem_gb=mem_gb, bounds=bounds, expect_fail=expect_fail)
    d.update(kw)
    return d


# --------------------------------------------------------------------------- C03
_C03_A = ["add", "sub", "lt", "gt", "slt", "sgt", "eq", "iszero", "and", "or", "xor", "not", "byte", "shl", "shr", "sar",
          "shl_petersburg", "signextend"]
PROPS["C03"] = dict(
    functions=["revm_interpreter::instructions::arithmetic::{add, sub, signextend}",
               "revm_interpreter::instructions::bitwise::{lt, gt, slt, sgt, eq, iszero, bitand, bitor, bitxor, not, byte, shl, shr, sar}",
               "revm_interpreter::instructions::i256::i256_cmp", "macros gas!/pop_top!/check! as expanded in those functions"],
    bounds="Group A: all 2^256 values of every operand and of the word below them, all u64 gas values; stack depth arity+1 (functional harness) "
           "and arity-1 (underflow harness); SPEC = LatestSpec, PetersburgSpec, ByzantiumSpec for the shift gate; unwind 6; division family: all 2^512 operand pairs, at most two "
           "distinct kernel calls per opcode (asserted by the stand-in)",
    outside="MUL, MULMOD, EXP, ADDMOD with operands at or above the modulus; the division kernel itself (Uint::div_rem is stood in for: DIV / MOD / SDIV / SMOD are decided "
            "relative to it) - ruint's multiply/divide kernels do not unwind in CBMC; stack depths other than arity-1/arity+1; "
            "the Interpreter is assembled field by field with empty code and an 8-word stack buffer (these opcodes never push or read code)",
    assumptions=["reference models are limb-wise (carry chains, funnel shifts, explicit sign tests) and do not use ruint",
                 "NoHost: any host call is a failure", "Kani/CBMC/CaDiCaL trusted"],
    harnesses=[H("c03::c03_" + n, bounds="all operands x all gas", timeout=2400, mem_gb=6) for n in _C03_A]
    + [H("c03::c03_" + n + "::underflow", bounds="one operand short", timeout=600, mem_gb=4) for n in _C03_A]
    + [H("c03::c03_addmod_reduced_operands", bounds="ADDMOD for all a, b < N (all N): 257-bit sum with one conditional subtraction; ruint div_rem stubbed to fail if reached",
         timeout=900, mem_gb=6, stubs_expected=["div_rem"]),
       H("c03::c03_addmod_zero_modulus", bounds="ADDMOD with N = 0, all a, b", timeout=900, mem_gb=6, stubs_expected=["div_rem"]),
       H("c03::c03_division_by_zero", bounds="DIV/MOD/SDIV/SMOD with divisor 0, all dividends", timeout=900, mem_gb=6, stubs_expected=["div_rem"]),
       H("c03::c03_div_mod_glue", bounds="DIV and MOD, all 2^512 operand pairs, relative to ruint's div_rem (memoising stand-in)", timeout=1800, mem_gb=10, stubs_expected=["div_rem"]),
       H("c03::c03_sdiv_glue", bounds="SDIV, all 2^512 operand pairs: absolute values, MIN/-1, sign fix-up, relative to ruint's div_rem", timeout=1800, mem_gb=10, stubs_expected=["div_rem"]),
       H("c03::c03_smod_glue", bounds="SMOD, all 2^512 operand pairs: absolute values, sign of the dividend, relative to ruint's div_rem", timeout=1800, mem_gb=10, stubs_expected=["div_rem"]),
       H("c03::c03_shifts_not_activated_before_constantinople", bounds="SHL/SHR/SAR under ByzantiumSpec", mem_gb=4),
       H("c03::c03_twin_must_fail", expect_fail=True, bounds="vacuity twin", mem_gb=6)],
)

# --------------------------------------------------------------------------- C04
_NOREACH = ["-Z", "unstable-options", "--no-assertion-reach-checks"]
PROPS["C04"] = dict(
    functions=["revm_interpreter::analysis::to_analysed / analyze (crates/interpreter/src/interpreter/analysis.rs) incl. the bitvec jump map it fills",
               "revm_primitives::JumpTable::is_valid, revm_interpreter::Contract::is_valid_jump", "revm_interpreter::instructions::control::{jump, jumpi} (jump_inner)"],
    bounds="every legacy code of length 1..=8 (jump table; quick tier 1..=4) / 1..=6 (JUMP, JUMPI on a real Interpreter over the analysed contract; quick tier 1..=2), all bytes symbolic - so every "
           "PUSH1..PUSH32 with truncated immediates is included; every usize position / every 256-bit jump target; every JUMPI condition; all gas >= 10",
    outside="codes longer than 8 (6) bytes: the scan is uniform in position but no induction is claimed; lazily analysed LegacyRaw code never reaches the interpreter",
    assumptions=["reference: forward scan from position 0 written in the harness (0x5B, 0x60..=0x7F immediates)", "kissat back end, --no-assertion-reach-checks (performance only; "
                 "vacuity is guarded by kani::cover!)", "Kani/CBMC trusted"],
    harnesses=[H("c04::c04_table_%d" % n, tier=("quick" if n <= 4 else "thorough"), flags=_NOREACH, timeout=1500, mem_gb=8, bounds="all codes of %d bytes x all positions" % n) for n in range(1, 9)]
    + [H("c04::c04_jump_%d" % n, tier=("quick" if n <= 2 else "thorough"), flags=_NOREACH, timeout=1500, mem_gb=8, bounds="all codes of %d bytes x all 256-bit targets x JUMP/JUMPI" % n) for n in range(1, 7)]
    + [H("c04::c04_twin_must_fail", expect_fail=True, flags=_NOREACH, bounds="vacuity twin", mem_gb=8, timeout=900)],
)

# --------------------------------------------------------------------------- C05
import jobs_e3 as _je3
PROPS["C05"] = dict(
    functions=["revm_interpreter::opcode::instruction::<H, SPEC>(opcode) (the match behind make_instruction_table)",
               "every instruction function it returns: its `check!(FORK)` inline-const gate and require_eof!/require_init_eof! guard",
               "revm_primitives::spec_to_generic! (SpecId -> Spec type) and spec!(..) SPEC_ID constants",
               "revm_precompile::PrecompileSpecId::from_spec_id (symbolically executed from MIR)"],
    bounds="all 256 opcode bytes x all 21 mainnet SpecIds (one SMT query over symbolic (op, spec); 0xFE excluded: it halts whether defined or not); "
           "all SpecIds for the precompile-set mapping (every MIR path of from_spec_id)",
    outside="that an activated opcode executes correctly (C01/C03); the membership of each precompile address in Precompiles::new(id) "
            "(lazy statics + hash maps: not encodable) and `behaves as an empty account before` at call level; optimism SpecIds; EOF code",
    assumptions=["an instruction is undefined in legacy code under SPEC iff the table maps its byte to `unknown`, or its function carries the EOF-only guard, or SPEC is below its check! gate; "
                 "the gate is taken from the inline const `!SPEC::SPEC_ID.is_enabled_in(FORK)` whose true-branch sets NotActivated (both checked in MIR)",
                 "reference: opcode -> introducing hardfork transcribed from the EIPs in lib/jobs_e3.py",
                 "a disagreement is reported only if executing that opcode under that SpecId on the real interpreter (native tool) confirms it; a disagreement that does "
                 "not reproduce makes the check inconclusive (gate no longer expressed as check!)"],
    jobs=[dict(name="e3::opcode_and_precompile_fork_tables", fn=_je3.run_fork_tables)],
)

# --------------------------------------------------------------------------- C07
import jobs_e3
import jobs_c21
PROPS["C07"] = dict(
    functions=["revm::EvmContext::{make_call_frame, make_create_frame, make_eofcreate_frame} (crates/revm/src/context/evm_context.rs)",
               "revm::InnerEvmContext::{call_return, create_return, eofcreate_return} (crates/revm/src/context/inner_evm_context.rs)"],
    bounds="depth limit: every 64-bit depth value against the comparison each constructor makes; depth balance: every path of the (acyclic) MIR control-flow graph of the six functions, unwind/cleanup edges excluded; paths that return Err (a `?` on a "
           "database error aborts the transaction) are not constrained; branch conditions abstracted to free choices (over-approximation of the real paths)",
    outside="that run_the_loop pairs every frame with exactly one *_return (whole call loop); callees other than the summarised ones are assumed depth-neutral; "
            "the depth-limit job reads the one comparison of JournaledState::depth() with a u64 constant per constructor (in it or in one helper it calls): a limit "
            "expressed any other way is answered by the native scenarios at depths 1023..1026 only (inconclusive unless they fail)",
    assumptions=["callee summaries: JournaledState::checkpoint +1, checkpoint_commit -1, checkpoint_revert -1, create_account_checkpoint Ok:+1 / Err:0",
                 "nightly MIR control flow equals the compiled control flow", "z3 4.8.12 and cvc5 1.0 agree on every query",
                 "a sat answer is a candidate path and is only reported after the native scenario reproduces the depth change"],
    jobs=[dict(name="e3::frame_depth_balance", fn=jobs_e3.run_depth_balance),
          dict(name="e3::depth_limit_is_1024", fn=__import__("jobs_c07").run_depth_limit),  # refusal <=> depth > 1024, all 2^64 depths, per constructor
          dict(name="e3::create_collision_guard", fn=jobs_c21.run_create_guard)],  # decides the {Ok: +1, Err: 0} summary of create_account_checkpoint that the depth job uses
)

# --------------------------------------------------------------------------- C20 / C21
_HS_FUNCS = ["<WrapDatabaseRef<T> as Database>, <DatabaseComponents<S,BH> as Database/DatabaseRef> (crates/primitives/src/db.rs, db/components.rs)",
             "<CacheDB<ExtDB> as Database/DatabaseRef> (crates/revm/src/db/in_memory_db.rs)", "<State<DB> as Database> (crates/revm/src/db/states/state.rs)",
             "EvmContext::{make_create_frame, make_eofcreate_frame} (argument handed to JournaledState::create_account_checkpoint)"]
_HS_ASSUME = ["an impl block without its own has_storage/has_storage_ref inherits the trait default `Ok(false)` (Rust semantics)",
              "a has_storage body that calls the wrapped source's has_storage* is taken to return that answer (not re-verified beyond the call being present)",
              "z3 4.8.12 and cvc5 1.0 agree; every sat answer is replayed on the real types by the native tool (wrapped source answering true)"]
PROPS["C20"] = dict(
    functions=_HS_FUNCS[:3] + ["<CacheDB<ExtDB> as Database>::{storage, block_hash, code_by_hash}, <CacheDB<ExtDB> as DatabaseRef>::{storage_ref, block_hash_ref, code_by_hash_ref, basic_ref}, DbAccount::info (read policy)"],
    bounds="the has_storage query through each of the six (layer, trait) pairs, for every answer of the wrapped source (symbolic Bool); "
           "CacheDB storage / block-hash reads: every path of the four MIR bodies x every value of (account cached?, slot cached?, the four account states, "
           "wrapped account exists?) - one step from an arbitrary cache content, so any commit history that produced it is covered",
    outside="Database::basic of CacheDB (its first load builds a DbAccount through a closure; basic_ref and DbAccount::info are decided), block-hash pruning in State (State::storage, load_cache_account and the CacheAccount status transitions are decided under C15), "
            "what DatabaseCommit::commit writes into the cache (hash-map backed: not encodable, see DESIGN §2); &mut T / Box<T> / &T / Arc<T> forwarding is generated by auto_impl and not re-checked",
    assumptions=_HS_ASSUME + ["read policy reference: uncached account -> wrapped database (Database::storage: zero if the wrapped account does not exist); cached slot -> cache; "
                              "uncached slot of a cached account -> zero iff account_state is NotExisting or StorageCleared, else the wrapped database",
                              "HashMap::get / entry / OccupiedEntry::get are taken to return what the cache holds (std semantics); a helper fn(&AccountState)->bool is inlined as its truth table"],
    jobs=[dict(name="e3::has_storage_forwarding", fn=jobs_e3.run_has_storage),
          dict(name="e3::cachedb_read_policy", fn=jobs_e3.run_cache_read_policy)],
)
PROPS["C21"] = dict(
    functions=_HS_FUNCS + ["JournaledState::create_account_checkpoint (crates/revm/src/journaled_state.rs): every path x all eight values of (code hash differs, nonce non-zero, has storage)"],
    bounds="as C20 for the six database layers; plus the data flow of the `address_has_storage` argument of create_account_checkpoint in both create paths "
           "(resolved through Try::branch / map_err / copies to <DB as Database>::has_storage(created_address))",
    outside="gas consumed by the failed create; that checkpoint_revert itself restores the state (C06); create transactions through Evm::transact; "
            "a storage flag computed anywhere else than in the two create paths",
    assumptions=_HS_ASSUME + ["create_account_checkpoint: checkpoint / checkpoint_revert / touch_account / mark_created / checked_add / sub_assign are events (counted, arguments "
                              "recorded), the code-hash comparison and the nonce test are free Booleans whose operands are checked to be account.info.code_hash vs KECCAK_EMPTY "
                              "and account.info.nonce vs 0; replay: native `create_guard` (all eight input combinations) and `create_collision`"],
    jobs=[dict(name="e3::has_storage_forwarding", fn=jobs_e3.run_has_storage),
          dict(name="e3::create_collision_guard", fn=jobs_c21.run_create_guard)],
)

# --------------------------------------------------------------------------- C22
PROPS["C22"] = dict(
    functions=["revm::Handler::{pop_handle_register, create_handle_generic, modify_spec_id} (crates/revm/src/handler.rs)",
               "every function of the revm crate that calls Handler::{mainnet, mainnet_with_spec, optimism*, new} or EvmBuilder::handler (crate-wide MIR scan, incl. crates/revm/src/builder.rs)",
               "revm::Handler::{mainnet, mainnet_with_spec}: uses of the reward flag"],
    bounds="every call to Handler::mainnet / mainnet_with_spec inside the three rebuild functions (all call sites found in the MIR of the function bodies); "
           "the reward argument is resolved through copies/moves (depth <= 6) to a literal, to `self.post_execution.reward_beneficiary.is_some()`, or to unknown",
    outside="that PostExecutionHandler::reward_beneficiary with the handle absent leaves the context untouched; `every other effect is identical` is decided only as "
            "`the flag is read nowhere but where the reward handle is built` (Handler::mainnet / mainnet_with_spec), not as a whole-transaction differential; handle registers that themselves replace the reward handle; the explicit reset paths "
            "(EvmBuilder::reset_handler*, Handler::new) which by documentation restore the default; the optimism vault payments",
    assumptions=["Handler::mainnet::<SPEC>(flag) installs the reward handle iff flag (PostExecutionHandler::new, read in source)",
                 "registers re-applied after the rebuild do the same thing they did before it",
                 "z3 4.8.12 and cvc5 1.0 agree; candidates are replayed on the real Handler API by the native tool"],
    jobs=[dict(name="e3::reward_flag_propagation", fn=jobs_e3.run_reward_flag),
          # crate-wide: every from-scratch Handler construction with a configured handler at hand carries its setting; the flag is read only where the reward handle is built
          dict(name="e3::reward_flag_sites_and_uses", fn=__import__("jobs_c22").run_reward_sites)],
)

# --------------------------------------------------------------------------- C08
PROPS["C08"] = dict(
    functions=["revm::JournaledState::transfer (crates/revm/src/journaled_state.rs): every path of its MIR control-flow graph",
               "revm::JournaledState::selfdestruct: every path, with the two `address != target` branches correlated",
               "revm::handler::mainnet::reimburse_caller (crates/revm/src/handler/mainnet/post_execution.rs): every path"],
    bounds="all entry->return paths of the (acyclic) CFG; a store through a balance reference is classified by the origin of the stored value "
           "(checked_sub(.., amount) payload = debit, checked_add / saturating_add / += amount = credit, anything else = free integer)",
    outside="the per-transaction sum over all accounts (whole run), fee burning and blob fee accounting, create_account_checkpoint and deduct_caller / "
            "reward_beneficiary balance moves, the AMOUNTS credited by selfdestruct / reimburse_caller (only that the credit happens on every path that needs it); "
            "that debit and credit hit the intended accounts (account identity is not tracked beyond address != target)",
    assumptions=["paths returning a database error abort the transaction and are not constrained", "branch conditions abstracted to free choices",
                 "z3 4.8.12 and cvc5 1.0 agree; a sat path is replayed on the real JournaledState by the native tool"],
    jobs=[dict(name="e3::transfer_conservation", fn=jobs_e3.run_transfer_conservation),
          dict(name="e3::transfer_sequential_consistency", fn=jobs_c21.run_transfer_order),
          dict(name="e3::beneficiary_price_dataflow", fn=jobs_e3.run_fee_prices),
          dict(name="e3::selfdestruct_and_reimburse_value_moves", fn=jobs_e3.run_value_moves)],
)

# --------------------------------------------------------------------------- C09
PROPS["C09"] = dict(
    functions=["revm::handler::mainnet::last_frame_return::<SPEC, (), EmptyDB> (crates/revm/src/handler/mainnet/execution.rs) on a real Context",
               "revm::handler::mainnet::refund::<LondonSpec|BerlinSpec> (post_execution.rs) incl. Gas::set_final_refund",
               "the EIP-7623 floor step of Evm::transact_preverified_inner (crates/revm/src/evm.rs): structure from MIR, arithmetic by SMT",
               "revm::handler::mainnet::reward_beneficiary: reaching definitions of the per-gas price paid to the beneficiary (MIR data flow)"],
    bounds="all u64 tx gas limits, first-frame limits/spent (spent <= frame limit <= tx limit), all non-negative i64 refunds (< 2^60 in refund_cap), 8 result classes "
           "(3 success, revert, 4 halts), London / pre-London; floor step: all 0 <= used <= limit, 0 <= floor <= limit",
    outside="intrinsic gas <= gas used at transaction level (the intrinsic and floor VALUES are decided, calldata <= 8 bytes); the exact amounts paid: the sender paying price x used + blob fee and the beneficiary receiving "
            "(price - basefee) x used (reimburse_caller / reward_beneficiary go through the journal's hash maps: a Kani harness on a real Context did not get through "
            "hashbrown in 40 min) - only WHICH price reaches the beneficiary payment and that the caller is credited on every path (C08) are decided; exact-intrinsic runs",
    assumptions=["std::hash::RandomState::new stubbed with fixed keys (the Context's empty maps are never hashed into)",
                 "frame accounting: first frame limit <= tx gas limit, spent <= limit, refund >= 0", "floor <= gas limit (guaranteed by validate_initial_tx_gas, C02)",
                 "Gas method semantics as decided under C13", "Kani/CBMC/CaDiCaL, z3, cvc5 trusted"],
    harnesses=[H("c09::c09_last_frame_return", bounds="all limits/spent/refunds x 8 result classes", stubs_expected=["RandomState"]),
               H("c09::c09_refund_cap", bounds="all spent/limits, refunds < 2^60, London and Berlin", stubs_expected=["RandomState"]),
               H("c09::c09_floor_step", bounds="all u64 values with floor <= limit, refund <= spent/2"),
               # the intrinsic gas and the EIP-7623 floor that `gas used` is measured against (the values handed to the floor step): C02's harnesses
               H("c02::c02_gas_prague", flags=["-Z", "unstable-options", "--no-assertion-reach-checks"], timeout=600, mem_gb=4,
                 bounds="validate_initial_tx_gas / calculate_initial_tx_gas under Prague: initial_gas and floor_gas equal the EIP formulas, all gas limits x calldata <= 8 bytes x access list <= 1x2 x auth list <= 1 x create/call"),
               H("c02::c02_gas_cancun", flags=["-Z", "unstable-options", "--no-assertion-reach-checks"], timeout=600, mem_gb=4,
                 bounds="same before Prague: floor_gas == 0"),
               H("c09::c09_twin_must_fail", expect_fail=True, bounds="vacuity twin")],
    jobs=[dict(name="e3::floor_step_structure", fn=jobs_e3.run_floor_step),
          dict(name="e3::beneficiary_price_dataflow", fn=jobs_e3.run_fee_prices)],
)

# --------------------------------------------------------------------------- C10
_C10 = ["sstore", "tstore", "log0", "log2", "log4", "create", "create2", "selfdestruct", "eofcreate",
        "sstore_byzantium", "sstore_petersburg", "sstore_istanbul", "create_byzantium", "create2_petersburg", "selfdestruct_byzantium"]
PROPS["C10"] = dict(
    functions=["revm_interpreter::instructions::host::{sstore, tstore, log::<0|2|4>, selfdestruct}", "revm_interpreter::instructions::contract::{create::<false|true>, eofcreate, call, extcall}",
               "the CallInputs aggregate built by contract::{call, call_code, delegate_call, static_call, extcall, extdelegatecall, extstaticcall} (MIR)"],
    bounds="is_static = true; 8 symbolic 256-bit stack words (all operand values), all u64 gas; CALL: every non-zero value (thorough tier, concrete target); the value guard of CALL and EXTCALL on MIR in both tiers (full 256-bit zero test of the popped value); "
           "SPEC = LatestSpec, and ByzantiumSpec / PetersburgSpec / IstanbulSpec for SSTORE, CREATE, CREATE2, SELFDESTRUCT (static mode exists since Byzantium); host = NoHost (any host call fails the harness); flag propagation: the single CallInputs construction of each of the 7 call opcodes",
    outside="`the world state at the end of the static call equals the state at its start` (needs journal revert, DESIGN §2); LOG1/LOG3 (same generic body as LOG0/2/4); "
            "Spec instantiations other than the named ones; nested frames beyond the flag handed to the child",
    assumptions=["Interpreter assembled field by field with an 8-word stack buffer (c03::new_interp)", "Kani/CBMC/CaDiCaL; z3/cvc5 trusted",
                 "MIR aggregate `CallInputs { .. is_static: X .. }` is the only place the child's flag is set (one construction per opcode, checked)"],
    harnesses=[H("c10::c10_" + n, timeout=600, mem_gb=6, bounds="all operands x all gas, static frame") for n in _C10]
    + [H("c10::c10_call_with_value", tier="thorough", timeout=2400, mem_gb=26, bounds="all non-zero values x all gas (concrete target; 18.5 GB)"),
       # c10::c10_extcall_with_value (EOF frame) is not registered: 14 GB once, then out of memory at 14 GB and at 24 GB (rule 8.2); the EXTCALL value guard is decided by e3::static_value_guard
       H("c10::c10_twin_must_fail", expect_fail=True, bounds="vacuity twin", mem_gb=6)],
    jobs=[dict(name="e3::static_flag_propagation", fn=jobs_e3.run_static_flag),
          dict(name="e3::static_value_guard", fn=jobs_e3.run_value_guard)],
)

# --------------------------------------------------------------------------- C11
_C11 = ['c11_child_p0_c32', 'c11_child_p32_c64', 'c11_child_p64_c0', 'c11_child_p96_c96', 'c11_cost_base_p32_c64', 'c11_cost_base_p0_c96', 'c11_cost_base_p64_c0', 'c11_resize_0_32', 'c11_resize_32_96', 'c11_resize_64_64', 'c11_expand_0_to_1', 'c11_expand_0_to_33', 'c11_expand_32_to_64', 'c11_expand_32_to_96_after_child', 'c11_expand_0_to_32_after_child', 'c11_window_c64_n8_off0_d0', 'c11_window_c64_n8_off56_d20', 'c11_window_c64_n32_off17_d30', 'c11_window_c32_n32_off0_d5', 'c11_outcome_ret8_out16', 'c11_outcome_ret40_out16', 'c11_outcome_ret0_out16', 'c11_outcome_ret16_out0', 'c11_expand_huge_fails']
PROPS["C11"] = dict(
    functions=["revm_interpreter::SharedMemory::{with_capacity, new_context, free_context, resize, len, is_empty, current_expansion_cost, get_byte, "
               "set, set_byte, set_data, copy, slice/slice_mut} (crates/interpreter/src/interpreter/shared_memory.rs)",
               "revm_interpreter::interpreter::resize_memory", "revm_interpreter::Interpreter::insert_call_outcome (crates/interpreter/src/interpreter.rs)"],
    bounds="context sizes, write offsets and lengths concrete per harness (parent 0..96 B, child 0..96 B, windows 8..33 B, return data 0..40 B); all byte "
           "contents, the checked byte position (symbolic witness index), gas values and the call outcome class symbolic; expansion to every size > 4 GiB "
           "with gas < 2^40; unwind 100",
    outside="contexts larger than 96 bytes, nesting deeper than 2, operation sequences beyond those in the harness bodies; a resize AFTER free_context "
            "(the restored length is read back from the heap, stops being a constant for CBMC and the harness does not close): that a later frame reads "
            "zeros over a returned child's bytes rests on Vec::resize(_,0) writing every new element (std), exercised from a fresh allocation; memory_limit feature",
    assumptions=["std Vec semantics trusted", "memory_gas reference 3w + w*w/512 written literally", "Kani/CBMC/CaDiCaL trusted"],
    harnesses=[H("c11::" + n, timeout=900, mem_gb=6, bounds=n) for n in _C11]
    + [H("c11::c11_twin_must_fail", expect_fail=True, bounds="vacuity twin", mem_gb=6)],
)

# --------------------------------------------------------------------------- C12
_C12 = ['c12_push_0', 'c12_push_1', 'c12_push_1023', 'c12_push_1024', 'c12_pop_0', 'c12_pop_1', 'c12_pop_2', 'c12_pop_1024', 'c12_peek_set_0', 'c12_peek_set_1', 'c12_peek_set_17', 'c12_peek_set_1024', 'c12_dup_n0_k1', 'c12_dup_n1_k1', 'c12_dup_n1_k2', 'c12_dup_n16_k16', 'c12_dup_n16_k17', 'c12_dup_n255_k256', 'c12_dup_n300_k256', 'c12_dup_n1023_k1', 'c12_dup_n1023_k16', 'c12_dup_n1024_k1', 'c12_dup_n1024_k16', 'c12_exchange_n0_a0_m1', 'c12_exchange_n1_a0_m1', 'c12_exchange_n2_a0_m1', 'c12_exchange_n3_a1_m1', 'c12_exchange_n3_a1_m2', 'c12_exchange_n3_a2_m1', 'c12_exchange_n17_a0_m16', 'c12_exchange_n17_a0_m17', 'c12_exchange_n17_a16_m1', 'c12_exchange_n33_a16_m16', 'c12_exchange_n32_a16_m16', 'c12_exchange_n1024_a0_m1023', 'c12_exchange_n1024_a1_m1023', 'c12_push_slice_n0_l0', 'c12_push_slice_n0_l1', 'c12_push_slice_n0_l5', 'c12_push_slice_n0_l8', 'c12_push_slice_n0_l20', 'c12_push_slice_n0_l31', 'c12_push_slice_n0_l32', 'c12_push_slice_n0_l33', 'c12_push_slice_n0_l45', 'c12_push_slice_n0_l64', 'c12_push_slice_n0_l70', 'c12_push_slice_n1021_l70', 'c12_push_slice_n1022_l70', 'c12_push_slice_n1022_l64', 'c12_push_slice_n1023_l33', 'c12_push_slice_n1023_l32', 'c12_push_slice_n1024_l1', 'c12_push_slice_n1024_l0']
_C12_THOROUGH_ONLY = {"c12_push_slice_n0_l5", "c12_push_slice_n0_l20", "c12_push_slice_n0_l45", "c12_push_slice_n0_l64", "c12_push_slice_n1022_l64",
                      "c12_push_slice_n0_l70", "c12_push_slice_n1021_l70", "c12_exchange_n2_a0_m1", "c12_exchange_n32_a16_m16",
                      "c12_dup_n300_k256", "c12_dup_n1_k2", "c12_dup_n1024_k16", "c12_pop_2", "c12_peek_set_1", "c12_peek_set_1024", "c12_push_1"}
PROPS["C12"] = dict(
    functions=["revm_interpreter::Stack::{new, push, push_b256, pop, peek, set, dup, swap, exchange, push_slice, len, data} "
               "(crates/interpreter/src/interpreter/stack.rs), on the real 1024-word buffer"],
    bounds="single-step inductive: pre-state = real Stack::new() buffer with arbitrary (symbolic) contents at concrete lengths "
           "{0,1,2,16,17,300,1021..1024} as named per harness; arguments: all 256-bit values; peek/set index fully symbolic; dup k in {1,2,15,16,17,256}; "
           "exchange (n,a,m) triples on both sides of every bound; push_slice lengths {0,1,5,8,20,31,32,33,45,64,70} with symbolic bytes; "
           "frame condition checked through a symbolic witness position; CBMC pointer/bounds checks on; --arrays-uf-always",
    outside="pre-state lengths and dup/exchange offsets other than the instantiated ones (a symbolic length or offset turns every 32-byte copy into a "
            "symbolic-offset memcpy that CBMC does not finish); slices longer than 70 bytes; operation sequences longer than one step "
            "(covered by the inductive invariant len<=1024, capacity==1024)",
    assumptions=["dup(0) and exchange(_,0) are excluded (documented preconditions, debug-asserted by the crate)",
                 "the partial last word of push_slice is the big-endian integer of the remaining bytes (zero-extended on the high side), as pinned by the "
                 "repository's own unit test push_slices and required by PUSH1..PUSH31",
                 "uninitialised buffer contents are modelled by CBMC as arbitrary fixed values", "Kani/CBMC/CaDiCaL trusted"],
    harnesses=[H("c12::" + n, tier=("thorough" if n in _C12_THOROUGH_ONLY else "quick"), flags=ARRAYS_UF, timeout=1200, mem_gb=10, bounds=n, replay="static") for n in _C12]
    + [H("c12::c12_twin_must_fail", expect_fail=True, flags=ARRAYS_UF, bounds="vacuity twin", mem_gb=6)],
)

# --------------------------------------------------------------------------- C13
PROPS["C13"] = dict(
    functions=["revm_interpreter::Gas::{new,new_spent,record_cost,erase_cost,spend_all,record_refund,set_final_refund,"
               "set_refund,set_spent,spent,spent_sub_refunded,remaining_63_of_64_parts} (crates/interpreter/src/gas.rs)"],
    bounds="no value bound: every u64 limit/cost/returned amount and every i64 refund; single-step induction from every state with "
           "remaining<=limit; additionally all method sequences of length 4 (6 methods, symbolic arguments) from Gas::new(limit)",
    outside="sequences longer than 4 are covered only through the single-step inductive harnesses (invariant remaining<=limit)",
    assumptions=["erase_cost(returned) is only called with returned <= spent (callers return gas that was charged to the parent)",
                 "record_refund: |refunded + refund| < 2^63", "set_final_refund: refunded >= 0 at the end of a transaction",
                 "Kani 0.68/CBMC 6.11/CaDiCaL and rustc MIR->goto translation are trusted"],
    harnesses=[
        H("c13::c13_new", bounds="all u64 limits"),
        H("c13::c13_record_cost", bounds="all states (two constructions) x all u64 costs"),
        H("c13::c13_erase_cost", bounds="all states x returned<=spent"),
        H("c13::c13_spend_all_and_set_spent", bounds="all states x all u64"),
        H("c13::c13_spent_identities", bounds="all states"),
        H("c13::c13_set_final_refund", bounds="all states with refunded>=0 x london flag", timeout=900),
        H("c13::c13_record_refund", bounds="all states x all i64 with in-range sum"),
        H("c13::c13_sequence_4", bounds="all u64 limits x 6^4 method sequences with symbolic arguments", timeout=900),
        H("c13::c13_sequence_6", tier="thorough", bounds="all u64 limits x 6^6 method sequences with symbolic arguments", timeout=3600, mem_gb=8),
        H("c13::c13_twin_must_fail", expect_fail=True, bounds="vacuity twin"),
    ],
)


# --------------------------------------------------------------------------- C25 (kernel only)
_C25 = ["c25_push1_last_of_1", "c25_push32_last_of_1", "c25_push32_last_of_3", "c25_push2_first_of_3", "c25_push17_mid_of_3"]
PROPS["C25"] = dict(
    functions=["revm_interpreter::instructions::stack::push::<N> (unchecked `from_raw_parts(ip, N)` read) on a real Interpreter over to_analysed code "
               "(crates/interpreter/src/instructions/stack.rs, interpreter/analysis.rs padding invariant)"],
    bounds="code lengths 1 and 3 with all bytes symbolic, PUSH1/2/17/32 at the first, middle and LAST code position; CBMC pointer checks on: any read or pointer "
           "outside the (code + 33 zero bytes) buffer is a failure; the pushed word must be the immediate with bytes past the end of code read as zero",
    outside="everything else the property says: whole-program termination, every other unchecked read (RJUMP*/CALLF immediates, DATALOADN), EOF containers, "
            "assume!/debug_unreachable! sites. Stack copies, memory slices and jump targets are decided under C12, C11 and C04 with pointer checks on.",
    assumptions=["kissat back end", "the interpreter loop advances the instruction pointer past the opcode before calling the instruction (read in Interpreter::step)"],
    harnesses=[H("c25::" + n, flags=_NOREACH, timeout=1500, mem_gb=8, bounds=n) for n in _C25]
    + [H("c25::c25_twin_must_fail", expect_fail=True, flags=_NOREACH, bounds="vacuity twin", mem_gb=8, timeout=900)],
)

# --------------------------------------------------------------------------- C29
PROPS["C29"] = dict(
    functions=["the seven closures installed by revm::inspector_handle_register on handler.execution.{create, call, eofcreate, insert_eofcreate_outcome, "
               "insert_call_outcome, insert_create_outcome, last_frame_return} (crates/revm/src/inspector/handler_register.rs)"],
    bounds="every entry->return path of each closure's (acyclic) MIR control-flow graph, unwind edges excluded: frame closures push exactly one entry on their input "
           "stack (also on the inspector-short-circuit path and when the inner handler returns an error), outcome closures and last_frame_return pop exactly one",
    outside="that the call loop pairs each frame closure with exactly one outcome closure (Evm::run_the_loop), that the popped entry is the matching one (LIFO nesting "
            "follows from the pairing), step/step_end bracketing (C28), the body of the log wrapper (only WHICH opcodes it is installed for is decided: all 256 opcodes against the "
            "instruction table) and the selfdestruct notification (C30); `the same inputs` is decided as: the inputs queued for *_end are cloned after the call/create/eofcreate hook ran",
    assumptions=["push/pop sites are the Vec::<Box<CallInputs|CreateInputs|EOFCreateInputs>>::{push,pop} calls", "branch conditions abstracted to free choices",
                 "z3 4.8.12 and cvc5 1.0 agree; a sat path is replayed by a transaction with nested calls/creates under a counting inspector (native tool)"],
    jobs=[dict(name="e3::inspector_stack_balance", fn=jobs_e3.run_inspector_balance),
          # the opcodes wrapped with the log notification == the opcodes the instruction table maps to host::log (all 256); inputs are queued for *_end after the hook ran
          dict(name="e3::log_wrapper_range_and_queued_inputs", fn=__import__("jobs_c29").run_logs_and_inputs)],
)

# --------------------------------------------------------------------------- C31
PROPS["C31"] = dict(
    functions=["revm::Evm::{transact, transact_preverified, preverify_transaction} and the error-hook closures they pass to Result::inspect_err (crates/revm/src/evm.rs)",
               "revm::EvmContext::set_precompiles (context/evm_context.rs), revm::handler::mainnet::load_accounts (handler/mainnet/pre_execution.rs)"],
    bounds="every entry->return path of the three (acyclic) MIR control-flow graphs and of each inspect_err closure; the Err edge of a `?` that follows an inspect_err "
           "arrives `cleared` only if that closure clears on every one of its paths",
    outside="that post_execution().clear / JournaledState::clear / finalize actually reset every field (transient storage, warm set, logs, depth: hash maps, DESIGN §2); "
            "loaded precompiles and spec changes between transactions beyond the two reset points decided here (EvmContext::set_precompiles replaces the set on every path, "
            "mainnet load_accounts sets the journal's spec first on every path; that transact_preverified_inner calls both is read from source only); equality of result sequences with a fresh EVM (whole-transaction histories); transact_commit and "
            "the inspector entry points",
    assumptions=["context-touching calls are: validation env / initial_tx_gas / tx_against_state, preverify_transaction_inner, transact_preverified_inner, post_execution().end",
                 "z3 4.8.12 and cvc5 1.0 agree; a sat path is replayed by a rejected transaction on a real Evm (native tool: journal must be empty afterwards)"],
    jobs=[dict(name="e3::clear_on_every_exit", fn=jobs_e3.run_clear_on_exit),
          # spec change on a reused EVM: precompiles are replaced and the journal's spec is set at the start of every transaction
          dict(name="e3::per_transaction_reset_of_precompiles_and_journal_spec", fn=__import__("jobs_c31").run_reuse_spec_change)],
)

# --------------------------------------------------------------------------- C32
import jobs_c32
PROPS["C32"] = dict(
    functions=["revm_primitives::calc_excess_blob_gas", "revm_primitives::fake_exponential", "revm_primitives::calc_blob_gasprice (crates/primitives/src/utilities.rs)",
               "revm_primitives::BlockEnv::set_blob_excess_gas_and_price, BlobExcessGasAndPrice::new (crates/primitives/src/env.rs)"],
    bounds="calc_excess_blob_gas: all u64 triples (Kani). calc_blob_gasprice: all excess <= update fraction per schedule, unwind 14 (Kani). "
           "fake_exponential (MIR->SMT, z3+cvc5): factor 1, both update fractions, ALL numerators 0..=N0 where N0+1 is the first numerator whose exact "
           "intermediates leave u128 (192204552 Cancun / 284284038 Prague): per-iteration inductive certificate (K<=168 iterations), loop body == EIP-4844 step, "
           "no overflow, termination; boundary numerator N0+1 decided by solver and replayed natively in debug and release.",
    outside="numerators above N0+1 (known finding D8 from N0+1 upward); factors other than MIN_BLOB_GASPRICE=1; denominators other than the two constants",
    assumptions=["product symbol P stands for acc*n; its bound 0<=P<=B_k*N0 is discharged per iteration as a separate non-linear query",
                 "per-iteration bounds B_k/O_k are hints computed by exact big-integer simulation and are checked by the solver (inductive)",
                 "nightly MIR of the function is faithful to what stable rustc compiles (validated each run on 15 unit-test vectors against the native function)",
                 "Kani/CBMC, z3 4.8.12, cvc5 1.0 trusted"],
    harnesses=[
        H("c32::c32_excess_blob_gas_all_u64", bounds="all (excess, used, target) u64 triples whose exact result fits u64"),
        H("c32::c32_constants", bounds="constants + zero excess"),
        H("c32::c32_price_cancun_le_fraction", bounds="excess <= 3338477, unwind 14", timeout=1500),
        H("c32::c32_price_prague_le_fraction", bounds="excess <= 5007716, unwind 14", timeout=1500),
        H("c32::c32_block_env_price_follows_last_setting", bounds="BlockEnv::set_blob_excess_gas_and_price twice on one env, all (excess, schedule) pairs; price function stubbed injectively",
          stubs_expected=["calc_blob_gasprice"]),
        H("c32::c32_twin_must_fail", expect_fail=True, bounds="vacuity twin"),
    ],
    jobs=[dict(name="e2::fake_exponential_certificate", fn=jobs_c32.run)],
)

# --------------------------------------------------------------------------- C14
PROPS["C14"] = dict(
    functions=["revm_interpreter::gas::{sstore_cost, sstore_refund, sload_cost, call_cost, selfdestruct_cost, extcodecopy_cost, verylowcopy_cost, "
               "keccak256_cost, log_cost, create2_cost, initcode_cost, exp_cost, memory_gas, memory_gas_for_len, cost_per_word, warm_cold_cost, "
               "warm_cold_cost_with_delegation, calc_tx_floor_cost, get_tokens_in_calldata, calculate_initial_tx_gas} (crates/interpreter/src/gas/calc.rs)",
               "revm_interpreter::num_words (crates/interpreter/src/interpreter/shared_memory.rs)"],
    bounds="all u64 lengths <= 2^64-32 (top 31 lengths: separate harness, known finding D6); all 2^768 (original,present,new) storage triples; all u64 gas; "
           "every defined SpecId (symbolic via try_from_u8); all 256-bit exponents; calldata <= 8 symbolic bytes; access list <= 2 items x <= 2 keys; "
           "authorization count <= 2^32; cost_per_word multiplier <= 2^20; floor tokens <= 2^40",
    outside="calldata longer than 8 bytes and larger access lists (the per-byte/per-item sums are uniform; no induction claimed)",
    assumptions=["reference formulas are transcribed in the harness from EIP-150/160/161/1884/2028/2200/2929/2930/3529/3860/7623/7702 with literal numbers",
                 "Kani 0.68/CBMC 6.11/CaDiCaL trusted"],
    harnesses=[
        H("c14::c14_num_words", bounds="all len <= 2^64-32"),
        H("c14::c14_num_words_top31", bounds="len in (2^64-32, 2^64)"),
        H("c14::c14_word_costs", bounds="all len <= 2^64-32, multiplier <= 2^20", timeout=900),
        H("c14::c14_initcode_cost", bounds="all len <= 2^64-32"),
        H("c14::c14_extcodecopy_cost", bounds="all SpecIds x all len x cold"),
        H("c14::c14_log_cost", bounds="topics 0..4 x all u64 len"),
        H("c14::c14_memory_gas", bounds="all u64 word counts", timeout=900),
        H("c14::c14_memory_gas_for_len", bounds="all usize len whose cost fits", timeout=900),
        H("c14::c14_exp_cost", bounds="all SpecIds x all 256-bit exponents; ruint checked_mul replaced by an exact 64x64 stub that asserts its domain",
          stubs_expected=["checked_mul"]),
        H("c14::c14_initial_tx_gas", bounds="all SpecIds; calldata <= 8 symbolic bytes; access list <= 2 items x <= 2 keys; auth count <= 2^32; create/call", timeout=900),
        H("c14::c14_sstore_cost", bounds="all SpecIds x all value triples x all gas x cold"),
        H("c14::c14_sstore_refund", bounds="all SpecIds x all value triples"),
        H("c14::c14_sload_and_warm_cold", bounds="all SpecIds x flags"),
        H("c14::c14_call_cost", bounds="all SpecIds x flags x delegation states"),
        H("c14::c14_selfdestruct_cost", bounds="all SpecIds x flags"),
        H("c14::c14_floor_cost", bounds="tokens <= 2^40"),
        H("c14::c14_tokens_in_calldata", bounds="<= 8 symbolic bytes, symbolic length"),
        H("c14::c14_twin_must_fail", expect_fail=True, bounds="vacuity twin"),
    ],
)

# --------------------------------------------------------------------------- manifest text per claimed property
CLAIMS = {
    "C04": dict(
        text="For every legacy byte string up to the stated length the real jump analysis is run symbolically (CBMC, all bytes symbolic, so every PUSHn with truncated "
             "immediates is covered) and the resulting table is compared at every position with `target < len, byte is JUMPDEST, not inside push data`; the real JUMP and "
             "JUMPI are then run on an interpreter over that contract for every 256-bit target and condition: they land on the target exactly when it is valid and halt "
             "with InvalidJump otherwise.",
        note="Bounded by code length (8 for the table, 6 for the instructions; 4 / 2 in the quick tier). CBMC's pointer checks stay on inside the raw-pointer walk of `analyze`.",
        technique="Kani/CBMC (kissat) bounded model checking of to_analysed + jump/jumpi against a forward-scan reference, all code bytes and targets symbolic",
        design_ref="DESIGN.md §5 C04"),
    "C05": dict(
        text="The opcode->function table and each function's hardfork gate are extracted from the MIR of the current tree, the SpecId->Spec-type mapping from spec_to_generic!, "
             "and z3/cvc5 are asked for any (opcode, SpecId) pair among all 256 x 21 on which `undefined in legacy code` differs from the EIP introduction table; "
             "PrecompileSpecId::from_spec_id is executed symbolically from MIR against the fork->precompile-set table for every SpecId. Disagreements are replayed by "
             "executing that opcode under that fork on the real interpreter.",
        note="Complete over the finite (opcode, SpecId) space for the gate structure; does not decide what an activated opcode does, nor precompile address membership per set.",
        technique="MIR table/gate extraction and MIR symbolic execution, compared with EIP tables by SMT (z3+cvc5) over all opcode x SpecId pairs; native replay",
        engine="smt-mir", design_ref="DESIGN.md §5 C05"),
    "C07": dict(
        text="The control-flow graphs of the six frame functions are taken from the MIR dump and encoded for z3 and cvc5: a path from entry to a normal "
             "return on which the number of checkpoints opened differs from the number committed/reverted (0 for a returned result, +1 for a returned frame that "
             "carries the checkpoint, -1 for the *_return functions) is searched symbolically over all paths. unsat = every path is balanced; a model is "
             "replayed as a concrete make_*_frame scenario on the real API before it is reported. The limit itself: the comparison each constructor makes between "
             "JournaledState::depth() and its constant is read from MIR and the solvers are asked for a 64-bit depth at which refusal differs from `depth > 1024`; "
             "the guard of create_account_checkpoint (the Ok:+1 / Err:0 summary) is decided by the provenance-flow job shared with C21.",
        note="Data is abstracted: only control flow and the depth-affecting callees are modelled, which over-approximates the real paths. The pairing of frames "
             "and *_return calls by the call loop is outside the claim.",
        technique="SMT path search (z3+cvc5) over the MIR control-flow graph with callee depth summaries; 64-bit bit-vector query on the depth comparison; native replay of candidates",
        engine="smt-mir",
        design_ref="DESIGN.md §5 C07"),
    "C20": dict(
        text="For every database layer of the crate the has_storage answer is derived from the MIR of its trait impl (own body that reaches the wrapped source, or the "
             "inherited constant default) and compared by z3/cvc5 with the wrapped source's answer for all answers; a difference is replayed on the real types. The block-state database's block_hash is checked for a cache read that is "
             "reachable from a prune site (the answer of a query must not depend on what was pruned in the same call) and for the query of the wrapped database on a miss.",
        note="Partial: the has-storage query through every layer, and the read policy of CacheDB storage / block-hash reads (provenance flow over all paths and cache states); "
             "CacheDB basic/code reads and what CacheDB::commit writes are outside (hash maps); the block-state database's storage read and first load are under C15. "
             "Five layers currently answer `false` regardless of the wrapped data: recorded in known_findings.txt.",
        technique="MIR impl scan + SMT equivalence query (z3+cvc5) per database layer; MIR provenance-flow symbolic execution + SMT path query for CacheDB reads; native replay on the real wrapper types",
        engine="smt-mir", design_ref="DESIGN.md §5 C20"),
    "C21": dict(
        text="The storage-collision input of contract creation is followed from both create paths back to <DB as Database>::has_storage(created_address) (MIR data flow, SMT "
             "equivalence), each database layer's has_storage answer is compared with the data it wraps (as C20), and create_account_checkpoint is executed symbolically "
             "from MIR (provenance flow) against the collision rule and its bookkeeping for all guard inputs.",
        note="Partial: (a) has-storage through every database layer, (b) the flag's data flow in both create paths, (c) the guard of create_account_checkpoint on every path: "
             "collision <=> code hash != KECCAK_EMPTY or nonce != 0 or the flag; a collision reverts the checkpoint it took without storing to the account or journalling. "
             "Gas consumed by the failed create and the revert's own correctness are outside. "
             "EIP-7610 is blind to storage held behind DatabaseComponents, CacheDB and State: recorded in known_findings.txt.",
        technique="MIR data-flow resolution + SMT equivalence query (z3+cvc5); MIR provenance-flow symbolic execution + SMT path query for the collision guard; native replay on the real types",
        engine="smt-mir", design_ref="DESIGN.md §5 C21"),
    "C22": dict(
        text="For each of the three handler rebuild paths the MIR data flow of the reward argument passed to Handler::mainnet* is resolved and the question "
             "`can the rebuilt handler's reward switch differ from the current one` is put to z3 and cvc5 (one query per call site, all call sites of the "
             "function body); one level down, the Boolean parameter of PostExecutionHandler::new must be what selects Some(reward_beneficiary) vs None. A model is replayed through the real Handler API (native tool) before it is reported. "
             "Crate-wide, every function that builds a Handler from scratch while a configured one is at hand (builder paths included) must hand it the configured setting, and inside "
             "Handler::mainnet / mainnet_with_spec the flag may flow only into the construction of the post-execution handler (no branch, no other reader).",
        note="Partial: persistence of the switch across every rebuild site of the crate (reset_handler* and with_*handler_cfg are the documented ways to ask for a new handler and are exempt); "
             "`every other effect is identical` is decided only as `nothing but the reward handle depends on the flag`, not as a whole-transaction differential.",
        technique="MIR data-flow resolution + SMT query (z3+cvc5) per rebuild call site; native replay on the real Handler",
        engine="smt-mir",
        design_ref="DESIGN.md §5 C22"),
    "C03": dict(
        text="Each of ADD SUB LT GT SLT SGT EQ ISZERO AND OR XOR NOT BYTE SHL SHR SAR SIGNEXTEND is run as the real instruction function on a real Interpreter "
             "with fully symbolic 256-bit operands and gas, and CBMC compares result, stack effect, gas charge and failure behaviour with limb-wise reference models "
             "that do not use ruint - the full 2^512 operand space per opcode, which no test vector set can enumerate (sign boundaries, shift 255/256, index 30/31). "
             "DIV, MOD, SDIV and SMOD are decided the same way around a stood-in division kernel.",
        note="Group B: DIV, MOD, SDIV, SMOD are decided for all 2^512 operand pairs RELATIVE to ruint's division kernel (operand order, zero-divisor rule, absolute values, MIN / -1, "
             "sign fix-up, SMOD takes the dividend's sign; the kernel div_rem is replaced by a memoising stand-in constrained by facts of true division); ADDMOD on three slices "
             "(operands below the modulus incl. the 2^256 carry region, zero modulus) and the zero divisor of all four; MUL, MULMOD, EXP and ADDMOD with unreduced operands are outside: "
             "ruint's 256-bit multiply/divide kernels do not unwind in CBMC. "
             "Stack depth is arity+1 / arity-1 per harness; the interpreter is assembled field by field with an 8-word stack buffer.",
        technique="Kani/CBMC bounded model checking of the real opcode functions against limb-wise 256-bit reference models (full operand space)",
        design_ref="DESIGN.md §5 C03"),
    "C08": dict(
        text="The one primitive through which calls move value, JournaledState::transfer, is searched over all paths of its MIR control-flow graph (z3 and cvc5) for an "
             "outcome - success, OutOfFunds, OverflowPayment - on which the number of debits differs from the number of credits of the transferred amount; a model is "
             "replayed on the real journaled state with balances at the 2^256 boundary. The same search decides JournaledState::selfdestruct (a zeroed balance with another "
             "beneficiary was credited to it first) and reimburse_caller (credited exactly once on every non-error return); a provenance-flow execution of transfer (balance reads stamped with the number of stores before them) decides that the credit is computed from the recipient's balance as it is after the debit was stored, so a transfer from an account to itself neither mints nor burns; the per-gas price paid to the beneficiary is followed back from its use in reward_beneficiary and must be effective_gas_price (- basefee).",
        note="Partial: `transfer` (debits == credits on every outcome), `selfdestruct` (a zeroed balance with a different beneficiary is always credited) and "
             "`reimburse_caller` (the caller is credited on every non-error path); amounts, the transaction-level sum and the other fee moves are outside.",
        technique="SMT path search (z3+cvc5) over the MIR control-flow graph with debit/credit classification of balance stores; native replay",
        engine="smt-mir", design_ref="DESIGN.md §5 C08"),
    "C09": dict(
        text="The transaction-level gas bookkeeping is decided on the real functions for all 64-bit values: last_frame_return (gas used <= limit, whole limit on a halt, "
             "unspent gas back on success/revert, refund only on success) and refund (final refund = min(recorded, spent/5 | spent/2)) by CBMC on a real Context; the "
             "EIP-7623 floor step is read off the MIR of transact_preverified_inner and its arithmetic is compared by z3/cvc5 with max(spent - refund, floor); the prices and amounts of the fee "
             "payments are followed by MIR data flow (beneficiary: effective_gas_price or effective_gas_price - basefee, times spent - refunded; reimbursement: effective_gas_price times remaining + refunded); the intrinsic gas and the EIP-7623 floor that feed these steps are decided against the EIP formulas by the validate_initial_tx_gas harnesses shared with C02 (Prague and Cancun, create and call).",
        note="Partial: that the fee payments land on the right accounts with the journal, the per-transaction sum and `intrinsic <= used` are outside (journal, hash maps).",
        technique="Kani/CBMC on the real last_frame_return/refund (full u64 domain) + MIR structure scan with SMT arithmetic check of the floor step",
        engine="kani-cbmc + smt-mir", design_ref="DESIGN.md §5 C09"),
    "C10": dict(
        text="In a static frame every state-changing opcode function is run on symbolic operands with a host on which any call is a failure: CBMC shows the "
             "result is the static-mode error, nothing is charged, no action is scheduled and the host is never reached; SSTORE, CREATE, CREATE2 and SELFDESTRUCT also under the Byzantium / Petersburg / Istanbul rule sets; a value-bearing CALL is rejected for every non-zero value (thorough tier), and the rejection guard of CALL and EXTCALL is read off MIR and decided "
             "to be `is_static && value != 0` over all 256 bits. The static flag handed to child frames is read off the MIR of all seven call opcodes and compared by z3/cvc5 with the required value.",
        note="The end-state-equals-start-state half of the property needs journal revert and is outside. Flag propagation is a structural (MIR) check.",
        technique="Kani/CBMC on the real opcode functions in static mode + MIR aggregate scan with SMT equivalence (z3+cvc5)",
        engine="kani-cbmc + smt-mir", design_ref="DESIGN.md §5 C10"),
    "C11": dict(
        text="SharedMemory context push/pop, growth, the write primitives, resize_memory's quadratic charge and insert_call_outcome's return window are run on "
             "symbolic byte contents and gas with a symbolic witness byte position: CBMC shows a child starts empty and zeroed, the parent is byte-for-byte and "
             "size-wise unchanged after the child, writes touch exactly their window, expansion charges memory_gas(new)-memory_gas(old) and changes nothing on failure.",
        note="Sizes/offsets are concrete per harness (<= 96 bytes, 2 levels); a resize after free_context does not close in CBMC and rests on Vec::resize semantics.",
        technique="Kani/CBMC bounded model checking of the real SharedMemory / resize_memory / insert_call_outcome with symbolic contents and witness index",
        design_ref="DESIGN.md §5 C11"),
    "C12": dict(
        text="Every Stack operation is checked as one inductive step on the real 1024-word buffer from a pre-state with arbitrary contents: result/err class, length, the "
             "moved words and - through a symbolic witness position - that no other word changed; CBMC's pointer checks stay on, so an out-of-bounds copy or swap is a failure.",
        note="Pre-state lengths and dup/exchange offsets are the instantiated ones (boundaries of every check); slices <= 70 bytes; sequences via the invariant len<=1024, capacity==1024.",
        technique="Kani/CBMC single-step induction on the real Stack (1024-word buffer, --arrays-uf-always), symbolic contents and witness position, memory-safety checks on",
        design_ref="DESIGN.md §5 C12"),
    "C13": dict(
        text="Bounded model checking of the compiled Gas meter with Kani/CBMC: every method is decided for all 64-bit values from every "
             "state satisfying remaining<=limit (single-step induction), plus all 4-step method sequences against an unbounded-integer model. "
             "The solver covers the borrow/boundary cases (cost == remaining+1, refund cap at spent/5) that sampled tests cannot enumerate.",
        note="Trusted: Kani 0.68 MIR->goto translation, CBMC 6.11 + CaDiCaL. Assumes erase_cost(returned<=spent), |refund sum|<2^63, "
             "refunded>=0 before set_final_refund. Sequences >4 steps only via the inductive invariant.",
        technique="Kani/CBMC bounded model checking of the real Gas methods (SAT, full 64-bit domain, single-step induction + 4-step sequences)",
        design_ref="DESIGN.md §5 C13"),
    "C14": dict(
        text="Every public gas formula is compared by CBMC against a reference transcribed from the EIPs with literal numbers (u128 arithmetic), "
             "for all 64-bit lengths, all 256-bit storage-value triples and exponents and every SpecId as a symbolic value; None/saturation is required "
             "exactly when the true cost exceeds 64 bits. The solver reaches the boundary cases (2^32+ words, lengths near 2^64, the 3-value "
             "relation matrix x 21 forks) that example-based tests cannot enumerate.",
        note="Bounds: calldata <= 8 bytes, access list <= 2x2 in the intrinsic-gas harness; ruint checked_mul is stubbed (exact on asserted 64-bit domain) "
             "in exp_cost. num_words is one word short for the top 31 lengths (known finding D6, pinned by the repo's own unit test). "
             "Trusted: Kani/CBMC/CaDiCaL, the EIP transcription in the harness.",
        technique="Kani/CBMC bounded model checking of the real gas functions against EIP reference formulas (full 64/256-bit domains, symbolic SpecId)",
        design_ref="DESIGN.md §5 C14"),
    "C29": dict(
        text="Each closure the inspector register installs around frame creation and frame return is searched over all its control-flow paths (z3 and cvc5) for one on "
             "which its input stack is pushed / popped a net number of times other than +1 / -1 - including the path on which the inspector supplies the outcome itself; and every "
             "FrameOrResult built by make_call_frame / make_create_frame / make_eofcreate_frame (or a helper they call) must be of the function's own kind, because the kind selects the stack that is popped. "
             "A model is replayed by running nested calls and a create under a counting inspector, with and without short-circuiting. "
             "The set of opcodes wrapped with the log notification is compared, for all 256 opcodes (8-bit bit-vector query), with the set the instruction table maps to host::log; and the three "
             "frame closures are searched for a path that queues the inputs for *_end before the inspector's hook could rewrite them.",
        note="Partial: per-closure balance, the opcode set of the log wrapper and the order hook -> queue; the pairing of closures by the call loop and step bracketing (C28) are outside.",
        technique="SMT path search (z3+cvc5) over the MIR control-flow graphs of the inspector closures with push/pop counting; native replay with a counting inspector",
        engine="smt-mir", design_ref="DESIGN.md §5 C29"),
    "C31": dict(
        text="The three public entry points that run or pre-verify a transaction are searched over all control-flow paths (z3 and cvc5) for an exit - normal or through `?` - "
             "whose last context-touching call is not followed by Evm::clear(); error hooks passed to inspect_err are analysed the same way (they must clear on every "
             "path); JournaledState::clear must overwrite the whole state by a fresh one on every path. A model is replayed with a transaction that fails the sender-state check on a real Evm. "
             "Two per-transaction reset points that carry `no loaded precompiles / fork rules leak across a spec change` are searched the same way: EvmContext::set_precompiles replaces the set with its argument "
             "and warms its addresses on every path; mainnet load_accounts gives the journal the running handler's spec before it loads anything (replay: a reused EVM across ISTANBUL->BERLIN and CANCUN<->SHANGHAI against a fresh one).",
        note="Partial: decides that the reset is invoked on every exit, that it is a whole-struct reset, and the two reset points named above; the equivalence of result sequences with a fresh EVM is outside.",
        technique="SMT path search (z3+cvc5) over the MIR control-flow graphs of the Evm entry points and their error-hook closures; native replay",
        engine="smt-mir", design_ref="DESIGN.md §5 C31"),
    "C32": dict(
        text="calc_excess_blob_gas is decided for all u64 triples by CBMC. fake_exponential is translated from the nightly MIR dump into SMT-LIB "
             "(integers with explicit u128 overflow flags) and an inductive per-iteration certificate is discharged by z3 and cvc5: for every "
             "numerator up to the first one whose exact intermediates exceed u128 the loop body equals the EIP-4844 step, never overflows and "
             "terminates, hence the result equals the unbounded-integer definition. The boundary numerator is decided by the solver and replayed natively.",
        note="Bounded: numerators <= 192204552 (Cancun) / 284284038 (Prague); from the next numerator on the u128 product wraps (known finding, "
             "listed in known_findings.txt). Trusted: nightly MIR == compiled semantics (validated on the unit-test vectors each run), z3, cvc5, Kani/CBMC.",
        technique="MIR->SMT-LIB inductive certificate (z3+cvc5) for fake_exponential; Kani/CBMC for calc_excess_blob_gas and low-range price",
        engine="kani-cbmc + smt-mir",
        design_ref="DESIGN.md §5 C32"),
}
SMT_SERVES = {"C32", "C07", "C22", "C20", "C21", "C05", "C10", "C09", "C08", "C31", "C29"}

# --------------------------------------------------------------------------- not applicable (reason shown in MANIFEST.json)
NOT_APPLICABLE = {
    "C01": "whole-transaction equivalence with the execution specification needs symbolic execution of interpreter + call loop + journal + hash maps against a reference EVM; a single journaled transfer+revert already exhausts CBMC (DESIGN §2), and no reference implementation exists to encode. Its kernels are claimed under C02-C05, C09-C14.",
    "C16": "bundle changesets over histories of transitions: apply_transitions_and_create_reverts / to_plain_state / TransitionAccount::update loop over nested std HashMaps (accounts x storage) - two inserts and a lookup on a std HashMap give no answer in 600 s in CBMC (DESIGN §2), and the provenance-flow encoder decides one loop-free step, not a merge schedule; the per-account commit step that feeds the transitions is decided under C15.",
    "C17": "per-group reverts of BundleAccount/Reverts over histories with destroy/recreate sequences: hash-map storage plus an 8-state status machine whose valid (bundle status, transition status) pairs are defined only by the producer (CacheAccount) over histories; the single-account round-trip stretch was not attempted (hashbrown iteration/drain even on empty maps, status/info consistency preconditions).",
    "C18": "extend / take_n_reverts / prepend_state over whole bundles (hash maps of accounts and reverts, histories and split points): loops over nested hash maps on both operands, out of reach for CBMC (DESIGN §2) and not a single-step statement the provenance-flow encoder could carry.",
    "C19": "State over a preloaded bundle versus the merged plain state for all histories: a whole-structure equivalence over hash maps; only the lookup order of one read (cache, then preloaded bundle, then database) is decided, under C15 (load_cache_account, code_by_hash).",
    "C24": "both halves compare C libraries behind FFI (libsecp256k1, c-kzg) with pure-Rust field/curve arithmetic (k256, kzg-rs): FFI cannot be encoded and 256/381-bit modular multiplication chains are far beyond bit-blasting; the Kani build of the precompile crate has neither C backend.",
    "C25": "`any bytecode, any gas, terminates memory-safely` is a whole-interpreter run through a table of 256 function pointers (CBMC crashes on it, DESIGN §2) with data-dependent loops. Only kernels are decidable and are decided where they live, with CBMC's pointer checks on: stack copies (C12), memory slices (C11), jump targets and the analysis walk (C04), PUSHn reads inside the padded buffer (harness c25::*, kept as a kernel and listed in DESIGN §5) - they do not add up to the property, so it is not claimed.",
    "C26": "Eof::decode on 20 symbolic bytes (the minimal container) is 15.7 M variables / 68 M clauses and does not finish in 298 s with CaDiCaL or kissat; header decode+encode round trip hits 12 GB after 121 s: CBMC does not constant-propagate the slice lengths and unrolls every decoder loop to the bound (numbers in lib/fragments/NOTES_c27.md). The validation=>no-panic half is a whole-program statement.",
    "C33": "needs the `optimism` feature build of the handler (L1 block info loaded from storage, deposit handling across handler closures) plus whole transactions; the L1-cost helper functions alone do not carry the conservation statement. The harness crate is built without the optimism feature.",
}


# --------------------------------------------------------------------------- fragments written per property (lib/fragments/REGISTRY_*.py)
import glob as _glob, os as _os
for _f in sorted(_glob.glob(_os.path.join(_os.path.dirname(_os.path.abspath(__file__)), "fragments", "REGISTRY_*.py"))):
    exec(compile(open(_f).read(), _f, "exec"))
