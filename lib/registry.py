"""Per-property obligations: Kani harnesses (E1) and SMT/MIR jobs (E2/E3)."""
from kani_runner import ARRAYS_UF

PROPS = {}


def H(name, tier="quick", flags=(), timeout=600, mem_gb=8, bounds="", expect_fail=False, **kw):
    d = dict(name=name, tier=tier, flags=list(flags), timeout=timeout, mem_gb=mem_gb, bounds=bounds, expect_fail=expect_fail)
    d.update(kw)
    return d


# --------------------------------------------------------------------------- C13
PROPS["C13"] = dict(
    functions=["revm_interpreter::Gas::{new,new_spent,record_cost,erase_cost,spend_all,record_refund,set_final_refund,"
               "set_refund,set_spent,spent,spent_sub_refunded,remaining_63_of_64_parts} (crates/interpreter/src/gas.rs)"],
    bounds="no value bound: every u64 limit/cost/returned amount and every i64 refund; single-step induction from every state with "
           "remaining<=limit; additionally all method sequences of length 4 (6 methods, symbolic arguments) from Gas::new(limit)",
    outside="sequences longer than 4 are covered only through the single-step inductive harnesses (invariant remaining<=limit)",
    assumptions=["erase_cost(returned) is only called with returned <= spent (callers return gas that was charged to the parent)",
                 "record_refund: |refunded + refund| < 2^63", "set_final_refund: refunded >= 0 at the end of a transaction",
                 "Kani 0.68/CBMC 6.11/CaDiCaL and rustc MIR->goto translation are trusted"],
    harnesses=[
        H("c13::c13_new", bounds="all u64 limits"),
        H("c13::c13_record_cost", bounds="all states (two constructions) x all u64 costs"),
        H("c13::c13_erase_cost", bounds="all states x returned<=spent"),
        H("c13::c13_spend_all_and_set_spent", bounds="all states x all u64"),
        H("c13::c13_spent_identities", bounds="all states"),
        H("c13::c13_set_final_refund", bounds="all states with refunded>=0 x london flag", timeout=900),
        H("c13::c13_record_refund", bounds="all states x all i64 with in-range sum"),
        H("c13::c13_sequence_4", bounds="all u64 limits x 6^4 method sequences with symbolic arguments", timeout=900),
        H("c13::c13_twin_must_fail", expect_fail=True, bounds="vacuity twin"),
    ],
)


# --------------------------------------------------------------------------- manifest text per claimed property
CLAIMS = {
    "C13": dict(
        text="Bounded model checking of the compiled Gas meter with Kani/CBMC: every method is decided for all 64-bit values from every "
             "state satisfying remaining<=limit (single-step induction), plus all 4-step method sequences against an unbounded-integer model. "
             "The solver covers the borrow/boundary cases (cost == remaining+1, refund cap at spent/5) that sampled tests cannot enumerate.",
        note="Trusted: Kani 0.68 MIR->goto translation, CBMC 6.11 + CaDiCaL. Assumes erase_cost(returned<=spent), |refund sum|<2^63, "
             "refunded>=0 before set_final_refund. Sequences >4 steps only via the inductive invariant.",
        technique="Kani/CBMC bounded model checking of the real Gas methods (SAT, full 64-bit domain, single-step induction + 4-step sequences)",
        design_ref="DESIGN.md §5 C13"),
}

# --------------------------------------------------------------------------- not applicable (reason shown in MANIFEST.json)
NOT_APPLICABLE = {
    "C01": "whole-transaction equivalence with the execution specification needs symbolic execution of interpreter + call loop + journal + hash maps against a reference EVM; a single journaled transfer+revert already exhausts CBMC (DESIGN §2), and no reference implementation exists to encode. Its kernels are claimed under C02-C05, C12-C14.",
}
