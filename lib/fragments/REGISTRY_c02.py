# Fragment for lib/registry.py — exec'd with PROPS, CLAIMS, H, ARRAYS_UF in scope.
# Fast flags: Kani's per-assertion reachability checks make CBMC emit ~170 traces per harness (x2.5 time, x4 memory:
# c02_state_prague 195 s / 3.4 GB with them, 90 s / 0.76 GB without). They only add the "(N unreachable)" annotation;
# verdicts of the assertions are unchanged and vacuity is guarded by the kani::cover! witnesses. All harnesses also
# pass with flags=[] inside 5 min / 8 GB.
_C02_FAST = ["-Z", "unstable-options", "--no-assertion-reach-checks"]
_C02_MUL = ["ruint::Uint::checked_mul -> c02::stub_checked_mul", "ruint::Uint::saturating_mul -> c02::stub_saturating_mul",
            "std::hash::RandomState::new -> c02::stub_random_state"]
_C02_QUICK = ["frontier", "homestead", "istanbul", "berlin", "london", "merge", "shanghai", "cancun", "prague"]
_C02_THOROUGH = ["tangerine", "spurious_dragon", "byzantium", "petersburg", "osaka", "latest"]


def _c02(spec, tier):
    return [
        H("c02::c02_env_" + spec, tier=tier, flags=_C02_FAST, timeout=600, mem_gb=4,
          bounds="validate_block_env + validate_tx, whole Env symbolic within the list bounds; domain MAIN "
                 "(base fee + priority fee < 2^256, no authorization list on a create tx)", stubs_expected=[]),
        H("c02::c02_state_" + spec, tier=tier, flags=_C02_FAST, timeout=600, mem_gb=4,
          bounds="validate_tx_against_state, Env and sender Account symbolic; domain MAIN "
                 "(not: Cancun+ and max_fee_per_blob_gas x blob gas >= 2^256)", stubs_expected=_C02_MUL),
        H("c02::c02_gas_" + spec, tier=tier, flags=_C02_FAST, timeout=600, mem_gb=4,
          bounds="validate_initial_tx_gas, all gas limits x calldata <= 8 bytes x access list <= 1x2 x auth list <= 1 x create/call",
          stubs_expected=[]),
    ]


PROPS["C02"] = dict(
    functions=["revm_primitives::Env::validate_block_env::<SPEC>", "revm_primitives::Env::validate_tx::<SPEC>",
               "revm_primitives::Env::validate_tx_against_state::<SPEC>(&mut Account)",
               "revm::handler::mainnet::validate_initial_tx_gas::<SPEC, EmptyDB> (incl. revm_interpreter::gas::calculate_initial_tx_gas)",
               "helpers reached from them: Env::effective_gas_price, Env::calc_max_data_fee, TxEnv::get_total_blob_gas, "
               "BlockEnv::get_blob_gasprice, CfgEnv::blob_max_count, Bytecode::{is_empty,is_eip7702}, AuthorizationList::{len,is_empty}"],
    bounds="SPEC = every Spec type of the mainnet build (Frontier, Homestead, Tangerine, SpuriousDragon, Byzantium, Petersburg, Istanbul, "
           "Berlin, London, Merge, Shanghai, Cancun, Prague, Osaka, Latest), one harness triple each. All scalars unconstrained "
           "(u64 gas limit / nonces / chain ids, u128 blob gas price, 256-bit gas price, priority fee, base fee, block gas limit, value, "
           "balance, max_fee_per_blob_gas; all Option fields None/Some). Lists: calldata 0..=8 symbolic bytes, access list 0..=1 item x 0..=2 keys, "
           "blob hashes 0..=2 with symbolic version byte, authorization list None / Some(empty) / Some(1) in Signed and Recovered form, "
           "blob schedule [(CANCUN,_,m1),(PRAGUE,_,m2)] with symbolic u8 maxima, limit_contract_code_size None or any usize. "
           "Sender: code LegacyRaw(empty) / Bytecode::default() / LegacyRaw(1..=3 symbolic bytes) / Eip7702 designation, all 8 status bits, empty storage. unwind 10.",
    outside="Evm::transact clearing the journal / warm set after a failed validation and later transactions being unaffected (whole-Evm history, C31); "
            "the wrapper validation::validate_tx_against_state (loads the caller through the journal: std HashMap); builds with any optional_* feature "
            "(optional_balance_check makes validation WRITE the balance) or optimism; EIP-2681 nonce cap (no rule in these functions); EOF and non-empty "
            "analysed sender code; longer lists; the 49152-byte default initcode limit is only exercised on its accept side (the reject side through a "
            "symbolic limit_contract_code_size); blob counts above 2 (TooManyBlobs exercised through symbolic schedule maxima); other blob-schedule shapes; "
            "when several rules are broken at once the harness requires the reported class to be ONE OF the broken rules, not a particular precedence.",
    assumptions=["reference predicates are written in the harness from EIP-155/1559/2930/3607/3860/4844/7623/7702 + yellow-paper intrinsic gas, with literal numbers and limb arithmetic (no ruint, no crate constants)",
                 "stub: ruint Uint::checked_mul and Uint::saturating_mul (state harnesses) return the exact schoolbook product computed once by the harness (w_mul64) and ASSERT that the operands are (gas_limit, gas_price) resp. (max_fee_per_blob_gas, 131072*blobs); ruint multiplication is trusted; ruint add/compare are executed",
                 "stub: std::hash::RandomState::new returns fixed keys (only the sender's empty storage map is built; never hashed into)",
                 "kani::assume: list-shape bounds above; domain splits MAIN / FEE_WRAPS / SETCODE_CREATE (env) and MAIN / BLOB_FEE_WRAPS (state) — every part has a harness",
                 "--no-assertion-reach-checks (performance only)", "Kani 0.68 / CBMC 6.11 / CaDiCaL trusted"],
    harnesses=[h for s in _C02_QUICK for h in _c02(s, "quick")]
    + [h for s in _C02_THOROUGH for h in _c02(s, "thorough")]
    + [
        # complement domains: FAIL on the tree as received (findings F1..F3 in NOTES_c02.md; proposed known_findings lines there)
        H("c02::c02_env_london_fee_sum_wraps", tier="quick", flags=_C02_FAST, timeout=600, mem_gb=4,
          bounds="London, base fee + priority fee >= 2^256", stubs_expected=[]),
        H("c02::c02_env_prague_fee_sum_wraps", tier="thorough", flags=_C02_FAST, timeout=600, mem_gb=4,
          bounds="Prague, base fee + priority fee >= 2^256", stubs_expected=[]),
        H("c02::c02_env_prague_setcode_create", tier="quick", flags=_C02_FAST, timeout=600, mem_gb=4,
          bounds="Prague, authorization list present on a Create transaction", stubs_expected=[]),
        H("c02::c02_state_cancun_blob_fee_wraps", tier="quick", flags=_C02_FAST, timeout=600, mem_gb=4,
          bounds="Cancun, max_fee_per_blob_gas x blob gas >= 2^256", stubs_expected=_C02_MUL),
        H("c02::c02_twin_must_fail", expect_fail=True, flags=_C02_FAST, bounds="vacuity twin", mem_gb=4,
          stubs_expected=["std::hash::RandomState::new -> c02::stub_random_state"]),
    ],
)

CLAIMS["C02"] = dict(
    text="For every Spec type, the four validation functions return Err exactly when a reference rule set written from the EIPs is broken, "
         "the error names a rule that is actually broken (payloads of NonceTooHigh/NonceTooLow/LackOfFundForMaxFee/TooManyBlobs exact), an accepted "
         "transaction gets the EIP intrinsic and floor gas, validate_tx never reaches its `expect` after a passed header check, and "
         "validate_tx_against_state leaves balance, nonce, code hash, code, status flags and storage of the Account untouched on Ok and on Err — "
         "for all scalar values and the stated list shapes. Three input regions where the code departs from the rule set are isolated in their own "
         "harnesses and reported (wrapping base-fee sum, EIP-7702 nil destination, saturating blob fee).",
    note="Stateless/stateful/gas rules are checked per function, not through Evm::transact; ruint multiplication trusted (stubbed by an exact product with operand assertions); "
         "mainnet build without optional_* features; error precedence among simultaneously broken rules is not fixed by the reference.",
    technique="Kani/CBMC bounded model checking of the real functions against an independent rule-by-rule reference; one harness triple per Spec type; cover witnesses per rule",
    design_ref="DESIGN.md §5 C02",
)
