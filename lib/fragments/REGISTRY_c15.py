# Registry fragment for C15 (exec'd with PROPS, CLAIMS, H, NOT_APPLICABLE, SMT_SERVES in scope): the per-account step of the block-state database.
import jobs_c15 as _jobs_c15
PROPS["C15"] = dict(
    functions=["revm::db::states::CacheState::apply_account_state (crates/revm/src/db/states/cache.rs) and its two storage closures: every path",
               "revm::db::states::CacheAccount::{selfdestruct, touch_empty_eip161, newly_created, touch_create_pre_eip161, change} "
               "(crates/revm/src/db/states/cache_account.rs) and the closures they pass to Option::map / Iterator::map: every path",
               "revm::db::State::{storage (+ closure), load_cache_account} (crates/revm/src/db/states/state.rs): every path",
               "<revm::db::CacheDB<ExtDB> as DatabaseCommit>::commit (crates/revm/src/db/in_memory_db.rs): one iteration of the loop over committed accounts (back edges cut), "
               "from an arbitrary cached (info, account_state, storage)",
               "revm::db::AccountStatus::{is_not_modified, was_destroyed, is_storage_known, is_modified_and_not_destroyed, on_created, on_changed, on_selfdestructed, "
               "on_touched_empty_post_eip161, on_touched_created_pre_eip161} (crates/revm/src/db/states/account_status.rs): all 8 statuses x both flag values"],
    bounds="one committed account from an ARBITRARY cached (account, status) pair - the entry values of self.account and self.status are free variables, so every "
           "commit history that produced them is covered for that account; apply_account_state: all 32 values of (touched, selfdestructed, created, empty, "
           "has_state_clear); State::storage: (slot cached?, storage known?); load_cache_account: (cached?, use_preloaded_bundle, in bundle?, database answer "
           "present?, empty?); status machine: 8 statuses x 2 flags, exhaustively",
    outside="the loop over accounts in apply_evm_state and the transition / bundle bookkeeping behind it (C16-C19), increment_balance / drain_balance "
            "(account_info_change is generic over a closure), code_by_hash, block-hash pruning; the contents "
            "of storage maps (extend / collect are events, std semantics assumed); equality of execution results between State and CacheDB",
    assumptions=["memory cells for self.account / self.status; Option::take / map / as_ref, HashMap::iter / collect / extend, Default, Clone are modelled by "
                 "provenance tags (+6000 info of, +7000 storage of, +5000 Boolean test of, +2000 present values of); every closure handed to map is checked to be the "
                 "projection the tag stands for (a.info, a.info.is_empty(), AccountInfo::has_no_code_and_nonce, (key, slot.present_value), slot.is_changed(), slot.into())",
                 "status-machine soundness conditions (harness c15.rs): K = storage known, D = destroyed in this block, M = modified; they are this framework's reading of what "
                 "State::storage and the bundle need from a status (zero without a database read only when every uncached slot is zero; a destruction is never forgotten)",
                 "z3 4.8.12 and cvc5 1.0 agree; a sat answer is replayed by the native scenarios `block_state_kernel` (real CacheAccount / State / commit) before it is reported"],
    harnesses=[H("c15::c15_status_predicates", timeout=300, mem_gb=2, bounds="all 8 statuses"),
               H("c15::c15_on_selfdestructed", timeout=300, mem_gb=2, bounds="all 8 statuses"),
               H("c15::c15_on_created", timeout=300, mem_gb=2, bounds="all 8 statuses"),
               H("c15::c15_on_changed", timeout=300, mem_gb=2, bounds="all 8 statuses x flag (LoadedEmptyEIP161 only with flag = true)"),
               H("c15::c15_on_touched_empty_post_eip161", timeout=300, mem_gb=2, bounds="the 6 statuses for which the function is defined (Loaded / Changed panic by contract)"),
               H("c15::c15_on_touched_created_pre_eip161", timeout=300, mem_gb=2, bounds="the 6 statuses for which the function is defined x flag"),
               H("c15::c15_twin_must_fail", expect_fail=True, timeout=300, mem_gb=2, bounds="vacuity twin")],
    jobs=[dict(name="e3::block_state_dispatch_and_reads", fn=_jobs_c15.run_block_state_kernel),
          dict(name="e3::cache_account_operations", fn=_jobs_c15.run_cache_account_ops),
          dict(name="e3::cachedb_commit_step", fn=_jobs_c15.run_cachedb_commit)],
)
# the same kernels carry C20's "plus any changes committed through them" for the two caching layers
PROPS["C20"]["jobs"] = PROPS["C20"]["jobs"] + [dict(name="e3::cache_account_operations", fn=_jobs_c15.run_cache_account_ops),
                                               dict(name="e3::cachedb_commit_step", fn=_jobs_c15.run_cachedb_commit),
                                               dict(name="e3::block_state_dispatch_and_reads", fn=_jobs_c15.run_block_state_kernel)]
PROPS["C20"]["functions"] = PROPS["C20"]["functions"] + ["<CacheDB<ExtDB> as DatabaseCommit>::commit (one iteration of the account loop); the block-state kernels of C15 "
                                                         "(apply_account_state, CacheAccount operations, State::storage, load_cache_account)"]
CLAIMS["C15"] = dict(
    text="The single-account step of committing EVM output into the block-state database is decided from an arbitrary cached state (one inductive step, so any "
         "commit history for that account): which CacheAccount operation the account's flags select and with which arguments (only changed slots, the account's own "
         "info); for each operation what it leaves in the cache (account present/removed, which info and storage), that the new status is the status machine's answer "
         "for the previous status and the right flag, that a `no change` answer really changes nothing, and that the transition records exactly the previous info and "
         "status; how State::storage chooses between cached slot, zero (only when the status says the storage is known) and the database; how a database answer is "
         "classified on first load; and one iteration of CacheDB::commit (untouched / self-destructed / created / changed, with `storage known empty` preserved across later changes). All of that by provenance-flow symbolic execution of the MIR bodies with z3+cvc5 over every path. The status machine itself is "
         "decided exhaustively by CBMC against soundness conditions for `storage known` / `destroyed` / `modified`.",
    note="Partial: per-account kernels only. The loop over accounts, transitions -> bundle (C16-C19), increment/drain balance, code reads and the "
         "State-vs-CacheDB execution equivalence are outside; storage map contents are not modelled (which map is extended by which slots is).",
    technique="MIR provenance-flow symbolic execution + SMT path queries (z3+cvc5) for apply_account_state, five CacheAccount operations, State::storage, load_cache_account; "
              "Kani/CBMC exhaustive check of the AccountStatus transition functions; native replay on the real types",
    engine="kani-cbmc + smt-mir",
    design_ref="DESIGN.md §5 C15",
)
NOT_APPLICABLE.pop("C15", None)
SMT_SERVES.add("C15")
# round 4: block-hash pruning never changes an answer (State::block_hash)
PROPS["C20"]["jobs"] = PROPS["C20"]["jobs"] + [dict(name="e3::block_hash_pruning_keeps_answers", fn=__import__("jobs_c20").run_block_hash_pruning)]
PROPS["C20"]["functions"] = PROPS["C20"]["functions"] + ["<State<DB> as Database>::block_hash (crates/revm/src/db/states/state.rs): prune sites, cache read sites, the query of the wrapped database"]
