# Registry fragment for C28 and C30 (exec'd with PROPS, CLAIMS, H, NOT_APPLICABLE, SMT_SERVES in scope): the wrappers installed by inspector_handle_register.
import jobs_c30 as _jobs_c30
import jobs_e3
_WRAP_ASSUME = ["closures are located by what they call (Inspector::selfdestruct / call / create / ... ) among inspector_handle_register::{closure#k}; the wrapped instruction or "
                "previous handler is the `dyn Fn` the closure received or captured; hooks of the inspector are uninterpreted (their results are free variables)",
                "z3 4.8.12 and cvc5 1.0 agree; a sat answer or an unrecognised shape is replayed natively (`selfdestruct_notify`, `inspector_transparency`) before it is reported"]
PROPS["C30"] = dict(
    functions=["the closure registered for opcode SELFDESTRUCT by revm::inspector_handle_register (crates/revm/src/inspector/handler_register.rs) and the closures it passes to Option::map: every path"],
    bounds="every path of the wrapper x (result test after the instruction: SelfDestruct or not) x (beneficiary word on the stack or not)",
    outside="that an instruction_result of SelfDestruct means JournaledState::selfdestruct ran (the instruction itself: C10/C08 kernels), further wrappers registered on top by other "
            "handle registers, the order of notifications across nested frames, what each shipped inspector does with the notification",
    assumptions=_WRAP_ASSUME + ["`the balance that left the contract` is read as balance(contract) before the instruction minus after it (saturating): the whole balance for a transfer or burn, zero "
                               "for a Cancun self-destruct to itself of a contract not created in the transaction"],
    jobs=[dict(name="e3::selfdestruct_notification", fn=_jobs_c30.run_selfdestruct_notification)],
)
CLAIMS["C30"] = dict(
    text="The wrapper around SELFDESTRUCT is executed symbolically from MIR (provenance flow, every path): the wrapped instruction runs exactly once with the wrapper's own arguments; "
         "the inspector is notified exactly when the instruction came back with instruction_result == SelfDestruct - a test made after it ran - and a beneficiary word was on the stack; "
         "the notification names the executing contract (contract.target_address), Address::from_word of the word that was on top of the stack before the instruction ran, and the "
         "contract's balance before minus after. z3 and cvc5 decide the policy over all paths; native scenarios replay it (failed SELFDESTRUCT after a value call, beneficiary = self "
         "under Cancun and Shanghai, ordinary beneficiary, no SELFDESTRUCT).",
    note="Partial: the wrapper only. `Every SELFDESTRUCT that completes` is taken as `the instruction returned SelfDestruct`; that the instruction then really destroyed/moved what it "
         "should is outside (journal), as are nested-frame ordering and other registers' wrappers. The defect this check found on the tree as received (notification inferred from the "
         "last journal entry: false and wrong notifications) is repaired, see known_findings.txt.",
    technique="MIR provenance-flow symbolic execution + SMT path query (z3+cvc5) of the SELFDESTRUCT wrapper closure; native replay with a recording inspector",
    engine="smt-mir", design_ref="DESIGN.md §5 C30",
)
PROPS["C28"] = dict(
    functions=["revm::inspector::handler_register::inspector_instruction (the step / step_end wrapper put around every instruction)",
               "the closures inspector_handle_register installs for execution.call, create, eofcreate, insert_call_outcome, insert_create_outcome, insert_eofcreate_outcome, last_frame_return: every path",
               "revm::inspectors::GasInspector::{initialize_interp, step, step_end, call_end, create_end} (crates/revm/src/inspector/gas.rs): every path"],
    bounds="every path of the eight bodies x (kind of the frame result) x (inspector answered the call/create itself or not) x (step left a result or not); the instruction pointer at entry is a free variable",
    outside="the whole-transaction statement (result, gas, logs, state equal with and without inspector): only that each wrapper hands control on unchanged is decided; the LOG and "
            "SELFDESTRUCT wrappers' extra notifications, the body of TracerEip3155 beyond its delegation to "
            "GasInspector (formatting, output), NoOpInspector (no code), the table update mechanics of update_all / update_boxed",
    assumptions=_WRAP_ASSUME + ["`observing` = Inspector::call/create/eofcreate answer None, the *_end hooks return the outcome they were given, step leaves instruction_result at Continue: "
                               "under these the decided facts make every wrapper the identity around the wrapped handler"],
    jobs=[dict(name="e3::inspector_wrapper_transparency", fn=_jobs_c30.run_inspector_transparency),
          dict(name="e3::gas_inspector_only_observes", fn=_jobs_c30.run_gas_inspector_observes),
          dict(name="e3::inspector_stack_balance", fn=jobs_e3.run_inspector_balance)],  # shared with C29: an unbalanced input stack makes a wrapper panic
)
CLAIMS["C28"] = dict(
    text="Each wrapper that inspector_handle_register puts around the execution handlers and around every instruction is executed symbolically from MIR (provenance flow, every path) "
         "and z3/cvc5 decide that it is transparent: inspector_instruction calls step once (with the instruction pointer moved back by one, as documented), then - unless step left a "
         "result - runs the wrapped instruction exactly once with the instruction pointer and arguments it would have had without an inspector, then step_end once; the call / create "
         "/ eofcreate wrappers show the inspector the very inputs object they hand on, invoke the previous handler exactly once with their own context and inputs unless the inspector "
         "answered, and return its result unchanged; the three outcome wrappers hand the previous handler their own arguments and what the *_end hook returned for the outcome given. "
         "The shipped GasInspector is shown to only observe: its step hooks never store into the interpreter or context, and call_end / create_end return the outcome they were given, "
         "touching it only by spend_all under is_error(result). The input-stack balance of the wrappers (shared with C29) rules out the empty-stack panic.",
    note="Partial: transparency of the seven wrappers, which is the mechanism the property rests on; the end-to-end equality of results for whole transactions, the tracer's "
         "own body, and the LOG / SELFDESTRUCT notification wrappers (C30) are outside.",
    technique="MIR provenance-flow symbolic execution + SMT path queries (z3+cvc5) of inspector_instruction and six handler closures; native differential replay with an observing inspector",
    engine="smt-mir", design_ref="DESIGN.md §5 C28",
)
for _p in ("C28", "C30"):
    NOT_APPLICABLE.pop(_p, None)
    SMT_SERVES.add(_p)
