# Registry fragment for C34 (exec'd with PROPS, CLAIMS, H, NOT_APPLICABLE, SMT_SERVES in scope): the warming kernel.
import jobs_c34 as _jobs_c34
_C34_RS = ["new -> stub_random_state"]
PROPS["C34"] = dict(
    functions=["revm::JournaledState::load_account (crates/revm/src/journaled_state.rs): every path of its MIR body",
               "revm::JournaledState::sload (crates/revm/src/journaled_state.rs): every path of its MIR body (sstore reads the slot through it)",
               "revm::handler::mainnet::pre_execution::load_accounts (generic body): coinbase / BLOCKHASH_STORAGE_ADDRESS pre-warming gates",
               "revm::JournaledState::initial_account_load (access-list / authority pre-loading): the loop-free prefix and ONE iteration of the key loop (back edges cut)",
               "revm_interpreter::gas::{sstore_cost, sload_cost, warm_cold_cost, call_cost, selfdestruct_cost} (crates/interpreter/src/gas/calc.rs): the cold/warm price maps (C14's harnesses)",
               "revm_primitives::Account::{mark_warm, mark_cold, new_not_existing}, From<AccountInfo> for Account, EvmStorageSlot::{new, new_changed, mark_warm, mark_cold} "
               "(crates/primitives/src/state.rs): all 256 status bytes, all slot values"],
    bounds="load_account: every path x (entry present?, result of mark_warm, result of warm_preloaded_addresses.contains); sload: every path x (slot present?, result of "
           "mark_warm, account created in this transaction?); load_accounts: every path x (SHANGHAI enabled?, PRAGUE enabled?); one step from an arbitrary journal state; "
           "mark_warm / mark_cold: all 2^8 status bytes, all 2^512 slot value pairs",
    outside="the composition of per-entry un-warming into whole-frame forgetting (the per-entry facts are decided by the job shared with C06), which addresses "
            "and keys load_access_list / the EIP-7702 handler hand to initial_account_load, precompile addresses in warm_preloaded_addresses (set_precompiles), that the "
            "instructions hand the reported flag to the price function (the price maps themselves are decided, by C14's harnesses run here too), the per-transaction statement",
    assumptions=["std HashMap::entry / HashSet::contains / Vec::push behave as documented (they are uninterpreted in the encoding: their results are free variables, "
                 "the policy is checked for every value of them)",
                 "tags: 11xx field xx of the cached slot, 12 constant zero, 13 database answer, 14 error; journal entries 31 AccountWarmed, 32 StorageWarmed",
                 "z3 4.8.12 and cvc5 1.0 agree; a sat answer is replayed by the native scenarios `warm_kernel` before it is reported",
                 "Kani harnesses: RandomState::new stubbed (the storage map of the Account under test stays empty and is never hashed into)"],
    harnesses=[H("c34::c34_account_mark_warm_cold", timeout=600, mem_gb=4, bounds="all 256 status bytes", stubs_expected=_C34_RS),
               H("c34::c34_loaded_accounts_start_warm", timeout=600, mem_gb=4, bounds="all balances / nonces", stubs_expected=_C34_RS),
               H("c34::c34_slot_mark_warm_cold", timeout=600, mem_gb=4, bounds="all original/present values, both marks"),
               # the warm/cold price maps are C14's harnesses; they are part of what `charged exactly` means here and run under C34 too
               H("c14::c14_sstore_cost", timeout=600, mem_gb=6, bounds="SSTORE cost for all (original, present, new) x cold/warm x remaining gas, Frontier / Istanbul / Berlin+ schedules"),
               H("c14::c14_sload_and_warm_cold", timeout=600, mem_gb=6, bounds="SLOAD and account-access cost for every fork class x cold/warm"),
               H("c14::c14_call_cost", timeout=600, mem_gb=6, bounds="CALL cost for every fork class x cold/warm x value x new account"),
               H("c14::c14_selfdestruct_cost", timeout=600, mem_gb=6, bounds="SELFDESTRUCT cost for every fork class x cold/warm x value x target exists"),
               H("c34::c34_twin_must_fail", expect_fail=True, timeout=600, mem_gb=4, bounds="vacuity twin", stubs_expected=_C34_RS)],
    jobs=[dict(name="e3::warming_kernel", fn=_jobs_c34.run_warm_kernel),
          dict(name="e3::journal_revert_per_entry", fn=__import__("jobs_c06").run_journal_revert)],  # shared with C06: un-warming on revert
)
CLAIMS["C34"] = dict(
    text="The functions that decide whether an access is cold are executed symbolically from their MIR (provenance-flow encoding, every path, every value of the map "
         "lookups and flags) and z3/cvc5 compare what they report with the access rules: load_account reports cold exactly for an entry that carries the cold mark or "
         "an absent address that is not pre-warmed, sload for a slot that carries the mark or is absent; a cold report is journalled exactly once with the right entry "
         "kind, an absent slot is inserted with the value returned (zero without a database read for an account created in this transaction); load_accounts pre-warms "
         "the coinbase exactly from SHANGHAI and the block-hash contract exactly from PRAGUE; initial_account_load never returns successfully without having walked the key list, "
         "reuses a present account, and per key keeps a present slot and loads an absent one from the database for exactly (address, key). CBMC decides mark_warm/mark_cold for every status byte and slot.",
    note="Partial: the first-access half of the property on the kernel functions, and per journal entry that a revert cools exactly what the entry warmed and nothing else (shared with C06). Which entries the access-list / authority handlers pass on, precompile pre-warming "
         "and the link from the reported flag to the gas charged by each instruction are outside (journal loops and hash maps, DESIGN §2); warm/cold prices are under C14.",
    technique="MIR provenance-flow symbolic execution + SMT path query (z3+cvc5) for load_account / sload / load_accounts; Kani/CBMC for the cold-mark bit operations; native replay",
    engine="kani-cbmc + smt-mir",
    design_ref="DESIGN.md §5 C34",
)
NOT_APPLICABLE.pop("C34", None)
SMT_SERVES.add("C34")
