# Registry fragment for C06 (exec'd with PROPS, CLAIMS, H, NOT_APPLICABLE, SMT_SERVES in scope): journal entries, their undo, checkpoint bookkeeping.
import jobs_c06 as _jobs_c06
PROPS["C06"] = dict(
    functions=["revm::JournaledState::journal_revert (crates/revm/src/journaled_state.rs): ONE iteration of its loop over the entries (back edges cut), all ten entry kinds",
               "revm::JournaledState::{checkpoint, checkpoint_commit, checkpoint_revert (+ its per-vector closure)}: every path",
               "revm::JournaledState::{touch_account, inc_nonce, set_code_with_hash, sstore, tstore, selfdestruct}: every path (forward journalling); the two fallible operations transfer and "
               "create_account_checkpoint (nothing stays changed when they fail: the jobs of C08 / C21, run here too); selfdestruct value moves and load_account / sload warming are decided under C08, C34"],
    bounds="journal_revert: one entry of each of the 10 kinds x (was_destroyed, address != target, Spurious Dragon, address == the RIPEMD precompile, recorded transient value zero?) from an "
           "arbitrary state - an inductive step over the entry list, which is walked in reverse (checked); checkpoint functions: depth and lengths symbolic; forward functions: every path x "
           "(already touched?, nonce at maximum?, new value == present value?, previous transient value present / different?)",
    outside="the composition - that a sequence of per-entry undos in reverse order restores the whole state - is the induction the per-entry facts are meant for, it is not itself encoded; "
            "log(); the std collections (Vec::truncate, iter_mut().rev().take(n), HashMap get_mut/insert/remove are events with std "
            "semantics); balances as numbers (add_assign / sub_assign of the recorded amount are events: that += then -= cancels is arithmetic, not decided here)",
    assumptions=["account / slot / transient-key identities are tags built from the entry's fields (ACC(address), SLOT(ACC(address), key), (address, key)); an undo must touch exactly the object the "
                 "entry names with exactly the value it recorded, and nothing else (every other event and store count is zero)",
                 "what each kind's undo must be is derived from the forward operation that journals it (sstore records the present value before writing, transfer moves `balance` from -> to, "
                 "a nonce bump adds one, a creation marks created and sets nonce 1, a warm load clears the cold mark), not from the revert code",
                 "z3 4.8.12 and cvc5 1.0 agree; a sat answer is replayed by the native round trips `journal_roundtrip` (operation, checkpoint_revert, whole-state equality) before it is reported"],
    jobs=[dict(name="e3::journal_revert_per_entry", fn=_jobs_c06.run_journal_revert),
          dict(name="e3::checkpoint_bookkeeping", fn=_jobs_c06.run_checkpoint_bookkeeping),
          dict(name="e3::forward_journalling", fn=_jobs_c06.run_forward_journalling),
          # the two fallible operations the property names: nothing is left changed when they fail (shared with C08 / C21)
          dict(name="e3::transfer_conservation", fn=__import__("jobs_e3").run_transfer_conservation),
          dict(name="e3::create_collision_guard", fn=__import__("jobs_c21").run_create_guard),
          dict(name="e3::transfer_sequential_consistency", fn=__import__("jobs_c21").run_transfer_order)],
)
CLAIMS["C06"] = dict(
    text="The journal is decided link by link from MIR (provenance flow, z3+cvc5 over every path). Forward: touching an account, bumping a nonce, setting code, writing a storage slot, writing "
         "a transient slot and self-destructing journal exactly one entry of the right kind, carrying the value that was there before (for sstore: the value just loaded, also when the slot was already dirty), "
         "before they change anything, and change and journal nothing on the paths that leave the state as it is (repeated touch, nonce at its maximum, same value). Backward: for each of the "
         "ten entry kinds one iteration of journal_revert touches exactly the account / slot / transient key the entry names, puts back exactly the recorded value or flag (or the inverse "
         "amount), and touches nothing else - in particular it does not change the warm/cold status of slots it has no entry for. Bookkeeping: a checkpoint remembers logs.len() and "
         "journal.len(), raises depth by one and opens one journal vector; a commit only lowers depth; a revert lowers depth, reverts the vectors after the checkpoint newest first, entries "
         "last first, and truncates logs and journal to the remembered lengths.",
    note="Partial: the per-operation and per-entry facts and the bookkeeping; that they compose to `the state equals the state at the checkpoint` for arbitrary sequences is the induction over "
         "the entry list, which is argued, not encoded. Value moves of transfer / create / selfdestruct: C08, C21; warming entries: C34.",
    technique="MIR provenance-flow symbolic execution + SMT path queries (z3+cvc5): one cut loop iteration of journal_revert per entry kind, the three checkpoint functions, five journalling "
              "mutators; native replay by operation / revert round trips on the real JournaledState",
    engine="smt-mir", design_ref="DESIGN.md §5 C06",
)
NOT_APPLICABLE.pop("C06", None)
SMT_SERVES.add("C06")
