# Registry fragment for C27 (exec'd with PROPS, CLAIMS, H, ARRAYS_UF in scope).
_C27_KECCAK = ["keccak256 -> digest_stub"]
_C27_NOEOF = ["keccak256 -> digest_stub", "decode -> eof_decode_must_not_be_called"]
# jump analysis (and the two 23-byte hash harnesses): Kani's reach checks make CBMC print one full JSON trace per reachable check (622 MB for N = 0);
# assertions, pointer/overflow checks, unwinding assertions and cover witnesses are unaffected by this flag.
_C27_NOREACH = ["-Z", "unstable-options", "--no-assertion-reach-checks"]

import jobs_c27 as _jobs_c27
PROPS["C27"] = dict(
    functions=[
        "revm_primitives::Bytecode::{new_legacy, new_raw, new_raw_checked, new_eip7702, original_bytes, original_byte_slice, "
        "len, is_empty, hash_slow, is_eip7702, bytes_slice} (crates/primitives/src/bytecode.rs)",
        "revm_primitives::LegacyAnalyzedBytecode::{new, original_bytes, original_byte_slice} (crates/primitives/src/bytecode/legacy.rs)",
        "revm_primitives::Eip7702Bytecode::{new, new_raw, raw, address} (crates/primitives/src/eip7702/bytecode.rs)",
        "revm_interpreter::analysis::{to_analysed, analyze} (crates/interpreter/src/interpreter/analysis.rs), including the bitvec "
        "jump-table construction and set_unchecked with all pointer checks on",
        "revm_primitives::Eof::decode (real code) only on EF00-prefixed strings of 2..=8 bytes (always an error there)",
        "MIR of Bytecode::{original_bytes, original_byte_slice, len, is_empty, hash_slow} and LegacyAnalyzedBytecode::{original_bytes, original_byte_slice}: every path, all four variants (provenance flow)",
    ],
    bounds="code length concrete per harness, contents fully symbolic: legacy code and new_raw_checked/new_raw classification for every "
           "length 0..=8; jump analysis (to_analysed) for every length 0..=8; EF00-prefixed strings of length 2..=8; EF01-prefixed "
           "strings of length 22, 23, 24; EIP-7702: all 2^160 addresses, all 2^184 strings of 23 bytes, all strings of length "
           "0, 2, 3, 22, 24, 43; unwind = length + 2 (length + 35 for analysis); plus codes of 1..2 symbolic bytes followed by 32, 33 or 34 zero bytes "
           "(tails that look like the analysis padding)",
    outside="code longer than 8 bytes (the accessors do not branch on length, the analysis walk does); EF00-prefixed strings that decode "
            "to an EOF container (>= 20 bytes: Eof::decode does not close under the cap, see NOTES_c27.md), hence Bytecode::Eof values; "
            "EF01-prefixed strings of lengths other than 2..=8, 22, 23, 24; Bytecode::new_analyzed (unsafe constructor) and "
            "Bytecode::new()/default; the contents of the jump table; keccak256 itself. For each length 2..=8 the strings not starting "
            "with EF00 (c27_raw_checked_N, EOF decoder stubbed to fail) and those starting with EF00 (c27_raw_checked_ef00_N, real "
            "decoder) are separate harnesses that together cover every string of that length",
    assumptions=[
        "keccak256 is replaced by digest_stub: out[0] = length mod 256, out[1+i] = byte i for i < 31; injective on inputs of at most "
        "31 bytes, so hash_slow() == digest(input) decides that exactly the original bytes (not the padded buffer) were hashed; the "
        "empty-code constant KECCAK_EMPTY is the real one; keccak itself is trusted",
        "Eof::decode is replaced by a panicking stub in c27_raw_checked_N (inputs not starting with EF00): reaching it fails the harness",
        "input Bytes are static-backed (Bytes::from_static over a leaked symbolic array) except in c27_legacy_N (heap-backed "
        "Bytes::copy_from_slice); the bytes crate (vtables, clone/slice) is executed as is",
        "analysis harnesses use the kissat SAT solver (kani::solver); they, c27_raw_checked_ef01_23 and c27_7702_bytecode run with "
        "--no-assertion-reach-checks (Kani's UNREACHABLE diagnostics off; vacuity is guarded by the cover witnesses and the twin)",
        "Kani 0.68 / CBMC 6.11 / CaDiCaL / Kissat and the rustc MIR -> goto translation are trusted",
    ],
    jobs=[dict(name="e3::bytecode_accessor_coherence", fn=_jobs_c27.run_accessor_coherence)],
    harnesses=(
        [H("c27::c27_legacy_%d" % n, tier="quick", timeout=300, mem_gb=4, bounds="all codes of %d bytes (heap-backed Bytes)" % n,
           stubs_expected=_C27_KECCAK) for n in range(9)]
        + [H("c27::c27_raw_checked_%d" % n, tier="quick", timeout=600, mem_gb=4,
             bounds="all strings of %d bytes not starting with EF00" % n, stubs_expected=_C27_NOEOF) for n in range(9)]
        + [H("c27::c27_raw_checked_ef00_%d" % n, tier="quick", timeout=600, mem_gb=6,
             bounds="EF00 || all %d-byte tails, real Eof::decode" % (n - 2)) for n in range(2, 9)]
        + [H("c27::c27_raw_checked_ef01_%d" % n, tier=("thorough" if n == 23 else "quick"), flags=(_C27_NOREACH if n == 23 else []),
             timeout=900, mem_gb=4, bounds="EF01 || all %d-byte tails" % (n - 2), stubs_expected=_C27_KECCAK) for n in (22, 23, 24)]
        + [H("c27::c27_7702_encode", tier="thorough", timeout=900, mem_gb=8, bounds="all 2^160 addresses"),
           H("c27::c27_7702_bytecode", tier="quick", flags=_C27_NOREACH, timeout=900, mem_gb=6, bounds="all 2^160 addresses",
             stubs_expected=_C27_KECCAK),
           H("c27::c27_7702_decode_23", tier="quick", timeout=600, mem_gb=4,
             bounds="all strings of 23 bytes (includes: every accepted string re-encodes to itself)")]
        + [H("c27::c27_7702_len_%d" % n, tier="quick", timeout=300, mem_gb=4, bounds="all strings of %d bytes" % n)
           for n in (0, 2, 3, 22, 24, 43)]
        + [H("c27::c27_analysed_%d" % n, tier=("quick" if n <= 1 else "thorough"), flags=_C27_NOREACH, timeout=900, mem_gb=6,
             bounds="all codes of %d bytes; len/is_empty/original_byte_slice/original_bytes before and after to_analysed" % n,
             stubs_expected=_C27_KECCAK) for n in range(9)]
        + [H("c27::c27_analysed_hash_%d" % n, tier=("quick" if n <= 1 else "thorough"), flags=_C27_NOREACH, timeout=900, mem_gb=6,
             bounds="all codes of %d bytes; hash_slow after to_analysed" % n, stubs_expected=_C27_KECCAK) for n in range(9)]
        + [H("c27::c27_zero_tail_%s" % t, tier=tr, flags=_C27_NOREACH, timeout=900, mem_gb=6,
             bounds="%d symbolic head byte(s) followed by %d zero bytes (a tail that looks like the 33-byte analysis padding); len / original_byte_slice / padded length after to_analysed" % (k, z))
           for (t, k, z, tr) in (("k1_z32", 1, 32, "quick"), ("k1_z33", 1, 33, "quick"), ("k1_z34", 1, 34, "thorough"), ("k2_z33", 2, 33, "thorough"))]
        + [H("c27::c27_twin_must_fail", tier="quick", expect_fail=True, timeout=600, mem_gb=4, bounds="vacuity twin of c27_raw_checked_4",
             stubs_expected=_C27_NOEOF)]
    ),
)

CLAIMS["C27"] = dict(
    text="For every code of 0..=8 bytes, the Bytecode built by new_legacy / new_raw / new_raw_checked reports exactly those bytes "
         "(original_bytes, original_byte_slice), their length and emptiness, hash_slow passes exactly those bytes to keccak256 "
         "(KECCAK_EMPTY for empty code), and all of this still holds after jump analysis (to_analysed), which runs without any "
         "out-of-bounds access and pads the execution buffer with 33 bytes that never leak into the reports. new_raw_checked "
         "classifies every such string as the reference does (EF00 -> EOF decode error below 20 bytes, EF01 -> EIP-7702 length "
         "error, otherwise legacy). For every address, the EIP-7702 designator is ef0100 || address, decodes back to that address, "
         "every accepted 23-byte string re-encodes to itself, and other lengths / magic / version are rejected with the matching error.",
    note="Bounded in the code length (<= 8 bytes for legacy code, plus 1-2 bytes followed by 32..34 zero bytes); EOF containers are covered only by the accessor-coherence job (all variants, any length), not by a harness. keccak256 is stubbed by an "
         "injective length-and-position digest; keccak, the bytes crate, Kani/CBMC/Kissat are trusted.",
    technique="Kani/CBMC bounded model checking of the real functions, one harness per concrete length with symbolic contents; MIR provenance-flow symbolic execution + SMT (z3+cvc5) for the coherence of the accessors over all four variants",
    engine="kani-cbmc + smt-mir",
    design_ref="DESIGN.md §5 C27",
)

SMT_SERVES.add("C27")
