# Registry fragment for C23 (exec'd with PROPS, CLAIMS, H, ARRAYS_UF in scope).
# Every C23 harness runs with --no-assertion-reach-checks: Kani's per-assertion reachability asserts each make CBMC emit a full
# JSON trace (158 traces = 1.5 GB for one modexp instance: 265 s / 5.7 GB instead of 24 s / 1.1 GB). Vacuity is guarded by the
# kani::cover! witnesses (the driver requires all of them satisfied) and by c23_twin_must_fail.
# Measured (idle machine, 3 in parallel): every harness <= 86 s CBMC time and <= 3.2 GB; see NOTES_c23.md.
_C23_FLAGS = ["-Z", "unstable-options", "--no-assertion-reach-checks"]


def _c23(name, tier="quick", bounds="", stubs=(), timeout=600, mem_gb=6, expect_fail=False):
    return H("c23::" + name, tier=tier, flags=_C23_FLAGS, timeout=timeout, mem_gb=mem_gb, bounds=bounds, expect_fail=expect_fail,
             stubs_expected=list(stubs))


_C23_SHA = ["sha256 :: x86 :: compress"]
_C23_RIP = ["c160 :: compress"]
_C23_EC = ["ecrecover"]
_C23_BK = ["blake2 :: algo :: compress"]
_C23_RP = ["read_point"]
_C23_UF = ["wrapping_mul", "wrapping_div"]
_C23_MX = ["aurora_engine_modexp :: modexp", "berlin_gas_calc", "byzantium_gas_calc"]

PROPS["C23"] = dict(
    functions=[
        "revm_precompile::calc_linear_cost_u32 (crates/precompile/src/lib.rs)",
        "revm_precompile::identity::FUN -> identity_run",
        "revm_precompile::hash::{SHA256 -> sha256_run, RIPEMD160 -> ripemd160_run} (sha2 / ripemd compression functions stubbed)",
        "revm_precompile::secp256k1::ECRECOVER -> ec_recover_run (k256 backend `secp256k1::ecrecover` stubbed)",
        "revm_precompile::modexp::{calculate_iteration_count, berlin_gas_calc, byzantium_gas_calc}",
        "revm_precompile::modexp::{BERLIN -> berlin_run, BYZANTIUM -> byzantium_run} -> run_inner (aurora_engine_modexp::modexp stubbed)",
        "revm_precompile::blake2::FUN -> run (algo::compress stubbed)",
        "revm_precompile::bn128::{add,mul}::{BYZANTIUM,ISTANBUL} -> run_add / run_mul (read_point stubbed); bn128::read_fq (real, incl. bn::Fq::from_slice)",
        "revm_precompile::bn128::pair::{BYZANTIUM,ISTANBUL} -> run_pair (gas, length rule, empty input)",
        "revm_precompile::utilities::{right_pad, right_pad_with_offset, right_pad_vec, left_pad, left_pad_vec} as used by the above",
        "the 13 PrecompileWithAddress constants: address 1..9 and the Standard fn pointer stored in them (every run goes through the constant)",
    ],
    bounds="input LENGTH concrete per harness, input BYTES and gas limit symbolic (all 2^64 limits): identity 0/1/32/33/40 B; sha256 and ripemd160 0/1/32/33/64/65/130 B; "
           "ecrecover 0/63/64/100/128/160 B; blake2f 0/212/213/214 B (all 2^32 round counts); bn128 add 0/70/100/128/200 B; bn128 mul 50/96/130 B (decode-failure and OutOfGas paths only); "
           "pairing 0/1/191/193/385/577 B; modexp run: 11 shapes (B,E,M <= 40, input <= 140 B, upper 24 bytes of each length field symbolic, low 8 bytes concrete). "
           "Pure gas functions: calc_linear_cost_u32 all len <= 2^32; calculate_iteration_count all u64 x all 256-bit heads; berlin/byzantium_gas_calc: expression structure for "
           "ALL u64 lengths x all heads (uninterpreted * and /), numbers on the 15 EIP-2565 test vectors (concrete). Unwind 4..70 per harness, unwinding assertions on.",
    outside="every cryptographic output (digests, recovered address, modular power, curve sums/products, pairing result, BLAKE2 F); whether a BN254 point is on the curve / in the subgroup "
            "(only: a coordinate >= p is rejected by read_fq, and a rejected point fails the call); the SUCCESS path of bn128 mul (gas_used on success, scalar handling) and pairing with "
            "k >= 1 well-formed pairs: substrate-bn's scalar multiplication / pairing do not terminate in symex and their argument types cannot be named for stubbing; "
            "KZG point evaluation, BLS12-381, P256VERIFY (not built: default-features = false); the per-fork precompile SETS (Precompiles::new: HashMap) and "
            "EvmContext::call_precompile's result mapping (private, HashMap-backed); input lengths other than the instantiated ones; a symbolic numeric comparison of the modexp "
            "gas functions with u128 arithmetic (does not close: > 900 s) - numbers rest on ruint's * and / plus the 15 vectors.",
    assumptions=[
        "stub sha2::sha256::x86::compress / ripemd::c160::compress: no-op (x86_64 cfg branch of sha2; digest value outside)",
        "stub revm_precompile::secp256k1::ecrecover: records (sig, recid, msg); returns a harness-chosen Ok(32 symbolic bytes) or Err(default signature::Error)",
        "stub aurora_engine_modexp::modexp: records the three operands; returns symbolic bytes of a concrete length <= modulus length (capacity len+1, see NOTES: Kani artifact)",
        "stub revm_precompile::blake2::algo::compress: records (rounds, h, m, t, f); overwrites h with symbolic words",
        "stub revm_precompile::bn128::read_point: records the 64-byte slice; returns Ok(point at infinity, built by the real new_g1_point(0,0)) or one of the two decode errors, fixed per instance",
        "modexp run harnesses: the fork's gas function is a recorder returning a symbolic cost, the other fork's gas function asserts false; the gas functions are checked on their own",
        "modexp gas harnesses: ruint Uint::wrapping_mul / wrapping_div (operators * and /) are (a) uninterpreted recorders whose results are constrained only by bounds true of the real "
        "product/quotient (x*x < 2^128, (x*x)/16 < 2^128, 480*1025 <= 480*x < 2^73) - 'formula' harnesses, (b) exact schoolbook product / long division by a single-limb divisor "
        "(asserted) - 'vectors' harness; ruint's own kernels are trusted",
        "the u64 saturation of the iteration count (exp_len >= 2^61+32) is accepted: proven == min(2^64-1, EIP value); see NOTES (unreachable below gas limits of 2^59)",
        "types of k256 / substrate-bn are not nameable from the harness crate: stub signatures use return-position `impl Sized` pinned by inference (Kani checks the revealed types)",
        "kani::assume is used only to bound symbolic witness indices and the uninterpreted results above",
        "reference formulas transcribed in the harness from Yellow Paper app. E, EIP-152/196/197/198/1108/2565; client-consensus reading of EIP-2565 (head = FIRST 32 exponent bytes, "
        "zero head counts 0); the 15 (input, gas) vectors are the nagydani rows of the EIP-2565 test-case table",
        "assertion reachability checks are off (flag above); cover witnesses + twin guard vacuity",
        "Kani 0.68 / CBMC 6.11 / CaDiCaL trusted",
    ],
    harnesses=[
        _c23("c23_addresses", bounds="13 constants"),
        _c23("c23_linear_cost", bounds="all len <= 2^32 x 3 (base, word) pairs"),
    ]
    + [_c23("c23_identity_%d" % n, bounds="%d B symbolic, all limits" % n) for n in (0, 1, 32, 33, 40)]
    + [_c23("c23_sha256_%d" % n, tier=("quick" if n in (0, 33, 64) else "thorough"), bounds="%d B symbolic, all limits" % n, stubs=_C23_SHA) for n in (0, 1, 32, 33, 64, 65, 130)]
    + [_c23("c23_ripemd_%d" % n, tier=("quick" if n in (0, 33, 64) else "thorough"), bounds="%d B symbolic, all limits" % n, stubs=_C23_RIP) for n in (0, 1, 32, 33, 64, 65, 130)]
    + [_c23("c23_ecrecover_%s" % n, bounds="%s B symbolic, all limits, backend result symbolic" % n, stubs=_C23_EC) for n in ("0", "63", "64", "100", "128", "160", "128_backend_err")]
    + [
        _c23("c23_modexp_iteration_count", bounds="all u64 exp_len x all 256-bit heads"),
        _c23("c23_modexp_berlin_gas_formula", bounds="all u64 (b,e,m) x all heads; * and / uninterpreted", stubs=_C23_UF),
        _c23("c23_modexp_byzantium_gas_formula", bounds="all u64 (b,e,m) x all heads; * and / uninterpreted", stubs=_C23_UF),
        _c23("c23_modexp_gas_vectors", bounds="15 concrete EIP-2565 table rows x 2 forks; exact * and / stubs", stubs=_C23_UF),
    ]
    + [_c23("c23_modexp_run_" + n, tier=t, bounds=b, stubs=_C23_MX) for n, t, b in (
        ("berlin_1_1_1", "quick", "B=E=M=1, 99 B"),
        ("berlin_cut_data", "quick", "B=2,E=3,M=4, 100 B (data cut inside the exponent)"),
        ("berlin_cut_header", "quick", "B=3, 40 B (header cut inside the exponent-length field)"),
        ("berlin_zero_zero", "quick", "B=0,E=5,M=0, 101 B"),
        ("berlin_exp_40", "thorough", "B=1,E=40,M=2, 140 B"),
        ("berlin_empty", "quick", "0 B"),
        ("berlin_mod_only", "thorough", "B=0,E=1,M=33, 130 B"),
        ("byzantium_1_1_1", "quick", "B=E=M=1, 99 B"),
        ("byzantium_cut_data", "quick", "B=2,E=3,M=4, 100 B"),
        ("byzantium_exp_40", "thorough", "B=1,E=40,M=2, 140 B"),
        ("byzantium_zero_zero", "quick", "B=0,E=5,M=0, 101 B"))]
    + [_c23("c23_blake2_%d" % n, bounds="%d B symbolic, all limits" % n, stubs=_C23_BK) for n in (0, 212, 213, 214)]
    + [_c23("c23_bn_" + n, bounds=b, stubs=_C23_RP) for n, b in (
        ("add_byzantium_128", "128 B, 500 gas"),
        ("add_istanbul_128", "128 B, 150 gas"),
        ("add_istanbul_0", "0 B"),
        ("add_istanbul_100", "100 B (2nd point zero-extended)"),
        ("add_istanbul_200", "200 B (cut to 128)"),
        ("add_istanbul_err_first", "128 B, 1st point not a field member"),
        ("add_istanbul_err_second", "128 B, 2nd point not on curve"),
        ("add_byzantium_err_second", "70 B, 2nd point not a field member"),
        ("mul_byzantium_96_err", "96 B, 40000 gas, point not a field member"),
        ("mul_istanbul_96_err", "96 B, 6000 gas, point not on curve"),
        ("mul_istanbul_50_err", "50 B (point zero-extended), decode failure"),
        ("mul_istanbul_130_err", "130 B, decode failure"))]
    + [_c23("c23_bn_read_fq", bounds="all 32-byte values")]
    + [_c23("c23_bn_pair_" + n, bounds=n + " B") for n in
       ("istanbul_0", "byzantium_0", "istanbul_1", "istanbul_191", "istanbul_193", "byzantium_193", "istanbul_385", "byzantium_577")]
    + [_c23("c23_twin_must_fail", expect_fail=True, bounds="vacuity twin (identity, 33 B)")],
)

CLAIMS["C23"] = dict(
    text="For the nine classic precompiles CBMC decides, on the compiled revm-precompile code entered through the published address/function constants, everything that is not "
         "cryptography: the gas charged (15+3w, 60+12w, 600+120w, 3000, rounds, 150/500, 6000/40000, 34000k+45000 / 80000k+100000, EIP-198 and EIP-2565 modexp pricing), OutOfGas "
         "exactly when that cost exceeds the limit (all 2^64 limits), how the input is cut and zero-extended before it reaches the (stubbed) kernel, and the failure conditions "
         "(blake2f length and final flag, v not in {27,28} or dirty padding, BN254 coordinate >= p, pairing length not a multiple of 192, modexp lengths >= 2^64, the 0/0 shortcut). "
         "The modexp gas functions are decided for all 64-bit lengths and all 256-bit exponent heads as expressions over uninterpreted 256-bit * and /, and numerically on the "
         "15 EIP-2565 test vectors.",
    note="Partial: every cryptographic output is outside (sha2, ripemd, k256, aurora modexp, bn, blake2 F are stubbed; the stubs record their arguments so slicing/padding is checked). "
         "Input lengths are the instantiated ones; bn128 mul success path, pairing with >= 1 well-formed pair, KZG, BLS12-381 and the per-fork precompile sets are not covered. "
         "Trusted: the stubs, ruint's multiply/divide, the EIP transcription in the harness, Kani/CBMC/CaDiCaL.",
    technique="Kani/CBMC bounded model checking of the real precompile run functions with symbolic input bytes and gas limit, cryptographic kernels replaced by recording stubs; "
              "modexp pricing with uninterpreted (formula, all inputs) and exact (EIP test vectors) arithmetic stubs",
    design_ref="DESIGN.md §5 C23",
)
