"""Parser for rustc's `-Zunpretty=mir` text and the dump driver.

The dump is regenerated from /repo's working tree on every run (touch crate root, nightly rustc,
`-C overflow-checks=on -C debug-assertions=off`). Only the subset of MIR syntax that the named
functions use is understood; anything else raises Unsupported (the job becomes inconclusive).
"""
import os, re, subprocess, time, fcntl

VERIF = os.path.dirname(os.path.dirname(os.path.abspath(__file__)))
MIR_TARGET = os.environ.get("VERIF_MIR_TARGET", os.path.join(VERIF, ".scratch", "mir-target"))

CRATES = {
    "primitives": ("/repo/crates/primitives", ["--no-default-features", "--features", "std"]),
    "interpreter": ("/repo/crates/interpreter", ["--no-default-features", "--features", "std"]),
    "precompile": ("/repo/crates/precompile", ["--no-default-features", "--features", "std"]),
    "revm": ("/repo/crates/revm", ["--no-default-features", "--features", "std"]),
}


class Unsupported(Exception):
    pass


_dump_cache = {}


def dump(crate, log=print):
    """Return MIR text of a /repo crate, built from the current working tree."""
    if crate in _dump_cache:
        return _dump_cache[crate]
    path, feats = CRATES[crate]
    os.makedirs(MIR_TARGET, exist_ok=True)
    env = dict(os.environ, CARGO_NET_OFFLINE="true", CARGO_TARGET_DIR=MIR_TARGET, CARGO_TERM_COLOR="never")
    env.pop("RUSTUP_TOOLCHAIN", None)
    t0 = time.time()
    with open(os.path.join(MIR_TARGET, ".verif-mir.lock"), "w") as lk:
        fcntl.flock(lk, fcntl.LOCK_EX)
        os.utime(os.path.join(path, "src", "lib.rs"), None)  # without this a re-run prints nothing
        cmd = ["cargo", "+nightly", "rustc", "--offline", "--lib"] + feats + [
            "--", "-Zunpretty=mir", "-C", "debug-assertions=off", "-C", "overflow-checks=on"]
        p = subprocess.run(cmd, cwd=path, env=env, stdout=subprocess.PIPE, stderr=subprocess.PIPE, text=True)
    if p.returncode != 0 or "fn " not in p.stdout:
        raise Unsupported("MIR dump of %s failed: %s" % (crate, p.stderr[-1500:]))
    log(f"[mir] dumped {crate}: {p.stdout.count(chr(10))} lines in {time.time()-t0:.1f}s")
    _dump_cache[crate] = p.stdout
    return p.stdout


class Block:
    def __init__(self, name):
        self.name = name
        self.stmts = []      # raw statement strings (without trailing ';')
        self.term = None     # raw terminator string


class Function:
    def __init__(self, name, sig):
        self.name = name
        self.sig = sig
        self.args = []       # [(local, type)]
        self.ret = None
        self.locals = {}     # local -> type
        self.debug = {}      # source name -> local (last binding)
        self.debug_all = []  # [(source name, local)] including shadowed bindings
        self.blocks = {}     # name -> Block
        self.order = []
        self.text = ""


_FN_RE = re.compile(r"^fn (?P<name>.+?)\((?P<args>.*)\) -> (?P<ret>.+?) \{$|^fn (?P<name2>.+?)\((?P<args2>.*)\) \{$")


def split_top(s, sep=","):
    """Split on sep at nesting depth 0 w.r.t. (), [], <>, {} and string literals."""
    out, depth, cur, i, instr = [], 0, "", 0, False
    while i < len(s):
        c = s[i]
        if instr:
            cur += c
            if c == "\\":
                cur += s[i + 1]
                i += 1
            elif c == '"':
                instr = False
        elif c == '"':
            instr = True
            cur += c
        elif c in "([{<":
            depth += 1
            cur += c
        elif c in ")]}>":
            if c == ">" and i > 0 and s[i - 1] in "-=":
                cur += c  # '->' / '=>' are not brackets
            else:
                depth -= 1
                cur += c
        elif c == sep and depth == 0:
            out.append(cur.strip())
            cur = ""
        else:
            cur += c
        i += 1
    if cur.strip():
        out.append(cur.strip())
    return out


def parse_functions(text):
    """Return {name: [Function,...]} for every `fn` item in a MIR dump (CTFE duplicates are skipped)."""
    funcs = {}
    lines = text.split("\n")
    i = 0
    skip_next_ctfe = False
    while i < len(lines):
        ln = lines[i]
        if ln.startswith("// MIR FOR CTFE"):
            skip_next_ctfe = True
            i += 1
            continue
        if ln.startswith("fn ") and ln.endswith("{"):
            j = i + 1
            while j < len(lines) and lines[j] != "}":
                j += 1
            body = lines[i:j + 1]
            if not skip_next_ctfe:
                f = _parse_fn(body)
                if f is not None:
                    funcs.setdefault(f.name, []).append(f)
            skip_next_ctfe = False
            i = j + 1
            continue
        i += 1
    return funcs


def _parse_fn(body):
    head = body[0]
    m = re.match(r"^fn (.+?)\((.*)\)(?: -> (.+?))? \{$", head)
    if not m:
        return None
    # name may contain generic args with parentheses; find the split point robustly
    # by locating the first '(' at angle-bracket depth 0
    depth = 0
    pos = None
    s = head[3:]
    for k, c in enumerate(s):
        if c == "<":
            depth += 1
        elif c == ">" and k > 0 and s[k - 1] != "-":
            depth -= 1
        elif c == "(" and depth == 0:
            pos = k
            break
    if pos is None:
        return None
    name = s[:pos]
    rest = s[pos:]
    # matching close paren
    d = 0
    end = None
    for k, c in enumerate(rest):
        if c == "(":
            d += 1
        elif c == ")":
            d -= 1
            if d == 0:
                end = k
                break
    args = rest[1:end]
    tail = rest[end + 1:].strip()
    ret = None
    if tail.startswith("->"):
        ret = tail[2:].rstrip("{").strip()
    f = Function(name.strip(), head)
    f.ret = ret
    f.text = "\n".join(body)
    for a in split_top(args):
        mm = re.match(r"^(_\d+): (.+)$", a)
        if mm:
            f.args.append((mm.group(1), mm.group(2)))
            f.locals[mm.group(1)] = mm.group(2)
    cur = None
    for ln in body[1:]:
        t = ln.strip()
        if not t or t.startswith("//"):
            continue
        mm = re.match(r"^let (?:mut )?(_\d+): (.+);$", t)
        if mm and cur is None:
            f.locals[mm.group(1)] = mm.group(2)
            continue
        mm = re.match(r"^debug (\S+) => (.+);$", t)
        if mm and cur is None:
            f.debug[mm.group(1)] = mm.group(2)
            f.debug_all.append((mm.group(1), mm.group(2)))
            continue
        mm = re.match(r"^(bb\d+)(?: \(cleanup\))?: \{$", t)
        if mm:
            cur = Block(mm.group(1))
            f.blocks[cur.name] = cur
            f.order.append(cur.name)
            continue
        if t == "}" and cur is not None:
            if cur.stmts and cur.term is None:
                cur.term = cur.stmts.pop()
            cur = None
            continue
        if cur is not None:
            if t.endswith(";"):
                t = t[:-1]
            cur.stmts.append(t)
    for b in f.blocks.values():
        if b.term is None and b.stmts:
            b.term = b.stmts.pop()
    return f


def find(funcs, suffix):
    """Functions whose name equals suffix or ends with '::'+suffix."""
    out = []
    for n, fl in funcs.items():
        if n == suffix or n.endswith("::" + suffix) or n.endswith(suffix):
            out += fl
    return out


# ------------------------------------------------------------------ terminators

def successors(term):
    """Return list of (label, bb) for a terminator string."""
    t = term
    if t == "return" or t == "unreachable" or t.startswith("resume") or t.startswith("abort") or t.startswith("unwind"):
        return []
    m = re.match(r"^goto -> (bb\d+)$", t)
    if m:
        return [("goto", m.group(1))]
    m = re.match(r"^switchInt\((.*)\) -> \[(.*)\]$", t)
    if m:
        out = []
        for part in split_top(m.group(2)):
            k, v = part.split(": ")
            out.append((k.strip(), v.strip()))
        return out
    m = re.search(r"-> \[(.*)\]$", t)
    if m:
        out = []
        for part in split_top(m.group(1)):
            if ": " in part:
                k, v = part.split(": ", 1)
                if v.startswith("bb"):
                    out.append((k.strip(), v.strip()))
        return out
    m = re.search(r"-> (bb\d+)$", t)
    if m:
        return [("return", m.group(1))]
    return []


def call_of(term):
    """If the terminator is a call, return (dest, callee, args_string). The argument list is the LAST balanced parenthesis group before
    ` -> `: callee paths may themselves contain parentheses (`map::<(A, B), fn(X) -> Y {f}>`)."""
    if term.startswith("assert(") or term.startswith("drop(") or term.startswith("switchInt("):
        return None
    m = re.match(r"^(.*\)) -> (?:\[.*\]|unwind .*|bb\d+)$", term)
    if not m:
        return None
    head = m.group(1)
    depth, i = 0, len(head) - 1
    while i >= 0:
        ch = head[i]
        if ch == ")":
            depth += 1
        elif ch == "(":
            depth -= 1
            if depth == 0:
                break
        i -= 1
    if i <= 0:
        return None
    args = head[i + 1:-1]
    left = head[:i]
    dest = None
    md = re.match(r"^(_\d+|\(.*?\)|\(\*_\d+\)) = (.*)$", left)
    if md and not left.startswith("<"):
        dest, callee = md.group(1), md.group(2)
    else:
        md2 = re.match(r"^(.+?) = (.*)$", left)
        if md2 and re.match(r"^[_(\w*]", md2.group(1)) and "::" not in md2.group(1).split(" ")[0]:
            dest, callee = md2.group(1), md2.group(2)
        else:
            callee = left
    if callee in ("switchInt", "assert", "drop") or callee.startswith("assert("):
        return None
    return dest, callee, args
