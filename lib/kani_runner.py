"""E1 — run Kani proof harnesses of /verif/harness against /repo's working tree.

The harness crate has absolute path dependencies on /repo/crates/*, so every `cargo kani`
invocation re-reads the current sources (cargo mtime fingerprints) and re-generates the
goto program CBMC decides. Nothing is cached across source changes.
"""
import os, re, subprocess, time, threading, resource, shutil, json, hashlib, fcntl

VERIF = os.path.dirname(os.path.dirname(os.path.abspath(__file__)))
HARNESS = os.path.join(VERIF, "harness")
TARGET = os.environ.get("VERIF_KANI_TARGET", os.path.join(HARNESS, "target"))
ENV = dict(os.environ, CARGO_NET_OFFLINE="true", CARGO_TERM_COLOR="never")
ENV.pop("RUSTUP_TOOLCHAIN", None)

NSLOTS = 16
ARRAYS_UF = ["-Z", "unstable-options", "--cbmc-args", "--arrays-uf-always"]

_build_lock = threading.Lock()
_built = False


def refresh_lock():
    """Harness crate resolves with /repo's own lock file (offline, no new crates)."""
    src = "/repo/Cargo.lock"
    dst = os.path.join(HARNESS, "Cargo.lock")
    if not os.path.exists(dst):
        shutil.copy(src, dst)


def build(log):
    """Compile the harness crate + the real revm crates for Kani (no verification)."""
    global _built
    with _build_lock:
        if _built:
            return True, ""
        refresh_lock()
        t0 = time.time()
        # The harness filter is part of the compiler arguments of the leaf crate, so the primary
        # build only compiles the dependency graph (the real revm crates) plus one cheap harness;
        # every slot then rebuilds the leaf for its own harness in its own target directory.
        cmd = ["cargo", "kani", "--only-codegen", "--target-dir", TARGET, "-Z", "stubbing",
               "--harness", "util::build_probe", "--exact"]
        os.makedirs(TARGET, exist_ok=True)
        with open(os.path.join(TARGET, ".verif-build.lock"), "w") as lk:
            fcntl.flock(lk, fcntl.LOCK_EX)
            p = subprocess.run(cmd, cwd=HARNESS, env=ENV, stdout=subprocess.PIPE, stderr=subprocess.STDOUT, text=True)
        log(f"[build] cargo kani --only-codegen -> rc={p.returncode} in {time.time()-t0:.1f}s")
        if p.returncode != 0:
            return False, p.stdout[-6000:]
        _built = True
        return True, ""


class Result:
    def __init__(self, name):
        self.name = name
        self.status = "inconclusive"  # pass | fail | inconclusive
        self.reason = ""
        self.checks_total = 0
        self.checks_failed = 0
        self.covers_total = 0
        self.covers_sat = 0
        self.failed_checks = []  # [{description, location}]
        self.solver_s = 0.0
        self.wall_s = 0.0
        self.rss_mb = 0
        self.expect_fail = False
        self.stubs = []
        self.log_path = ""

    def to_json(self):
        return {k: getattr(self, k) for k in (
            "name", "status", "reason", "checks_total", "checks_failed", "covers_total",
            "covers_sat", "failed_checks", "solver_s", "wall_s", "rss_mb", "expect_fail", "stubs")}


_CHECK_RE = re.compile(
    r"^Check \d+: (?P<id>.+)\n\s+- Status: (?P<st>\w+)\n\s+- Description: \"(?P<desc>.*)\"\n(?:\s+- Location: (?P<loc>.*)\n)?",
    re.M)


def parse_output(out, res):
    """Classify one harness from Kani's regular output."""
    for m in _CHECK_RE.finditer(out):
        st = m.group("st")
        cid = m.group("id")
        if ".cover." in cid or cid.startswith("cover"):
            pass
        if st in ("FAILURE", "UNDETERMINED", "UNREACHABLE", "SUCCESS", "SATISFIED", "UNSATISFIABLE"):
            pass
        if st == "FAILURE":
            res.failed_checks.append({"id": cid, "description": m.group("desc"), "location": (m.group("loc") or "").strip()})
    m = re.search(r"\*\* (\d+) of (\d+) failed", out)
    if m:
        res.checks_failed, res.checks_total = int(m.group(1)), int(m.group(2))
    m = re.search(r"\*\* (\d+) of (\d+) cover properties satisfied", out)
    if m:
        res.covers_sat, res.covers_total = int(m.group(1)), int(m.group(2))
    m = re.search(r"Verification Time: ([0-9.]+)s", out)
    if m:
        res.solver_s = float(m.group(1))
    res.stubs = re.findall(r"- Stub: (.*)", out)
    verdict = None
    m = re.search(r"VERIFICATION:- (\w+)", out)
    if m:
        verdict = m.group(1)
    undet = [c for c in _CHECK_RE.finditer(out) if c.group("st") == "UNDETERMINED"]
    if "CBMC failed" in out or "Status: ERROR" in out or "out of memory" in out.lower() or "std::bad_alloc" in out:
        res.status, res.reason = "inconclusive", "CBMC error / out of memory"
        return
    if verdict is None:
        res.status, res.reason = "inconclusive", "no verdict in Kani output (timeout, crash or build error)"
        return
    if verdict == "SUCCESSFUL":
        if res.covers_total and res.covers_sat < res.covers_total:
            res.status, res.reason = "inconclusive", f"vacuity: only {res.covers_sat}/{res.covers_total} cover witnesses satisfied"
        else:
            res.status = "pass"
        return
    # FAILED
    real = [f for f in res.failed_checks
            if "unwinding assertion" not in f["description"]
            and "is not currently supported" not in f["description"]
            and "unsupported" not in f["description"].lower()]
    unwind = [f for f in res.failed_checks if "unwinding assertion" in f["description"]]
    unsup = [f for f in res.failed_checks if f not in real and f not in unwind]
    if real and not unwind:
        res.status = "fail"
        return
    if real and unwind:
        # an assertion failed on a path that is inside the unwind bound: still a real counterexample
        res.status = "fail"
        res.reason = "assertion failure together with unwinding-assertion failure"
        return
    if unwind:
        res.status, res.reason = "inconclusive", "unwinding assertion failed: loop bound too small for this tree"
        return
    if unsup:
        res.status, res.reason = "inconclusive", "unsupported construct reachable: " + unsup[0]["description"][:120]
        return
    res.status, res.reason = "inconclusive", "FAILED without a failed check (" + str(len(undet)) + " undetermined)"


def run_harness(h, log, logdir):
    """h: dict(name, flags=[], timeout=s, mem_gb=n, expect_fail=bool, stubbing=bool)."""
    name = h["name"]
    res = Result(name)
    res.expect_fail = bool(h.get("expect_fail"))
    slot_fd, slot_dir = acquire_slot()
    try:
        return _run_in_slot(h, res, slot_dir, log, logdir)
    finally:
        fcntl.flock(slot_fd, fcntl.LOCK_UN)
        slot_fd.close()


def acquire_slot():
    """A private copy of the primary target dir (rsync, ~0.6 s) so concurrent leaf rebuilds cannot race."""
    base = TARGET + "-slots"
    os.makedirs(base, exist_ok=True)
    while True:
        for i in range(NSLOTS):
            fd = open(os.path.join(base, f"slot{i}.lock"), "w")
            try:
                fcntl.flock(fd, fcntl.LOCK_EX | fcntl.LOCK_NB)
            except OSError:
                fd.close()
                continue
            d = os.path.join(base, f"slot{i}")
            with open(os.path.join(TARGET, ".verif-build.lock"), "a") as lk:
                fcntl.flock(lk, fcntl.LOCK_SH)  # never copy while another check rebuilds the primary
                subprocess.run(["rsync", "-a", "--delete", "--exclude", ".verif-build.lock", TARGET + "/", d + "/"], check=False)
            return fd, d
        time.sleep(0.5)


def _run_in_slot(h, res, slot_dir, log, logdir):
    name = h["name"]
    cmd = ["cargo", "kani", "--target-dir", slot_dir, "--harness", name, "--exact", "-Z", "stubbing"]
    cmd += h.get("flags", [])
    timeout = int(h.get("timeout", 600))
    mem = int(h.get("mem_gb", 16)) << 30

    def pre():
        os.setsid()
        resource.setrlimit(resource.RLIMIT_AS, (mem, mem))
        try:  # CBMC recurses deeply over large expressions; the default 8 MiB stack makes it segfault (status 139)
            resource.setrlimit(resource.RLIMIT_STACK, (resource.RLIM_INFINITY, resource.RLIM_INFINITY))
        except (ValueError, OSError):
            pass

    os.makedirs(logdir, exist_ok=True)
    res.log_path = os.path.join(logdir, name.replace("::", "__") + ".log")
    t0 = time.time()
    ru0 = resource.getrusage(resource.RUSAGE_CHILDREN).ru_maxrss
    try:
        p = subprocess.Popen(["/usr/bin/time", "-f", "MAXRSS_KB=%M"] + cmd, cwd=HARNESS, env=ENV,
                             stdout=subprocess.PIPE, stderr=subprocess.STDOUT, text=True, preexec_fn=pre)
        try:
            out, _ = p.communicate(timeout=timeout)
        except subprocess.TimeoutExpired:
            try:
                os.killpg(p.pid, 9)
            except ProcessLookupError:
                pass
            out, _ = p.communicate()
            out += "\n[driver] TIMEOUT after %ds\n" % timeout
            res.wall_s = time.time() - t0
            with open(res.log_path, "w") as f:
                f.write(out)
            res.status, res.reason = "inconclusive", f"timeout after {timeout}s"
            return res
    except Exception as e:  # pragma: no cover
        res.status, res.reason = "inconclusive", f"driver error: {e}"
        return res
    res.wall_s = time.time() - t0
    with open(res.log_path, "w") as f:
        f.write(out)
    m = re.search(r"MAXRSS_KB=(\d+)", out)
    if m:
        res.rss_mb = int(m.group(1)) // 1024
    parse_output(out, res)
    if "error: no harnesses matched" in out or "No proof harnesses" in out:
        res.status, res.reason = "inconclusive", "harness not found"
    if h.get("stubs_expected"):
        # Kani prints `- Stub: a :: b :: f -> g`; expectations may be written as a bare name or as `path::f -> path::g`
        lines = [re.sub(r"\s+", "", x) for x in res.stubs]
        for s in h["stubs_expected"]:
            toks = [re.sub(r"\s+", "", t).split("::")[-1] for t in s.split("->")]
            if not any(all(t in ln for t in toks) for ln in lines):
                res.status, res.reason = "inconclusive", f"stub {s} was not applied"
    return res


def run_many(harnesses, log, logdir, mem_budget_gb=40, max_par=8):
    """Memory-budgeted parallel scheduler."""
    ok, err = build(log)
    if not ok:
        out = []
        for h in harnesses:
            r = Result(h["name"])
            r.status, r.reason = "inconclusive", "harness crate failed to build against /repo: " + err[-1500:]
            out.append(r)
        return out
    results = {}
    lock = threading.Condition()
    state = {"mem": 0, "run": 0}
    pending = sorted(harnesses, key=lambda h: -int(h.get("timeout", 600)))

    def worker(h):
        r = run_harness(h, log, logdir)
        with lock:
            results[h["name"]] = r
            state["mem"] -= int(h.get("mem_gb", 16))
            state["run"] -= 1
            lock.notify_all()
        log(f"[kani] {h['name']}: {r.status}{' (expected FAILED)' if r.expect_fail else ''} "
            f"checks={r.checks_total} failed={r.checks_failed} covers={r.covers_sat}/{r.covers_total} "
            f"solver={r.solver_s:.1f}s wall={r.wall_s:.1f}s rss={r.rss_mb}MB {r.reason}")

    def mem_available_gb():
        try:
            for ln in open("/proc/meminfo"):
                if ln.startswith("MemAvailable:"):
                    return int(ln.split()[1]) / (1 << 20)
        except Exception:
            pass
        return 1e9

    threads = []
    for h in pending:
        need = int(h.get("mem_gb", 16))
        # other checks may run on this machine at the same time: never start a harness the machine has no room for
        # (an out-of-memory CBMC run is reported as inconclusive, which a merely busy machine must not cause)
        waited = 0
        while mem_available_gb() < min(need, 12) + 4 and waited < 1800:
            time.sleep(5)
            waited += 5
        with lock:
            while state["run"] >= max_par or (state["run"] > 0 and state["mem"] + need > mem_budget_gb):
                lock.wait()
            state["mem"] += need
            state["run"] += 1
        t = threading.Thread(target=worker, args=(h,))
        t.start()
        threads.append(t)
    for t in threads:
        t.join()
    return [results[h["name"]] for h in harnesses]


# ---------------------------------------------------------------- replay

def concrete_playback(h, log, workdir):
    """Ask Kani for a concrete counterexample of a failed harness, turn it into a unit test and
    run it natively (debug profile) against /repo. Returns (reproduced: bool|None, test_path, detail)."""
    name = h["name"]
    short = name.split("::")[-1]
    mod = name.split("::")[0] if "::" in name else None
    pb_target = os.path.join(VERIF, ".scratch", "playback-gen-target")
    os.makedirs(pb_target, exist_ok=True)
    subprocess.run(["rsync", "-a", "--delete", "--exclude", ".verif-build.lock", TARGET + "/", pb_target + "/"], check=False)
    cmd = ["cargo", "kani", "--target-dir", pb_target, "--harness", name, "--exact", "-Z", "stubbing",
           "-Z", "concrete-playback", "--concrete-playback=print"] + h.get("flags", [])
    try:
        p = subprocess.run(cmd, cwd=HARNESS, env=ENV, stdout=subprocess.PIPE, stderr=subprocess.STDOUT,
                           text=True, timeout=int(h.get("timeout", 600)) * 2)
    except subprocess.TimeoutExpired:
        return None, "", "concrete playback generation timed out"
    out = p.stdout
    # Kani prints one unit test per failed check; each is tried until one misbehaves natively
    tests = re.findall(r"```\n?(#\[test\].*?)```", out, re.S)
    if not tests:
        tests = re.findall(r"(#\[test\]\s*\nfn kani_concrete_playback_.*?\n\})", out, re.S)
    if not tests:
        return None, "", "Kani produced no concrete playback test (non-assertion failure or unsupported input type)"
    uniq, seen_names = [], set()
    for t in tests:
        nm = re.search(r"fn (kani_concrete_playback_\w+)", t)
        if nm and nm.group(1) not in seen_names:
            seen_names.add(nm.group(1))
            uniq.append((nm.group(1), t.strip()))
    test_src = "\n\n".join(t for _, t in uniq)
    # scratch copy of the harness crate with the test appended to the harness's module
    if os.path.exists(workdir):
        shutil.rmtree(workdir)
    shutil.copytree(HARNESS, workdir, ignore=shutil.ignore_patterns("target*"))
    if mod is None:
        return None, "", "cannot locate module of harness"
    modfile = os.path.join(workdir, "src", mod + ".rs")
    with open(modfile, "a") as f:
        f.write("\n\n" + test_src + "\n")
    env = dict(ENV, CARGO_TARGET_DIR=os.path.join(VERIF, ".scratch", "playback-target"))
    last = ""
    verdict = None
    for tname, _t in uniq[:6]:
        cmd = ["cargo", "kani", "playback", "-Z", "concrete-playback", "--", tname]
        try:
            p = subprocess.run(cmd, cwd=workdir, env=env, stdout=subprocess.PIPE, stderr=subprocess.STDOUT, text=True, timeout=1800)
        except subprocess.TimeoutExpired:
            last = "native playback timed out"
            continue
        pout = p.stdout
        if re.search(r"test result: FAILED", pout) or "panicked at" in pout:
            msg = re.search(r"panicked at (.*?)\n(.*?)\n", pout)
            shutil.rmtree(workdir, ignore_errors=True)
            return True, test_src, ("native run panicked: " + (msg.group(0).strip() if msg else ""))[:600]
        if re.search(r"test result: ok", pout):
            verdict = False
            last = "native run of the counterexample passed (does not reproduce)"
        else:
            last = "native playback could not be built/run: " + pout[-800:]
    shutil.rmtree(workdir, ignore_errors=True)
    if verdict is False:
        return False, test_src, last
    pout = last
    return None, test_src, "native playback could not be built/run: " + pout[-800:]
