"""C29, two obligations beyond the push/pop balance of the input stacks (jobs_e3.run_inspector_balance):

(1) `each emitted log is reported once`: the set of opcodes whose instruction is wrapped with the log notification by inspector_handle_register
    (a u8 range read from MIR, constants resolved in the interpreter crate) equals the set of opcodes that the interpreter's instruction table
    maps to host::log (read from the MIR of `instruction(opcode)`); decided for all 256 opcodes as an 8-bit bit-vector query.
(2) `a matching end notification carrying the same inputs`: the inputs queued for *_end are the inputs the call runs with, i.e. they are cloned
    AFTER the inspector's call / create / eofcreate hook had its chance to rewrite them.  Path search over the MIR control-flow graph of the three
    frame closures: a returning path on which an inputs clone is taken while no hook call has happened yet.

Replay: `inspector_logs_inputs` (LOG0..LOG4 under an inspector that counts; an inspector that rewrites inputs and compares at *_end)."""
import os
import re

import mir
import native
import smt
from jobs_e3 import extract_opcode_table, path_search2, REPO


def _u8(text_i, operand):
    operand = operand.strip()
    m = re.match(r"^const (\d+)_u8$", operand)
    if m:
        return int(m.group(1))
    m = re.match(r"^const ([\w:]+)$", operand)
    if m:
        nm = m.group(1).split("::")[-1]
        d = set(re.findall(r"^const (?:[\w:]+::)?%s: u8 = const (\d+)_u8;" % re.escape(nm), text_i, re.M))
        if len(d) == 1:
            return int(d.pop())
    return None


def _replay(log):
    st, out = native.call("debug", "inspector_logs_inputs", log=log)
    if st != "ok":
        return None, f"{st} {out}"
    return re.findall(r"\[(inspector_\w+) [^\]]*? MISMATCH\]", out), out


def run_logs_and_inputs(tier, log, seed):
    text = mir.dump("revm", log)
    funcs = mir.parse_functions(text)
    text_i = mir.dump("interpreter", log)
    funcs_i = mir.parse_functions(text_i)
    duo = smt.Duo(timeout_s=30)
    samples, failures, inconcl = [], [], []
    replay = {}

    def rp():
        if "r" not in replay:
            replay["r"] = _replay(log)
        return replay["r"]
    # ---- (1) the wrapped range
    roots = [f for n, fl in funcs.items() for f in fl if n == "inspector_handle_register" or n.endswith("::inspector_handle_register")]
    pred, why = None, "inspector_handle_register: MIR body not found uniquely"
    if len(roots) == 1:
        fn = roots[0]
        rng = []
        for b in fn.blocks.values():
            c = mir.call_of(b.term or "")
            if c and re.search(r"RangeInclusive::<u8>::new$", c[1]):
                a = mir.split_top(c[2])
                rng.append(("incl", a[0], a[1]))
            for s_ in b.stmts:
                m = re.match(r"^_\d+ = (?:std::ops::)?Range::?<u8> \{ start: (.+?), end: (.+?) \}$", s_)
                if m:
                    rng.append(("excl", m.group(1), m.group(2)))
        why = f"{len(rng)} u8 ranges in inspector_handle_register"
        if len(rng) == 1:
            kind, a, b_ = rng[0]
            lo, hi = _u8(text_i, a), _u8(text_i, b_)
            if lo is not None and hi is not None:
                pred = f"(and (bvuge op (_ bv{lo} 8)) ({'bvule' if kind == 'incl' else 'bvult'} op (_ bv{hi} 8)))"
                why = f"log wrapper installed for opcodes {lo}..{'=' if kind == 'incl' else ''}{hi}"
            else:
                why = f"range bounds not resolved to u8 constants: {a}, {b_}"
    try:
        table = extract_opcode_table(funcs_i, text_i)
        log_ops = sorted(op for op, (path, gen) in table.items() if re.search(r"(^|::)log$", path))
    except mir.Unsupported as e:
        log_ops, why = [], f"opcode table: {e}"
    if pred is None or not log_ops:
        bad, out = rp()
        if bad is None:
            inconcl.append(f"log wrapper: {why}; native replay failed: {out}")
        elif "inspector_logs" in bad:
            failures.append(dict(id="log-wrapper-range", reproduced=True, description=f"log wrapper: {why} | native: {out[:200]}"))
        else:
            inconcl.append(f"log wrapper: {why} (native: every log of LOG0..LOG4 is reported once)")
    else:
        is_log = "(or " + " ".join(f"(= op (_ bv{o} 8))" for o in log_ops) + ")"
        v, model, detail = duo.check(["(declare-const op (_ BitVec 8))"], [f"(distinct {pred} {is_log})"], want_model_of=("op",))
        samples.append(f"{why}; opcodes mapped to host::log by the instruction table: {log_ops}; an opcode in one set and not the other: {v}")
        log(f"[c29] {samples[-1]}")
        if v == "sat":
            bad, out = rp()
            desc = f"{why}, but the instruction table maps {log_ops} to host::log: {str(model).strip()[:60]} is wrapped without emitting logs or emits logs unreported"
            if bad is None:
                inconcl.append(f"log wrapper: native replay failed: {out}")
            else:
                failures.append(dict(id="log-wrapper-range", reproduced=("inspector_logs" in bad), description=desc + f" | native: {out[:200]}"))
        elif v != "unsat":
            inconcl.append(f"log wrapper: {detail}")
    # ---- (2) inputs are queued after the hook
    src = open(os.path.join(REPO, "crates/revm/src/inspector/handler_register.rs")).read().split("\n")
    for field, hook, ty in (("call", "call", "CallInputs"), ("create", "create", "CreateInputs"), ("eofcreate", "eofcreate", "EOFCreateInputs")):
        line = next((i + 1 for i, l in enumerate(src) if re.search(r"handler\.execution\.%s = Arc::new\(" % field, l)), None)
        cands = []
        if line:
            for n, fl in funcs.items():
                if "inspector_handle_register::{closure#" not in n:
                    continue
                for f in fl:
                    m = re.search(r"\{closure@crates/revm/src/inspector/handler_register\.rs:(\d+):", f.sig)
                    if m and line <= int(m.group(1)) <= line + 2 and "FrameOrResult" in (f.ret or f.sig):
                        cands.append(f)
        if len(cands) != 1:
            inconcl.append(f"{field}: frame closure not found uniquely in MIR ({len(cands)})")
            continue
        fn = cands[0]
        delta, hooks, clones = {}, 0, 0
        for b in fn.blocks.values():
            c = mir.call_of(b.term or "")
            if not c:
                continue
            if re.search(r"Inspector<.*>>::%s$" % hook, c[1]):
                delta.setdefault(b.name, {})["hook"] = "1"
                hooks += 1
            elif re.search(r"<(?:std::boxed::)?Box<[\w:]*%s> as Clone>::clone$" % ty, c[1]) or re.search(r"<[\w:]*%s as Clone>::clone$" % ty, c[1]):
                delta.setdefault(b.name, {})["early"] = f"(ite (= hook_{b.name} 0) 1 0)"
                delta[b.name]["clones"] = "1"
                clones += 1
        if hooks != 1 or clones < 1:
            bad, out = rp()
            whyq = f"{field} closure: {hooks} hook call(s), {clones} clone(s) of the inputs (shape not recognised)"
            if bad is None:
                inconcl.append(f"{whyq}; native replay failed: {out}")
            elif "inspector_inputs" in bad and field != "eofcreate":
                failures.append(dict(id=f"{field}-inputs-order", reproduced=True, description=whyq + f" | native: {out[:250]}"))
            else:
                inconcl.append(whyq + " (native: the end notifications carry the rewritten inputs)")
            continue
        v, info = path_search2(fn, duo, ["hook", "early", "clones"], delta, lambda val, b_: f"(> {val['early']} 0)")
        wv, _ = path_search2(fn, duo, ["hook", "early", "clones"], delta, lambda val, b_: f"(and (= {val['early']} 0) (> {val['clones']} 0) (= {val['hook']} 1))")
        samples.append(f"{field} closure: {info.get('blocks')} blocks, 1 hook call, {clones} clone site(s): a returning path that queues the inputs before the hook ran: {v} (witness hook-then-queue: {wv})")
        log(f"[c29] {samples[-1]}")
        if v == "unsat" and wv == "sat":
            continue
        if v == "sat":
            bad, out = rp()
            desc = (f"inspector {field} closure: the inputs queued for {field}_end are cloned before Inspector::{hook} runs (path {'>'.join(info.get('path', [])[-6:])}): "
                    f"a hook that rewrites the inputs makes {field}_end carry inputs the call did not run with")
            if bad is None:
                inconcl.append(f"{field}: native replay failed: {out}")
            else:
                failures.append(dict(id=f"{field}-inputs-order", reproduced=("inspector_inputs" in bad and field != "eofcreate"), description=desc + f" | native: {out[:250]}"))
        else:
            inconcl.append(f"{field}: path search {v}, witness {wv}: {info}")
    q, tm = duo.queries, duo.time
    duo.close()
    res = dict(queries=q, solver_s=tm, engine="mir -> smtlib (8-bit bit-vector set equality; mir-cfg path search; z3 4.8.12 + cvc5 1.0)", bounds="; ".join(samples),
               detail="all 256 opcodes; every returning path of the three frame closures (acyclic CFGs, unwind edges excluded); eofcreate has no native replay")
    if any(f.get("reproduced") for f in failures):
        res.update(status="fail", failures=failures, reason=failures[0]["description"][:300])
    elif inconcl:
        res.update(status="inconclusive", reason="; ".join(map(str, inconcl))[:600])
    elif failures:
        res.update(status="fail", failures=failures, reason=failures[0]["description"][:300])
    else:
        res.update(status="pass")
    return res
